/* LD_PRELOAD tracer / crash injector for the crop file protocol (C10, C11).
   XV_ROOT: only paths under this prefix are traced; XV_LOG: append one line per write-side operation
   "<opno> <pid> <op> <path> <arg> <n>"; XV_CRASH_AT=k: _exit(137) right BEFORE performing operation number k. */
#define _GNU_SOURCE
#include <dlfcn.h>
#include <stdio.h>
#include <stdlib.h>
#include <string.h>
#include <stdarg.h>
#include <fcntl.h>
#include <unistd.h>
#include <sys/types.h>
#include <sys/stat.h>
#include <limits.h>

static const char *root = NULL; static int logfd = -1; static long opno = 0; static long crash_at = -1;
static char tracked[4096];
static void init(void){ if(root) return; root=getenv("XV_ROOT"); if(!root) root="\x01"; const char*l=getenv("XV_LOG"); if(l){ int (*ro)(const char*,int,...)=dlsym(RTLD_NEXT,"open"); logfd=ro(l,O_WRONLY|O_CREAT|O_APPEND,0644);} const char*c=getenv("XV_CRASH_AT"); if(c) crash_at=atol(c);}
static int under(const char*p){ init(); return p && strncmp(p,root,strlen(root))==0; }
static void logop(const char*op,const char*a,const char*b,long n){ char buf[PATH_MAX*2+64]; opno++; int k=snprintf(buf,sizeof buf,"%ld %d %s %s %s %ld\n",opno,getpid(),op,a?a:"-",b?b:"-",n); if(logfd>=0) { ssize_t (*rw)(int,const void*,size_t)=dlsym(RTLD_NEXT,"write"); rw(logfd,buf,k);} if(crash_at==opno) _exit(137); }
static void fdpath(int fd,char*out){ char l[64]; snprintf(l,sizeof l,"/proc/self/fd/%d",fd); ssize_t n=readlink(l,out,PATH_MAX-1); if(n<0)n=0; out[n]=0; }
static void resolve(int dirfd,const char*p,char*out){ if(p[0]=='/'||dirfd==AT_FDCWD){ if(p[0]=='/') strcpy(out,p); else { getcwd(out,PATH_MAX); strcat(out,"/"); strcat(out,p);} } else { fdpath(dirfd,out); strcat(out,"/"); strcat(out,p);} }

#define OPEN_IMPL(name) int name(const char*p,int flags,...){ mode_t m=0; if(flags&(O_CREAT|O_TMPFILE)){va_list ap;va_start(ap,flags);m=va_arg(ap,mode_t);va_end(ap);} int(*real)(const char*,int,...)=dlsym(RTLD_NEXT,#name); char r[PATH_MAX]; resolve(AT_FDCWD,p,r); if(under(r)&&(flags&(O_WRONLY|O_RDWR|O_CREAT))) logop(#name,r,(flags&O_TRUNC)?"trunc":"",flags); int fd=real(p,flags,m); if(fd>=0&&fd<4096&&under(r)) tracked[fd]=(flags&(O_WRONLY|O_RDWR))?1:0; return fd; }
OPEN_IMPL(open) OPEN_IMPL(open64)
#define OPENAT_IMPL(name) int name(int d,const char*p,int flags,...){ mode_t m=0; if(flags&(O_CREAT|O_TMPFILE)){va_list ap;va_start(ap,flags);m=va_arg(ap,mode_t);va_end(ap);} int(*real)(int,const char*,int,...)=dlsym(RTLD_NEXT,#name); char r[PATH_MAX]; resolve(d,p,r); if(under(r)&&(flags&(O_WRONLY|O_RDWR|O_CREAT))) logop(#name,r,(flags&O_TRUNC)?"trunc":"",flags); int fd=real(d,p,flags,m); if(fd>=0&&fd<4096&&under(r)) tracked[fd]=(flags&(O_WRONLY|O_RDWR))?1:0; return fd; }
OPENAT_IMPL(openat) OPENAT_IMPL(openat64)
ssize_t write(int fd,const void*b,size_t n){ ssize_t(*real)(int,const void*,size_t)=dlsym(RTLD_NEXT,"write"); init(); if(fd>=0&&fd<4096&&tracked[fd]){ char r[PATH_MAX]; fdpath(fd,r); logop("write",r,"",(long)n);} return real(fd,b,n); }
ssize_t pwrite64(int fd,const void*b,size_t n,off_t o){ ssize_t(*real)(int,const void*,size_t,off_t)=dlsym(RTLD_NEXT,"pwrite64"); init(); if(fd>=0&&fd<4096&&tracked[fd]){ char r[PATH_MAX]; fdpath(fd,r); logop("pwrite",r,"",(long)n);} return real(fd,b,n,o); }
ssize_t pwrite(int fd,const void*b,size_t n,off_t o){ ssize_t(*real)(int,const void*,size_t,off_t)=dlsym(RTLD_NEXT,"pwrite"); init(); if(fd>=0&&fd<4096&&tracked[fd]){ char r[PATH_MAX]; fdpath(fd,r); logop("pwrite",r,"",(long)n);} return real(fd,b,n,o); }
int close(int fd){ int(*real)(int)=dlsym(RTLD_NEXT,"close"); init(); if(fd>=0&&fd<4096&&tracked[fd]){ char r[PATH_MAX]; fdpath(fd,r); logop("close",r,"",0); tracked[fd]=0;} return real(fd); }
int rename(const char*a,const char*b){ int(*real)(const char*,const char*)=dlsym(RTLD_NEXT,"rename"); char ra[PATH_MAX],rb[PATH_MAX]; resolve(AT_FDCWD,a,ra); resolve(AT_FDCWD,b,rb); if(under(ra)||under(rb)) logop("rename",ra,rb,0); return real(a,b); }
int renameat(int d1,const char*a,int d2,const char*b){ int(*real)(int,const char*,int,const char*)=dlsym(RTLD_NEXT,"renameat"); char ra[PATH_MAX],rb[PATH_MAX]; resolve(d1,a,ra); resolve(d2,b,rb); if(under(ra)||under(rb)) logop("rename",ra,rb,0); return real(d1,a,d2,b); }
int unlink(const char*a){ int(*real)(const char*)=dlsym(RTLD_NEXT,"unlink"); char ra[PATH_MAX]; resolve(AT_FDCWD,a,ra); if(under(ra)) logop("unlink",ra,"",0); return real(a); }
int unlinkat(int d,const char*a,int f){ int(*real)(int,const char*,int)=dlsym(RTLD_NEXT,"unlinkat"); char ra[PATH_MAX]; resolve(d,a,ra); if(under(ra)) logop("unlinkat",ra,"",f); return real(d,a,f); }
int rmdir(const char*a){ int(*real)(const char*)=dlsym(RTLD_NEXT,"rmdir"); char ra[PATH_MAX]; resolve(AT_FDCWD,a,ra); if(under(ra)) logop("rmdir",ra,"",0); return real(a); }
int mkdir(const char*a,mode_t m){ int(*real)(const char*,mode_t)=dlsym(RTLD_NEXT,"mkdir"); char ra[PATH_MAX]; resolve(AT_FDCWD,a,ra); if(under(ra)) logop("mkdir",ra,"",0); return real(a,m); }
int ftruncate64(int fd,off_t l){ int(*real)(int,off_t)=dlsym(RTLD_NEXT,"ftruncate64"); init(); if(fd>=0&&fd<4096&&tracked[fd]){ char r[PATH_MAX]; fdpath(fd,r); logop("ftruncate",r,"",(long)l);} return real(fd,l); }
int ftruncate(int fd,off_t l){ int(*real)(int,off_t)=dlsym(RTLD_NEXT,"ftruncate"); init(); if(fd>=0&&fd<4096&&tracked[fd]){ char r[PATH_MAX]; fdpath(fd,r); logop("ftruncate",r,"",(long)l);} return real(fd,l); }
