"""C16: the BODY of `gen_cluster_script` and of `xyzpy_grow_cli.main`, translated on every run.

* `gcsOpts`   — `gen_cluster_script` from its first statement up to and including `opts = {…}`: the option handling
                (scheduler / mode validation, threads, time, memory and header resources, output directory, conda
                activation, header lines) as a Lean function from the keyword arguments to the `opts` mapping
                (harness/pydyn2lean.py: dynamically typed values `Scr.PyVal`, primitives `Scr.Py.*`).
* `gcsTail`   — from the statement after `opts = {…}` up to (excluding) `script = script.format(**opts)`: which ids,
                `array_mode`, which templates are concatenated, `run_start` / `run_stop`, the single-mode override —
                a function to (the unformatted script, the completed `opts`).
* `cliSk`     — `xyzpy_grow_cli.main` as an effect skeleton (pysk2lean): parse, build the crop from the arguments,
                `is_prepared()` → error, `grow_missing(num_workers=args.num_workers, verbosity=args.verbosity)`.
* `gcsWrapper*` — what `gen_qsub_script` / the `gen_<sched>_script` partial methods hand on to `gen_cluster_script`.

`XyzProofs/Refine/Script.lean` proves that the hand model (`Scr.resolve`, `Scr.mkScript`) computes what `gcsOpts` /
`gcsTail` compute; `XyzProofs/Props/C16Cli.lean` states the CLI property on `cliSk`."""
import ast
from extract import find, one, NotFound
from pyexpr2lean import Untranslatable
from pydyn2lean import DSpec, translate_dyn
from anchors_script import PY2LEAN

FILES = {'cropping': 'xyzpy/gen/cropping.py', 'growcli': 'xyzpy/gen/xyzpy_grow_cli.py', 'utils': 'xyzpy/utils.py'}


def val(n): return (n, 'val')
def st(n): return (n, 'str')


def _is_opts_dict(s):
    return isinstance(s, ast.Assign) and len(s.targets) == 1 and ast.unparse(s.targets[0]) == 'opts' and isinstance(s.value, ast.Dict)


def _is_format(s):
    return any(isinstance(n, ast.Call) and isinstance(n.func, ast.Attribute) and n.func.attr == 'format'
               and any(k.arg is None for k in n.keywords) for n in ast.walk(s))


def _noop(s):
    """statements without influence on the script: refreshing the progress counters, warnings, prints"""
    if isinstance(s, ast.Expr) and isinstance(s.value, ast.Call) and ast.unparse(s.value.func) in ('crop.calc_progress', 'warnings.warn', 'print'):
        return True
    if isinstance(s, ast.If) and not s.orelse and s.body and all(_noop(b) for b in s.body):
        return True            # `if …: warnings.warn(…)` (its test is taken not to raise)
    return False


def _params(f):
    a = f.args
    return [x.arg for x in a.posonlyargs + a.args + a.kwonlyargs], (a.kwarg.arg if a.kwarg else None)


_GCS_VALS = ['num_procs', 'num_threads', 'num_nodes', 'num_workers', 'mem', 'mem_per_cpu', 'gigabytes', 'time', 'hours',
             'minutes', 'seconds', 'conda_env', 'temp_gigabytes', 'output_directory', 'debugging']
_GCS_STRS = ['scheduler', 'mode', 'launcher', 'setup', 'shell_setup']


def _lean(n):
    from pydyn2lean import lean_name
    return lean_name(n)


def a_gcsOpts(T):
    f = find(T['cropping'], ['gen_cluster_script'])
    names, kwarg = _params(f)
    want = set(_GCS_VALS + _GCS_STRS + ['crop', 'batch_ids', 'mpi'])
    if set(names) != want or kwarg != 'kwargs':
        raise NotFound('parameters of gen_cluster_script changed: ' + ', '.join(sorted(set(names) ^ want)))
    env = {n: val(_lean(n)) for n in _GCS_VALS}
    env.update({n: st(_lean(n)) for n in _GCS_STRS})
    env.update({
        'mpi': ('mpi', 'bool'), 'kwargs': ('kwargs', 'kw'),
        "expanduser('~')": st('home'), "os.path.expanduser('~')": st('home'),
        "os.environ.get('CONDA_DEFAULT_ENV', False)": val('condaDefault'),
        'crop.name': st('cropName'),
        'str(pathlib.Path(crop.parent_dir).expanduser().resolve())': st('fullParentDir'),
        'header_options': st('([] : List Char)'),          # unbound when the scheduler is none of the three (raised earlier)
    })
    spec = DSpec('cropping', ['gen_cluster_script'], env, ['opts'], skip=_noop, stop_after=_is_opts_dict)
    return translate_dyn(spec, T, find)


def a_gcsTail(T):
    env = {
        'opts': ('opts', 'kw'), 'scheduler': st('scheduler'), 'mode': st('mode'), 'batch_ids': ('explicit', 'oids'),
        'crop.num_results': ('numResults', 'int'), 'crop._num_results': ('numResults', 'int'),
        'crop.num_batches': ('numBatches', 'int'),
        'crop.missing_results()': val('(Scr.PyVal.tuple missing)'),
        'script': st('([] : List Char)'), 'array_mode': st('([] : List Char)'),     # unbound on the paths excluded by the validation
    }
    spec = DSpec('cropping', ['gen_cluster_script'], env, ['script', 'opts'], consts=dict(PY2LEAN), skip=_noop,
                 start=_is_opts_dict, stop=_is_format)
    return translate_dyn(spec, T, find)


# ---------------------------------------------------------------- wrappers: gen_qsub_script, Crop.gen_<sched>_script
def a_gcsWrappers(T):
    """[(entry point, scheduler it fixes or '' when it hands on its own `scheduler` argument, hands on batch_ids?, hands on **kwargs?)]"""
    tree = T['cropping']
    rows = []
    f = find(tree, ['gen_qsub_script'])
    rets = [n for n in ast.walk(f) if isinstance(n, ast.Return)]
    c = one(rets, 'return of gen_qsub_script').value
    if not (isinstance(c, ast.Call) and ast.unparse(c.func) == 'gen_cluster_script'): raise NotFound('gen_qsub_script does not return gen_cluster_script(...)')
    pos = [ast.unparse(a) for a in c.args]
    kws = {k.arg: ast.unparse(k.value) for k in c.keywords}
    sched_ok = (len(pos) >= 2 and pos[:2] == ['crop', 'scheduler']) or (pos[:1] == ['crop'] and kws.get('scheduler') == 'scheduler')
    if not sched_ok: raise Untranslatable('gen_qsub_script: scheduler argument')
    ids = (len(pos) >= 3 and pos[2] == 'batch_ids') or kws.get('batch_ids') == 'batch_ids'
    rows.append(('gen_qsub_script', '', ids, None in kws and kws[None] == 'kwargs'))
    # Crop.gen_<s>_script = functools.partialmethod(Crop.gen_cluster_script, scheduler="<s>")
    bound = {}
    for s in tree.body:
        if isinstance(s, ast.Assign) and len(s.targets) == 1:
            bound[ast.unparse(s.targets[0])] = s.value
    if ast.unparse(bound.get('Crop.gen_cluster_script', ast.Constant(0))) != 'gen_cluster_script': raise NotFound('Crop.gen_cluster_script')
    if ast.unparse(bound.get('Crop.gen_qsub_script', ast.Constant(0))) != 'gen_qsub_script': raise NotFound('Crop.gen_qsub_script')
    for sch in ('sge', 'pbs', 'slurm'):
        v = bound.get(f'Crop.gen_{sch}_script')
        if not (isinstance(v, ast.Call) and ast.unparse(v.func) == 'functools.partialmethod' and len(v.args) == 1
                and ast.unparse(v.args[0]) == 'Crop.gen_cluster_script' and len(v.keywords) == 1 and v.keywords[0].arg == 'scheduler'
                and isinstance(v.keywords[0].value, ast.Constant) and isinstance(v.keywords[0].value.value, str)):
            raise Untranslatable(f'Crop.gen_{sch}_script shape')
        rows.append((f'gen_{sch}_script', v.keywords[0].value.value, True, True))
    from pydyn2lean import chars
    b = lambda x: 'true' if x else 'false'
    return '[' + ', '.join(f'({chars(n)}, {chars(s)}, {b(i)}, {b(k)})' for n, s, i, k in rows) + ']'


# ---------------------------------------------------------------- xyzpy-grow
from pysk2lean import SkSpec, SkTr
from anchors_fn import _skip_prints


def _cli_call(s, name):
    v = s.value if isinstance(s, (ast.Expr, ast.Assign)) else None
    if isinstance(v, ast.Call) and ast.unparse(v.func) == name: return v
    return None


def _flag(b): return 'true' if b else 'false'


def _h_mk_crop(s, tr, env):
    c = _cli_call(s, 'xyzpy.Crop')
    kws = {k.arg: ast.unparse(k.value) for k in c.keywords}
    pos = [ast.unparse(a) for a in c.args]
    if pos or set(kws) - {'name', 'parent_dir'}:
        raise Untranslatable('Crop(...) arguments: ' + ast.unparse(c)[:80])
    tg = [ast.unparse(t) for t in s.targets] if isinstance(s, ast.Assign) else []
    if tg != ['crop']: raise Untranslatable('the crop is not bound to `crop`')
    return [('eff', f'(.mkCrop {_flag(kws.get("name") == "args.crop_name")} {_flag(kws.get("parent_dir") == "args.parent_dir")})', None),
            ('let', 'crop', '()', 'tok')]


def _h_grow_missing(s, tr, env):
    c = _cli_call(s, 'crop.grow_missing')
    if c.args: raise Untranslatable('positional arguments to grow_missing')
    given = {}
    for k in c.keywords:
        if k.arg is not None:
            given[k.arg] = ast.unparse(k.value)
        else:
            d = tr.resolve(k.value)
            if not isinstance(d, ast.Dict) or any(not (isinstance(x, ast.Constant) and isinstance(x.value, str)) for x in d.keys):
                raise Untranslatable('grow_missing(**' + ast.unparse(k.value)[:40] + ')')
            for kk, vv in zip(d.keys, d.values): given[kk.value] = ast.unparse(vv)
    return [('eff', f'(.growMissing {_flag(given.get("num_workers") == "args.num_workers")} {_flag(given.get("verbosity") == "args.verbosity")})', None)]


def _is_setup(s):
    """argument parser construction, thread-count environment variables, sys.path, import: no effect on which batches grow"""
    if isinstance(s, ast.Assign) and len(s.targets) == 1:
        t = s.targets[0]
        if isinstance(t, ast.Subscript) and ast.unparse(t.value) == 'os.environ': return True
        if ast.unparse(t) == 'parser' and isinstance(s.value, ast.Call) and ast.unparse(s.value.func) == 'argparse.ArgumentParser': return True
    if isinstance(s, ast.Expr) and isinstance(s.value, ast.Call) and ast.unparse(s.value.func) in ('parser.add_argument', 'sys.path.append', 'sys.path.insert'):
        return True
    return False


def _is_executor(s):
    return isinstance(s, ast.Assign) and len(s.targets) == 1 and ast.unparse(s.targets[0]) == "grow_kwargs['executor']"


class CliTr(SkTr):
    """`if not crop.is_prepared(): raise …` — the query is an effect recorded before the test is decided"""

    def block(self, stmts, env, ind):
        if stmts:
            s = stmts[0]
            if isinstance(s, ast.Raise):
                exc = s.exc.func if isinstance(s.exc, ast.Call) else s.exc
                name = ast.unparse(exc) if exc is not None else ''
                if name.startswith('xyzpy.utils.'):
                    # the library's own error class — if xyzpy/utils.py defines that name; otherwise evaluating the
                    # expression is itself an AttributeError (`.other`)
                    cls = name.split('.')[-1]
                    defined = any((isinstance(n, ast.ClassDef) and n.name == cls) or
                                  (isinstance(n, ast.Assign) and any(ast.unparse(t) == cls for t in n.targets))
                                  for n in self.trees['utils'].body)
                    return ind + self.err(env, '.xyzError' if defined and cls in ('XYZError', 'XYZPYError') else '.other')
            if isinstance(s, ast.If) and not getattr(s, '_cli_seen', False):
                qs = [n for n in ast.walk(s.test) if isinstance(n, ast.Call) and ast.unparse(n.func) == 'crop.is_prepared']
                if qs:
                    if len(qs) != 1 or 'crop' not in env: raise Untranslatable('is_prepared query')
                    s._cli_seen = True
                    try:
                        return self.steps([('eff', '.isPrepared', None)], lambda e, i: self.block(stmts, e, i), env, ind)
                    finally:
                        s._cli_seen = False
            if any(isinstance(n, ast.Call) and ast.unparse(n.func) in ('crop.is_prepared', 'crop.grow_missing', 'crop.grow', 'xyzpy.Crop')
                   for n in ast.walk(s)) and not isinstance(s, ast.If) and not any(p(s) for p, _ in self.spec.handlers):
                raise Untranslatable('a crop call in an unexpected place: ' + ast.unparse(s)[:80])
        return super().block(stmts, env, ind)


def a_cliSk(T):
    env = {'args.ray': ('ray', 'bool'), 'args.gpus_per_task is None': ('gpusNone', 'bool'),
           'crop.is_prepared()': ('prepared', 'bool')}
    handlers = [
        (_is_setup, lambda s, tr, env: []),
        (lambda s: _cli_call(s, 'parser.parse_args') is not None,
         lambda s, tr, env: [('eff', '.parseArgs', None), ('let', 'args', '()', 'tok')]),
        (_is_executor, lambda s, tr, env: [('eff', '.mkExecutor', None)]),
        (lambda s: _cli_call(s, 'xyzpy.Crop') is not None, _h_mk_crop),
        (lambda s: _cli_call(s, 'crop.grow_missing') is not None, _h_grow_missing),
    ]
    spec = SkSpec('growcli', ['main'], env, handlers=handlers, skip=_skip_prints)
    f = find(T['growcli'], ['main'])
    if any(isinstance(n, (ast.For, ast.While, ast.Try, ast.With)) for n in ast.walk(f)):
        raise Untranslatable('loop / try / with in main')
    tr = CliTr(spec, T, find)
    return '\n' + tr.block(list(f.body), dict(spec.env), '  ')


_VALS = ' '.join(_lean(n) for n in _GCS_VALS)
ANCHORS = [
    ('gcsOpts',
     f'(scheduler mode launcher setup shellSetup : List Char) ({_VALS} : Scr.PyVal) (mpi : Bool) '
     '(kwargs : List (List Char × Scr.PyVal)) (home : List Char) (condaDefault : Scr.PyVal) (cropName fullParentDir : List Char) : '
     'Except PyErr (List (List Char × Scr.PyVal))', a_gcsOpts),
    ('gcsTail',
     '(scheduler mode : List Char) (explicit : Option (List Nat)) (numResults numBatches : Int) (missing : List Nat) '
     '(opts : List (List Char × Scr.PyVal)) : Except PyErr (List Char × List (List Char × Scr.PyVal))', a_gcsTail),
    ('gcsWrappers', ': List (List Char × List Char × Bool × Bool)', a_gcsWrappers),
    ('cliSk', '(fails : CliEff → Bool) (ray gpusNone prepared : Bool) (trace : List CliEff) : List CliEff × Option PyErr', a_cliSk),
]
