"""Growing and progress (C08; C04/C10/C11 benefit): translated from the source on every run.

1. `grow(batch_number, crop, fn, num_workers, ...)` (module level) → EFFECT SKELETON `Gen.growSk`: the order of its effects
   (read the function file, read the batch file, [get the executor, submit every case], evaluate / collect every case in
   order stopping at the first that raises, write the result file) for every way they can fail.  Loops over the batch
   become `Gen.skLoop` ("attempt `item k` for k = 0..n-1 in order, stop at the first that fails"); a lazy generator
   expression costs nothing where it is built and everything where it is consumed; a list comprehension is consumed
   where it stands.  A loop body with effects of its own becomes `Gen.skLoopB` (item, then the body's skeleton).
2. `Crop.is_prepared / calc_progress / is_ready_to_reap / missing_results / num_sown_batches / num_results` → FUNCTIONS
   over abstract directory queries (does the info file exist; how many names match the batch / result glob; is result
   file x a file; what the info file says about the batch settings), `Crop.grow` / `grow_missing` → which ids are handed
   to the module-level `grow`, in which order.
3. `Crop.check_bad` → effect skeleton per listed result file (read the batch, try to read the result, remove if bad).

Same fallback rule as everywhere: what cannot be located or is outside the sub-language raises NotFound /
Untranslatable and the anchor is emitted as `Gen.Default.<name>`.
"""
import ast, copy
from extract import find, one, NotFound
from pyexpr2lean import Untranslatable
from pyfn2lean import Spec, FnTr, Tr2, is_none
from pysk2lean import SkSpec, SkTr

FILES = {'cropping': 'xyzpy/gen/cropping.py'}


def num(n): return (n, 'num')
def boo(n): return (n, 'bool')
def onum(n): return (n, 'onum')


def _u(e): return ast.unparse(e)


def _calls(e): return [n for n in ast.walk(e) if isinstance(n, ast.Call)]


# ------------------------------------------------------------------------------------------------ file names
def classify_path(e, tr, idx_ok):
    """which crop file a path expression names: ('fn'|'info'|'batch'|'result', index expression or None) or None.
    `idx_ok(node)` says whether the index inside `BTCH_NM.format(i)` / `RSLT_NM.format(i)` is the expected one."""
    e = tr.resolve(e) if tr is not None else e
    if not (isinstance(e, ast.Call) and _u(e.func) == 'os.path.join' and not e.keywords):
        return None
    parts = list(e.args)
    if not parts or _u(parts[0]) not in ('crop_location', 'crop.location', 'self.location', 'self.crop.location'):
        return None
    tail = parts[1:]
    if len(tail) == 1 and _u(tail[0]) == 'FNCT_NM': return ('fn', None)
    if len(tail) == 1 and _u(tail[0]) == 'INFO_NM': return ('info', None)
    if len(tail) == 2 and isinstance(tail[0], ast.Constant) and isinstance(tail[1], ast.Call) and len(tail[1].args) == 1 \
            and not tail[1].keywords:
        d, f = tail[0].value, _u(tail[1].func)
        if (d, f) == ('batches', 'BTCH_NM.format') and idx_ok(tail[1].args[0]): return ('batch', tail[1].args[0])
        if (d, f) == ('results', 'RSLT_NM.format') and idx_ok(tail[1].args[0]): return ('result', tail[1].args[0])
    return None


# ------------------------------------------------------------------------------------------------ 1. grow skeleton
_INERT_CALLS = ('print', 'warnings.warn', 'logger.setLevel', 'logger.debug', 'logger.info')


def _inert(s):
    """statements without effects that matter here: progress output, logging set-up, the progress-bar wrapper"""
    if isinstance(s, (ast.Pass, ast.Import, ast.ImportFrom)): return True
    if isinstance(s, ast.Expr) and isinstance(s.value, ast.Constant): return True
    if isinstance(s, ast.Expr) and isinstance(s.value, ast.Call):
        f = _u(s.value.func)
        return f in _INERT_CALLS or f.endswith('.set_description')
    if isinstance(s, ast.Assign) and len(s.targets) == 1 and isinstance(s.targets[0], ast.Name) and isinstance(s.value, ast.Call):
        f, t = _u(s.value.func), s.targets[0].id
        if f == 'logging.getLogger': return True
        # X = progbar(X, ...): the wrapper hands the items on unchanged, in order, as lazily as it gets them
        if f == 'progbar' and s.value.args and _u(s.value.args[0]) == t: return True
    if isinstance(s, ast.If) and not _calls(s.test):
        return all(_inert(b) for b in list(s.body) + list(s.orelse))
    return False


_PATH_FNS = {'os.path.join', 'os.path.relpath', 'os.getcwd', 'os.path.abspath', 'BTCH_NM.format', 'RSLT_NM.format'}


def _is_path_assign(s):
    return isinstance(s, ast.Assign) and len(s.targets) == 1 and isinstance(s.targets[0], ast.Name) \
        and isinstance(s.value, ast.Call) and all(_u(c.func) in _PATH_FNS for c in _calls(s.value))


def _read_call(s):
    """the read_from_disk call of `X = read_from_disk(p)` / `X = from_pickle(read_from_disk(p))`"""
    if not (isinstance(s, ast.Assign) and len(s.targets) == 1 and isinstance(s.targets[0], ast.Name)): return None
    v = s.value
    if isinstance(v, ast.Call) and _u(v.func) == 'from_pickle' and len(v.args) == 1 and not v.keywords: v = v.args[0]
    if isinstance(v, ast.Call) and _u(v.func) == 'read_from_disk' and len(v.args) == 1 and not v.keywords: return v
    return None


def _is_batch_number(e): return _u(e) == 'batch_number'


def _read_steps(s, tr, env):
    c = _read_call(s)
    tgt = s.targets[0].id
    k = classify_path(c.args[0], tr, _is_batch_number)
    if k is None:
        return [('eff', '.readOther', None), ('setenv', tgt, ('()', 'tok'))]
    if k[0] == 'fn':
        return [('eff', '.readFn', None), ('setenv', tgt, ('()', 'tok'))]
    if k[0] == 'batch':
        return [('eff', '.readBatch', None), ('setenv', tgt, ('()', 'tok')),
                ('setenv', f'len({tgt})', ('(n : Int)', 'num')), ('setenv', '$batch', (tgt, 'meta'))]
    return [('eff', '.readOther', None), ('setenv', tgt, ('()', 'tok'))]


def _is_fn_guard(s):
    """`if fn is None: fn = from_pickle(read_from_disk(fn_file))`"""
    return isinstance(s, ast.If) and not s.orelse and len(s.body) == 1 and _read_call(s.body[0]) is not None


def _fn_guard_steps(s, tr, env):
    c, ty = tr.expr(s.test)
    if ty != 'bool': raise Untranslatable('guard of a read')
    st = _read_steps(s.body[0], tr, env)
    name = st[0][1]
    return [('eff', name, c)]


def _is_write(s): return isinstance(s, ast.Expr) and isinstance(s.value, ast.Call) and _u(s.value.func) == 'write_to_disk'


def _write_steps(s, tr, env):
    c = s.value
    if len(c.args) != 2 or c.keywords: raise Untranslatable('write_to_disk arity')
    k = classify_path(c.args[1], tr, _is_batch_number)
    return [('eff', '.writeResult' if k is not None and k[0] == 'result' else '.writeOther', None)]


def _is_executor(s):
    return isinstance(s, ast.Assign) and len(s.targets) == 1 and isinstance(s.targets[0], ast.Name) \
        and isinstance(s.value, ast.Call) and _u(s.value.func) == 'get_reusable_executor'


def _comp_kind(v, env):
    """what one item of a comprehension over the batch / the futures does: 'eval' | 'submit' | 'collect'"""
    if len(v.generators) != 1: raise Untranslatable('nested comprehension')
    g = v.generators[0]
    if g.ifs or g.is_async or not isinstance(g.target, ast.Name) or not isinstance(g.iter, ast.Name):
        raise Untranslatable('comprehension shape')
    var, src, e = g.target.id, g.iter.id, v.elt
    if not isinstance(e, ast.Call): raise Untranslatable('comprehension element')
    star = [k for k in e.keywords if k.arg is None]
    over_batch = env.get('$batch', (None,))[0] == src
    if over_batch and _u(e.func) == 'fn' and not e.args and len(e.keywords) == 1 and len(star) == 1 and _u(star[0].value) == var:
        return 'eval'
    if over_batch and isinstance(e.func, ast.Attribute) and e.func.attr == 'submit' and env.get(_u(e.func.value), (0, 0))[1] == 'executor' \
            and [_u(a) for a in e.args] == ['fn'] and len(e.keywords) == 1 and len(star) == 1 and _u(star[0].value) == var:
        return 'submit'
    if env.get(src, (0, 0))[1] == 'futures' and _u(e) == f'{var}.result()':
        return 'collect'
    raise Untranslatable('comprehension: ' + _u(v)[:60])


def _is_comp(s):
    return isinstance(s, ast.Assign) and len(s.targets) == 1 and isinstance(s.targets[0], ast.Name) \
        and isinstance(s.value, (ast.GeneratorExp, ast.ListComp))


def _comp_steps(s, tr, env):
    k = _comp_kind(s.value, env)
    tgt = s.targets[0].id
    if isinstance(s.value, ast.GeneratorExp):
        return [('setenv', tgt, (k, 'lazy'))]                  # nothing happens until it is consumed
    return [('loop', k, None), ('setenv', tgt, ('()', 'futures' if k == 'submit' else 'values'))]


def _iter_name(e):
    if isinstance(e, ast.Call) and _u(e.func) == 'enumerate' and len(e.args) == 1 and not e.keywords: e = e.args[0]
    return e.id if isinstance(e, ast.Name) else None


def _is_for(s): return isinstance(s, ast.For)


def _for_steps(s, tr, env):
    if s.orelse or any(isinstance(n, (ast.Break, ast.Continue, ast.Return)) for b in s.body for n in ast.walk(b)):
        raise Untranslatable('loop with break / continue / return / else')
    src = _iter_name(s.iter)
    if src is None or src not in env: raise Untranslatable('loop over ' + _u(s.iter)[:40])
    what, ty = env[src]
    body = [b for b in s.body if not _inert(b) and not _is_collecting(b, s.target)]
    if ty == 'lazy':
        return [('loop', what, body or None)]
    if ty in ('values', 'futures') and not body:
        return []
    raise Untranslatable('loop over a ' + str(ty))


def _is_collecting(b, target):
    """`results.append(r)` with r the loop variable: keeps the value, no effect"""
    names = {n.id for n in ast.walk(target) if isinstance(n, ast.Name)}
    return isinstance(b, ast.Expr) and isinstance(b.value, ast.Call) and isinstance(b.value.func, ast.Attribute) \
        and b.value.func.attr == 'append' and len(b.value.args) == 1 and isinstance(b.value.args[0], ast.Name) \
        and b.value.args[0].id in names


def _is_drain(s):
    """`results = tuple(results_it)` / `list(...)`: consumes the iterator"""
    return isinstance(s, ast.Assign) and len(s.targets) == 1 and isinstance(s.targets[0], ast.Name) \
        and isinstance(s.value, ast.Call) and _u(s.value.func) in ('tuple', 'list') and len(s.value.args) == 1 \
        and isinstance(s.value.args[0], ast.Name)


def _drain_steps(s, tr, env):
    src = s.value.args[0].id
    what, ty = env.get(src, (None, None))
    tgt = s.targets[0].id
    if ty == 'lazy': return [('loop', what, None), ('setenv', tgt, ('()', 'values'))]
    if ty in ('values', 'futures'): return [('setenv', tgt, ('()', ty))]
    raise Untranslatable('tuple() of ' + str(ty))


def _is_empty_list(s):
    return isinstance(s, ast.Assign) and len(s.targets) == 1 and isinstance(s.targets[0], ast.Name) \
        and isinstance(s.value, ast.List) and not s.value.elts


_ITEM = {'eval': 'GEff.eval', 'submit': 'GEff.submit', 'collect': 'GEff.collect'}


class GrowTr(SkTr):
    """SkTr + environment-only steps, loops over the batch"""

    def steps(self, steps, rest_fn, env, ind):
        if steps and steps[0][0] == 'setenv':
            _, key, val = steps[0]
            e2 = dict(env); e2[key] = val
            return self.steps(steps[1:], rest_fn, e2, ind)
        if steps and steps[0][0] == 'bindast':
            _, key, node = steps[0]
            e2 = dict(env); e2[key] = (node, 'ast')
            return self.steps(steps[1:], rest_fn, e2, ind)
        if steps and steps[0][0] == 'loop':
            _, kind, body = steps[0]
            tr = env['$trace'][0]
            rest = self.steps(steps[1:], rest_fn, env, ind + '  ')
            if body is None:
                return f'{ind}(skBindG (skLoop fails {_ITEM[kind]} n {tr}) fun {tr} =>\n{rest})'
            b = self.block_then(list(body), lambda e, i: i + self.ok(e), env, ind + '    ')
            return (f'{ind}(skBindG (skLoopB fails {_ITEM[kind]} (fun _ {tr} =>\n{b}) n 0 {tr}) fun {tr} =>\n{rest})')
        return super().steps(steps, rest_fn, env, ind)


_GROW_HANDLERS = [
    (_is_fn_guard, _fn_guard_steps),
    (lambda s: _read_call(s) is not None, _read_steps),
    (_is_write, _write_steps),
    (_is_executor, lambda s, tr, env: [('eff', '.executor', None), ('setenv', s.targets[0].id, ('()', 'executor'))]),
    (_is_comp, _comp_steps),
    (_is_for, _for_steps),
    (_is_drain, _drain_steps),
    (_is_empty_list, lambda s, tr, env: [('setenv', s.targets[0].id, ('()', 'values'))]),
    (_is_path_assign, lambda s, tr, env: [('bindast', s.targets[0].id, s.value)]),
]

_GROW_ENV = {
    'crop is None': boo('cropIsNone'),
    "current_folder[:5] != '.xyz-'": boo('cwdNotCrop'),
    'fn is None': boo('fnIsNone'),
    'num_workers': onum('numWorkers'),
    'check_mpi': boo('checkMpi'),
    "'OMPI_COMM_WORLD_RANK' in os.environ": boo('ompiSet'),
    "int(os.environ['OMPI_COMM_WORLD_RANK'])": num('ompiRank'),
    "'PMI_RANK' in os.environ": boo('pmiSet'),
    "int(os.environ['PMI_RANK'])": num('pmiRank'),
}


def a_growSk(T):
    spec = SkSpec('cropping', ['grow'], _GROW_ENV, handlers=_GROW_HANDLERS, skip=_inert)
    f = one([n for n in T['cropping'].body if isinstance(n, ast.FunctionDef) and n.name == 'grow'], 'module-level grow')
    tr = GrowTr(spec, T, find)
    return '\n' + tr.block(list(f.body), dict(spec.env), '  ')



# ------------------------------------------------------------------------------------------------ 2. progress queries
def _is_star(e): return isinstance(e, ast.Constant) and e.value == '*'


class ProgTr(Tr2):
    """expressions over abstract directory queries"""

    def __init__(self, env, num, trees, find_):
        super().__init__(env, num)
        self.trees, self.find = trees, find_

    def sub(self, env):
        return ProgTr(env, self.num, self.trees, self.find)

    def expr(self, e):
        hit = self.lookup(e)
        if hit is not None and hit[1] not in ('ast', 'fundef'):
            return hit
        if isinstance(e, ast.Call) and not e.keywords:
            f = _u(e.func)
            if f == 'os.path.exists' and len(e.args) == 1:
                k = classify_path(e.args[0], self, lambda n: False)
                return ('infoExists' if k is not None and k[0] == 'info' else 'otherExists'), 'bool'
            if f == 'len' and len(e.args) == 1 and isinstance(e.args[0], ast.Call) and _u(e.args[0].func) == 'glob.glob' \
                    and len(e.args[0].args) == 1 and not e.args[0].keywords:
                k = classify_path(e.args[0].args[0], self, _is_star)
                return {'batch': 'nBatchFiles', 'result': 'nResultFiles'}.get(k[0] if k else None, 'nOtherFiles'), 'num'
            if f == 'os.path.isfile' and len(e.args) == 1:
                k = classify_path(e.args[0], self, lambda n: True)
                if k is None or k[0] not in ('batch', 'result'): raise Untranslatable('isfile of ' + _u(e.args[0])[:60])
                t, ty = self.expr(k[1])
                if ty != 'num': raise Untranslatable('file index of type ' + str(ty))
                return f'({"isBatchFile" if k[0] == "batch" else "isResultFile"} {t})', 'bool'
            if f == 'self.is_prepared' and not e.args:
                m = self.find(self.trees['cropping'], ['Crop', 'is_prepared'])
                body = [b for b in m.body if not (isinstance(b, ast.Expr) and isinstance(b.value, ast.Constant))]
                if len(body) != 1 or not isinstance(body[0], ast.Return) or body[0].value is None:
                    raise Untranslatable('is_prepared is not a single return')
                return self.expr(body[0].value)
            if f == 'range' and len(e.args) in (1, 2):
                parts = [self.expr(a) for a in e.args]
                if any(ty != 'num' for _, ty in parts): raise Untranslatable('range of non-numbers')
                lo, hi = ('(0 : Int)', parts[0][0]) if len(parts) == 1 else (parts[0][0], parts[1][0])
                return f'(rangeInt {lo} {hi})', 'ilist'
            if f in ('tuple', 'list') and len(e.args) == 1:
                t, ty = self.expr(e.args[0])
                if ty == 'ilist': return t, ty
                raise Untranslatable(f + ' of ' + str(ty))
            if f == 'filter' and len(e.args) == 2:
                fn = e.args[0]
                if isinstance(fn, ast.Name) and self.env.get(fn.id, (0, 0))[1] == 'fundef':
                    d = self.env[fn.id][0]
                    body = [b for b in d.body if not (isinstance(b, ast.Expr) and isinstance(b.value, ast.Constant))]
                    if len(body) != 1 or not isinstance(body[0], ast.Return) or body[0].value is None or len(d.args.args) != 1 \
                            or d.args.defaults or d.args.vararg or d.args.kwarg or d.args.kwonlyargs:
                        raise Untranslatable('filter predicate shape')
                    var, pe = d.args.args[0].arg, body[0].value
                elif isinstance(fn, ast.Lambda) and len(fn.args.args) == 1:
                    var, pe = fn.args.args[0].arg, fn.body
                else:
                    raise Untranslatable('filter predicate')
                lst, lty = self.expr(e.args[1])
                if lty != 'ilist': raise Untranslatable('filter over ' + str(lty))
                env2 = dict(self.env); env2[var] = (var, 'num')
                return f'({lst}.filter (fun {var} => {self.sub(env2).truthy(pe)}))', 'ilist'
        return super().expr(e)


class ProgFn(FnTr):
    def tr(self, env):
        return ProgTr(env, self.spec.num, self.trees, self.find)

    def ok(self, env, ret=None):
        # a result field that was unwrapped for the returned expression is handed back as the optional it is
        env2 = dict(env)
        for k in self.spec.result:
            want = self.spec.env[k][1]
            if env[k][1] != want:
                if (want, env[k][1]) == ('onum', 'num'): env2[k] = (f'(some {env[k][0]} : Option Int)', 'onum')
                else: raise Untranslatable('result field changed type: ' + k)
        return super().ok(env2, ret)

    def _hoist(self, s):
        """a property read inside statement `s`: (statements the property runs first, `s` with the read replaced by what the
        property returns); properties of the crop run `calc_progress` and hand back a private field"""
        exprs = [s.test] if isinstance(s, ast.If) else [s]
        for root in exprs:
            for n in ast.walk(root):
                if isinstance(n, ast.Attribute) and _u(n) in self.spec.props and isinstance(n.ctx, ast.Load):
                    key = _u(n)
                    m = self.find(self.trees['cropping'], self.spec.props[key])
                    body = [b for b in m.body if not (isinstance(b, ast.Expr) and isinstance(b.value, ast.Constant))]
                    if not body or not isinstance(body[-1], ast.Return) or body[-1].value is None or \
                            any(isinstance(x, ast.Return) for b in body[:-1] for x in ast.walk(b)):
                        raise Untranslatable('property shape: ' + key)
                    ret = body[-1].value

                    class R(ast.NodeTransformer):
                        def visit_Attribute(self, node):
                            return copy.deepcopy(ret) if _u(node) == key else self.generic_visit(node)
                    s2 = copy.deepcopy(s)
                    if isinstance(s2, ast.If): s2.test = R().visit(s2.test)
                    else: s2 = R().visit(s2)
                    return [copy.deepcopy(b) for b in body[:-1]], ast.fix_missing_locations(s2)
        return None

    def block(self, stmts, env, ind):
        if stmts:
            s, rest = stmts[0], stmts[1:]
            if isinstance(s, ast.FunctionDef):
                e2 = dict(env); e2[s.name] = (s, 'fundef')
                return self.block(rest, e2, ind)
            if isinstance(s, (ast.Return, ast.Assign, ast.AugAssign, ast.If)) or (isinstance(s, ast.Expr) and isinstance(s.value, ast.Call)):
                h = self._hoist(s)
                if h is not None:
                    return self.block(h[0] + [h[1]] + rest, env, ind)
        return super().block(stmts, env, ind)


def _sync_info(call, tr, env):
    """`self._sync_info_from_disk()`: the batch settings become what the info file says"""
    if call.args or call.keywords: raise Untranslatable('_sync_info_from_disk with arguments')
    return [('self.batchsize', 'infoBs', 'onum'), ('self.num_batches', 'infoNb', 'onum'), ('self._batch_remainder', 'infoRem', 'onum')]


_PROG_ENV = {'self.batchsize': onum('batchsize'), 'self.num_batches': onum('numBatches'), 'self._batch_remainder': onum('remainder'),
             'self._num_sown_batches': num('numSown'), 'self._num_results': num('numResults')}
_PROG_STATE = ['self.batchsize', 'self.num_batches', 'self._batch_remainder', 'self._num_sown_batches', 'self._num_results']
_PROG_PROPS = {'self.num_sown_batches': ['Crop', 'num_sown_batches'], 'self.num_results': ['Crop', 'num_results']}


def _prog(meth, returns, result=_PROG_STATE):
    def a(T):
        spec = Spec('cropping', ['Crop', meth], _PROG_ENV, result=result, returns=returns,
                    inline={'self.calc_progress': ('cropping', ['Crop', 'calc_progress'])},
                    effects={'self._sync_info_from_disk': _sync_info})
        spec.props = _PROG_PROPS
        cls = find(T['cropping'], ['Crop'])
        fs = [n for n in cls.body if isinstance(n, ast.FunctionDef) and n.name == meth]
        f = one(fs, 'Crop.' + meth)
        tr = ProgFn(spec, T, find)
        return '\n' + tr.block(list(f.body), dict(spec.env), '  ')
    return a


def _body(f):
    return [b for b in f.body if not (isinstance(b, ast.Expr) and isinstance(b.value, ast.Constant))]


def a_cropGrowIds(T):
    """`Crop.grow(batch_ids)`: which batch numbers are handed to the module-level `grow`, with this crop, in which order"""
    f = find(T['cropping'], ['Crop', 'grow'])
    body = _body(f)
    wrap = False
    if len(body) == 2 and isinstance(body[0], ast.If):
        i = body[0]
        if _u(i.test) == 'isinstance(batch_ids, int)' and not i.orelse and len(i.body) == 1 and _u(i.body[0]) == 'batch_ids = (batch_ids,)':
            wrap = True; body = body[1:]
    if len(body) != 1 or not (isinstance(body[0], ast.Expr) and isinstance(body[0].value, ast.Call)):
        raise Untranslatable('Crop.grow shape')
    c = body[0].value
    if _u(c.func) != 'combo_runner_core' or [_u(x) for x in c.args] != ['grow']:
        raise Untranslatable('Crop.grow does not drive the module-level grow through combo_runner_core')
    kw = {k.arg: k.value for k in c.keywords if k.arg}
    if _u(kw.get('combos', ast.Constant(None))) != "(('batch_number', batch_ids),)":
        raise Untranslatable('combos of Crop.grow')
    cs = kw.get('constants')
    if not isinstance(cs, ast.Dict) or "'crop': self" not in [f'{_u(k)}: {_u(v)}' for k, v in zip(cs.keys, cs.values)]:
        raise Untranslatable('constants of Crop.grow')
    return '(if idsIsInt then [single] else many)' if wrap else 'many'


def a_growMissingIds(T):
    """`Crop.grow_missing()`: the ids handed to `Crop.grow`"""
    f = find(T['cropping'], ['Crop', 'grow_missing'])
    body = _body(f)
    if len(body) != 1 or not (isinstance(body[0], ast.Expr) and isinstance(body[0].value, ast.Call)): raise Untranslatable('grow_missing shape')
    c = body[0].value
    if _u(c.func) != 'self.grow': raise Untranslatable('grow_missing does not call self.grow')
    ids = c.args[0] if c.args else {k.arg: k.value for k in c.keywords}.get('batch_ids')
    if ids is None or len(c.args) > 1: raise Untranslatable('ids of grow_missing')
    if _u(ids) == 'self.missing_results()': return 'missing'
    raise Untranslatable('grow_missing grows ' + _u(ids)[:60])


_Q = ('(infoExists otherExists : Bool) (infoBs infoNb infoRem : Option Int) (nBatchFiles nResultFiles nOtherFiles : Int) '
      '(isResultFile isBatchFile : Int → Bool) (batchsize numBatches remainder : Option Int) (numSown numResults : Int)')
_ST = 'Option Int × Option Int × Option Int × Int × Int'

_GSK = ('(fails : GEff → Bool) (cropIsNone cwdNotCrop fnIsNone : Bool) (n : Nat) (numWorkers : Option Int) '
        '(checkMpi ompiSet : Bool) (ompiRank : Int) (pmiSet : Bool) (pmiRank : Int) (trace : List GEff) : List GEff × Option PyErr')

ANCHORS = [
    ('growSk', _GSK, a_growSk),
    ('cropIsPrepared', _Q + ' : Except PyErr Bool', _prog('is_prepared', 'bool', result=[])),
    ('cropCalcProgress', _Q + f' : Except PyErr ({_ST})', _prog('calc_progress', None)),
    ('cropIsReadyToReap', _Q + f' : Except PyErr (Bool × {_ST})', _prog('is_ready_to_reap', 'bool')),
    ('cropMissingResults', _Q + f' : Except PyErr (List Int × {_ST})', _prog('missing_results', 'ilist')),
    ('cropNumSownBatches', _Q + f' : Except PyErr (Int × {_ST})', _prog('num_sown_batches', 'num')),
    ('cropNumResults', _Q + f' : Except PyErr (Int × {_ST})', _prog('num_results', 'num')),
    ('cropGrowIds', '(idsIsInt : Bool) (single : Int) (many : List Int) : List Int', a_cropGrowIds),
    ('growMissingIds', '(missing : List Int) : List Int', a_growMissingIds),
]
