"""Helpers shared by the data-family property modules (C05, C13, C14): canonical Dataset forms, file listings,
the documented file-name rule restated for the oracles, exception enum."""
import os, math, struct

EXT = {'h5netcdf': '.h5', 'netcdf4': '.nc', 'joblib': '.dmp', 'zarr': '.zarr'}     # the documented table (oracle side)

ERR = {'MergeError': 'conflict', 'KeyError': 'key', 'ValueError': 'value', 'AttributeError': 'noData',
       'FileNotFoundError': 'io', 'OSError': 'io', 'UnpicklingError': 'io', 'EOFError': 'io'}


def err_enum(e):
    """library exception → the model's coarse error enum"""
    n = type(e).__name__
    if n in ERR: return ERR[n]
    if isinstance(e, OSError): return 'io'
    if isinstance(e, KeyError): return 'key'
    if isinstance(e, ValueError): return 'value'
    return n


def documented_path(name, engine):
    """the property's own statement of the file name rule: the given name, plus the engine's extension when the
    name carries none of the known extensions"""
    if any(x in name for x in EXT.values()):
        return name
    return name + EXT[engine]


def listing(root):
    out = []
    for d, _, files in os.walk(root):
        for f in files:
            out.append(os.path.relpath(os.path.join(d, f), root))
    return sorted(out)


def tok_of(v):
    """value → token: integral floats/ints are their integer, ±inf, None for NaN; anything else is returned as repr"""
    import numpy as np
    if isinstance(v, (bool, np.bool_)): return int(v)
    if isinstance(v, (int, np.integer)): return int(v)
    v = float(v)
    if math.isnan(v): return None
    if math.isinf(v): return 'inf' if v > 0 else '-inf'
    if v == int(v): return int(v)
    return repr(v)


def canon_tok_ds(ds, coord_rank=None, sort_dims=True):
    """canonical form of a Dataset whose values are tokens (see tok_of): dims sorted by name (or in ds.dims order),
    per variable the non-null cells in lexicographic order.  coord_rank: {dim: {label: int}} for non-integer labels;
    int→float promotion by outer joins disappears because values are read back as integers."""
    import numpy as np
    if ds is None: return None
    dims = sorted(ds.dims) if sort_dims else list(ds.dims)

    def labels(d):
        vals = ds[d].values.tolist() if d in ds.coords else list(range(ds.sizes[d]))
        if coord_rank and d in coord_rank:
            return [coord_rank[d].get(x, 'BAD:' + repr(x)) for x in vals]      # an unknown label stays visible
        return [int(x) for x in vals]
    lab = {d: labels(d) for d in dims}
    skey = lambda x: (0, x) if isinstance(x, int) else (1, str(x))
    coords = [[d, sorted(lab[d], key=skey) if sort_dims else lab[d]] for d in dims]
    vs = []
    for name in sorted(ds.data_vars):
        da = ds[name]
        vd = sorted(da.dims) if sort_dims else [d for d in dims if d in da.dims]
        arr = np.asarray(da.transpose(*vd).values)
        cells = []
        for idx in np.ndindex(arr.shape):
            t = tok_of(arr[idx])
            if t is not None:
                cells.append([lab[d][i] for d, i in zip(vd, idx)] + [t])
        cells.sort(key=lambda r: [skey(x) for x in r[:-1]])
        vs.append([name, vd, cells])
    return {'coords': coords, 'vars': vs, 'attrs': []}


def bits(v):
    """bit-exact, JSON-able rendering of a scalar (complex and NaN by bit pattern)"""
    import numpy as np
    if isinstance(v, (bool, np.bool_)): return ['b', bool(v)]
    if isinstance(v, (int, np.integer)): return ['i', int(v)]
    if isinstance(v, (float, np.floating)): return ['f', struct.pack('>d', float(v)).hex()]
    if isinstance(v, (complex, np.complexfloating)):
        return ['c', struct.pack('>d', float(v.real)).hex(), struct.pack('>d', float(v.imag)).hex()]
    if isinstance(v, (str, np.str_)): return ['s', str(v)]
    if isinstance(v, bytes): return ['s', v.decode()]
    if v is None: return ['n']
    return ['?', repr(v)]


def canon_full(ds):
    """full canonical form for round trips: dims (name, size), coords and variables with dtype kind and bit-exact
    values, attributes with their Python type"""
    import numpy as np

    def arr(a):
        a = np.asarray(a)
        kind = a.dtype.kind
        if kind in 'OSU': kind = 'U'          # any string storage
        return {'kind': kind, 'shape': list(a.shape), 'vals': [bits(x) for x in a.reshape(-1).tolist()]}
    return {
        'dims': sorted([str(k), int(v)] for k, v in ds.sizes.items()),
        'coords': {str(k): {'dims': list(v.dims), **arr(v.values)} for k, v in sorted(ds.coords.items())},
        'vars': {str(k): {'dims': list(v.dims), **arr(v.values)} for k, v in sorted(ds.data_vars.items())},
        'attrs': {str(k): bits(_plain(v)) for k, v in sorted(ds.attrs.items())},
    }


def _plain(v):
    import numpy as np
    if isinstance(v, np.generic): return v.item()
    if isinstance(v, np.ndarray) and v.shape == (): return v.item()
    return v
