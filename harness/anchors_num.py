"""Anchor plug-in for the numerical family (C19 running statistics, C20 number-with-error formatting).

All anchors live in xyzpy/utils.py.

* Welford / covariance update bodies are *symbolically executed*: the straight-line body of `update` is walked
  statement by statement, every right-hand side is translated with the environment built so far, and the final
  value of each attribute (as an expression in the OLD attributes and the new sample) becomes one definition.
  Statement order therefore matters exactly as it does in Python (`self.C += dx * (y - self.ymean)` sees the
  *updated* ymean and the *old* dx), and a reordering / wrong-variable edit changes the generated term.
  `count` is passed to the Rat-valued bodies as a rational (the model casts it).
* The stopping-rule guards of `estimate_from_repeats` and the three formulas of `format_number_with_error`
  (exponent rule, hide rule, digit count) are located by syntactic role.
"""
import ast
from pyexpr2lean import translate, Untranslatable


# The helpers below mirror extract.find/assigns/one/num/boo.  They are local copies (not imported) because
# extract.py imports this plug-in while it is itself being imported (and may also run as __main__).
class NotFound(ValueError):
    pass


def find(node, path):
    for name in path:
        for n in ast.walk(node):
            if isinstance(n, (ast.FunctionDef, ast.ClassDef)) and n.name == name and n is not node:
                node = n
                break
        else:
            raise NotFound('/'.join(path))
    return node


def assigns(func, target):
    out = []
    for n in ast.walk(func):
        if isinstance(n, ast.Assign) and any(ast.unparse(t) == target for t in n.targets):
            out.append(n.value)
        if isinstance(n, ast.AugAssign) and ast.unparse(n.target) == target:
            out.append(n)
    return out


def one(xs, what):
    xs = list(xs)
    if len(xs) != 1:
        raise NotFound(f'{what}: {len(xs)} candidates')
    return xs[0]


def num(x): return (x, 'num')
def boo(x): return (x, 'bool')


def R(x): return (x, 'num')


def _symexec(func, env, numty='Rat'):
    """symbolic execution of a straight-line body of (aug)assignments; returns the final environment"""
    env = dict(env)
    for st in func.body:
        if isinstance(st, ast.Expr) and isinstance(st.value, ast.Constant):
            continue                                    # docstring
        if isinstance(st, ast.AugAssign):
            tgt = ast.unparse(st.target)
            load = ast.parse(tgt, mode='eval').body
            term = translate(ast.BinOp(load, st.op, st.value), env, 'num', num=numty)
        elif isinstance(st, ast.Assign) and len(st.targets) == 1 and isinstance(st.targets[0], (ast.Name, ast.Attribute)):
            tgt = ast.unparse(st.targets[0])
            term = translate(st.value, env, 'num', num=numty)
        else:
            raise NotFound('update body is not a straight line of assignments: ' + ast.unparse(st)[:60])
        env[tgt] = (term, 'num')
    return env


# ----------------------------------------------------------------------------- RunningStatistics

_RS_ENV = {'self.count': R('count'), 'self.mean': R('mean'), 'self.M2': R('M2'), 'x': R('x')}


def _rs(T, numty='Rat'):
    f = find(T['utils'], ['RunningStatistics', 'update'])
    return _symexec(f, _RS_ENV, numty)


def a_welfordCount(T):
    f = find(T['utils'], ['RunningStatistics', 'update'])
    # only the statements that touch the counter are integer arithmetic
    env = {'self.count': R('count')}
    seen = False
    for st in f.body:
        if isinstance(st, (ast.AugAssign, ast.Assign)):
            tgt = ast.unparse(st.target if isinstance(st, ast.AugAssign) else st.targets[0])
            if tgt == 'self.count':
                if isinstance(st, ast.AugAssign):
                    term = translate(ast.BinOp(ast.parse(tgt, mode='eval').body, st.op, st.value), env, 'num')
                else:
                    term = translate(st.value, env, 'num')
                env['self.count'] = (term, 'num'); seen = True
    if not seen: raise NotFound('self.count is not updated')
    return env['self.count'][0]


def a_welfordMean(T): return _rs(T)['self.mean'][0]
def a_welfordM2(T): return _rs(T)['self.M2'][0]


def _prop_return(T, cls, name):
    """the (last) non-constant return expression of a property"""
    f = find(T['utils'], [cls, name])
    rets = [n.value for n in ast.walk(f) if isinstance(n, ast.Return) and n.value is not None
            and 'inf' not in ast.unparse(n.value)]
    return one(rets, f'{cls}.{name} return')


def a_statVar(T):
    return translate(_prop_return(T, 'RunningStatistics', 'var'), {'self.M2': R('M2'), 'self.count': R('count')}, 'num', num='Rat')


def a_convRhs(T):
    f = find(T['utils'], ['RunningStatistics', 'converged'])
    r = one([n.value for n in ast.walk(f) if isinstance(n, ast.Return)], 'converged return')
    if not (isinstance(r, ast.Compare) and len(r.ops) == 1 and isinstance(r.ops[0], ast.Lt)
            and ast.unparse(r.left) == 'self.err'):
        raise NotFound('converged is not of the form `self.err < rhs`')
    return translate(r.comparators[0], {'rtol': R('rtol'), 'atol': R('atol'), 'abs(self.mean)': R('(Rat.abs mean)')},
                     'num', num='Rat')


# ----------------------------------------------------------------------------- RunningCovariance

_RC_ENV = {'self.count': R('count'), 'self.xmean': R('xmean'), 'self.ymean': R('ymean'), 'self.C': R('C'),
           'x': R('x'), 'y': R('y')}


def _rc(T):
    f = find(T['utils'], ['RunningCovariance', 'update'])
    return _symexec(f, _RC_ENV)


def a_covCount(T):
    f = find(T['utils'], ['RunningCovariance', 'update'])
    sts = [st for st in f.body if isinstance(st, ast.AugAssign) and ast.unparse(st.target) == 'self.count']
    st = one(sts, 'self.count +=')
    return translate(ast.BinOp(ast.parse('self.count', mode='eval').body, st.op, st.value), {'self.count': R('count')}, 'num')


def a_covXmean(T): return _rc(T)['self.xmean'][0]
def a_covYmean(T): return _rc(T)['self.ymean'][0]
def a_covC(T): return _rc(T)['self.C'][0]


def a_covCovar(T):
    return translate(_prop_return(T, 'RunningCovariance', 'covar'), {'self.C': R('C'), 'self.count': R('count')}, 'num', num='Rat')


def a_covSample(T):
    return translate(_prop_return(T, 'RunningCovariance', 'sample_covar'), {'self.C': R('C'), 'self.count': R('count')}, 'num', num='Rat')


# ----------------------------------------------------------------------------- estimate_from_repeats

def _loop(T):
    f = find(T['utils'], ['estimate_from_repeats'])
    loops = [n for n in ast.walk(f) if isinstance(n, ast.For) and ast.unparse(n.target) == 'i']
    return one(loops, 'for i in repeats')


def _has_break(nodes):
    return any(isinstance(n, ast.Break) for b in nodes for n in ast.walk(b))


def _conv_if(T):
    lp = _loop(T)
    ifs = [n for n in lp.body if isinstance(n, ast.If) and 'converged' in ast.unparse(n) and _has_break(n.body)]
    return one(ifs, 'if <guard>: if rs.converged(...): break')


def a_repCheck(T):
    i = _conv_if(T)
    if 'converged' in ast.unparse(i.test):
        # `if i > min_samples and rs.converged(...)`: take the conjuncts that do not mention converged
        if not (isinstance(i.test, ast.BoolOp) and isinstance(i.test.op, ast.And)):
            raise NotFound('guard shape')
        rest = [v for v in i.test.values if 'converged' not in ast.unparse(v)]
        if not rest: raise NotFound('no sample-count guard')
        test = rest[0] if len(rest) == 1 else ast.BoolOp(ast.And(), rest)
    else:
        test = i.test
    return translate(test, {'i': num('i'), 'min_samples': num('minSamples')}, 'bool')


def _conv_call(T):
    i = _conv_if(T)
    calls = [n for n in ast.walk(i) if isinstance(n, ast.Call) and ast.unparse(n.func).endswith('.converged')]
    c = one(calls, 'rs.converged(...)')
    if len(c.args) != 2 or c.keywords: raise NotFound('converged args')
    return c


def a_repRtol(T):
    return translate(_conv_call(T).args[0], {'rtol': R('rtol'), 'tol_scale': R('tolScale')}, 'num', num='Rat')


def a_repAtol(T):
    return translate(_conv_call(T).args[1], {'rtol': R('rtol'), 'tol_scale': R('tolScale')}, 'num', num='Rat')


def a_repHitMax(T):
    lp = _loop(T)
    ifs = [n for n in lp.body if isinstance(n, ast.If) and 'max_samples' in ast.unparse(n.test)
           and len(n.body) == 1 and isinstance(n.body[0], ast.Break) and not n.orelse]
    return translate(one(ifs, 'if <max test>: break').test, {'i': num('i'), 'max_samples': num('maxSamples')}, 'bool')


# ----------------------------------------------------------------------------- format_number_with_error

def _fmt(T):
    return find(T['utils'], ['format_number_with_error'])


def a_fmtExp(T):
    v = one(assigns(_fmt(T), 'x_exponent'), 'x_exponent')
    env = {}
    for n in ast.walk(v):
        if isinstance(n, ast.Call) and ast.unparse(n.func) == 'int' and len(n.args) == 1:
            u = ast.unparse(n)
            if '{err:e}' in u and '{x:e}' not in u: env[u] = num('ee')
            elif '{x:e}' in u and '{err:e}' not in u: env[u] = num('xe')
    if sorted(t for t, _ in env.values()) != ['ee', 'xe']:
        raise NotFound('decimal exponents of x and err not both found')
    return translate(v, env, 'num')


def a_fmtHide(T):
    v = one(assigns(_fmt(T), 'hide_exponent'), 'hide_exponent')
    env = {'x_exponent': num('k'), 'err < abs(x / 10)': boo('errLt'), '+1': num('(1 : Int)')}
    return translate(v, env, 'bool')


def a_fmtDigits(T):
    f = _fmt(T)
    r = one([n.value for n in ast.walk(f) if isinstance(n, ast.Return)], 'return')
    if not isinstance(r, ast.JoinedStr): raise NotFound('return is not an f-string')
    fv = [p for p in r.values if isinstance(p, ast.FormattedValue) and ast.unparse(p.value) == 'x']
    p = one(fv, '{x:...}')
    spec = p.format_spec
    if not (isinstance(spec, ast.JoinedStr) and len(spec.values) == 3
            and isinstance(spec.values[0], ast.Constant) and spec.values[0].value == '.'
            and isinstance(spec.values[1], ast.FormattedValue)
            and isinstance(spec.values[2], ast.Constant) and spec.values[2].value == 'f'):
        raise NotFound('format spec is not .{digits}f')
    return translate(spec.values[1].value, {'exponent': num('exponent')}, 'num')


ANCHORS = [
    ('welfordCount', '(count : Int) : Int', a_welfordCount),
    ('welfordMean', '(count mean M2 x : Rat) : Rat', a_welfordMean),
    ('welfordM2', '(count mean M2 x : Rat) : Rat', a_welfordM2),
    ('statVar', '(M2 count : Rat) : Rat', a_statVar),
    ('convRhs', '(rtol mean atol : Rat) : Rat', a_convRhs),
    ('covCount', '(count : Int) : Int', a_covCount),
    ('covXmean', '(count xmean ymean C x y : Rat) : Rat', a_covXmean),
    ('covYmean', '(count xmean ymean C x y : Rat) : Rat', a_covYmean),
    ('covC', '(count xmean ymean C x y : Rat) : Rat', a_covC),
    ('covCovar', '(C count : Rat) : Rat', a_covCovar),
    ('covSample', '(C count : Rat) : Rat', a_covSample),
    ('repCheck', '(i minSamples : Int) : Bool', a_repCheck),
    ('repRtol', '(rtol tolScale : Rat) : Rat', a_repRtol),
    ('repAtol', '(rtol tolScale : Rat) : Rat', a_repAtol),
    ('repHitMax', '(i maxSamples : Int) : Bool', a_repHitMax),
    ('fmtExp', '(xe ee : Int) : Int', a_fmtExp),
    ('fmtHide', '(k : Int) (errLt : Bool) : Bool', a_fmtHide),
    ('fmtDigits', '(exponent : Int) : Int', a_fmtDigits),
]
