"""C07 — batches partition the work exactly and honour the requested size or count."""
import os, pickle, glob, re, itertools, json
import common
from common import quiet

PROP = 'C07'
LEAN_MODULES = ['XyzProofs.Props.C07', 'XyzProofs.Refine.Batch', 'XyzProofs.Refine.Lifecycle', 'XyzProofs.Props.C04Lifecycle']
THEOREMS = ['Batch.c07_resow_count', 'Batch.c07_partition', 'Batch.c07_nonempty', 'Batch.c07_batchsize', 'Batch.c07_num_batches',
            'Batch.c07_reported_count', 'Batch.sumSizes_eq',
            'Refine.chooseBatch_refines', 'Refine.sowerCall_refines', 'Refine.sowerExit_refines', 'Refine.sower_refines',
            'Lc.sowCombos_refines', 'Lc.sowCases_refines', 'Lc.saveInfo_refines', 'Lc.c04_lc_sow_combos_ok', 'Lc.c04_lc_sow_cases_ok', 'Lc.c06_lc_sow_constants_win']
ANCHORS = ['nbFromBs', 'capNb', 'bsOfNb', 'remOfNb', 'bothOk', 'sowerGetsExtra', 'sowerFlush',
           'chooseBatchSettings', 'sowerInit', 'sowerCall', 'sowerExit',
           'saveInfoLc', 'sowCasesLc', 'sowCombosLc']
RULE = ("each case = (N settings as a grid or a case list, batchsize s in 1..N+1 or num_batches k in 1..N+2 or neither, "
        "shuffle off/seed, optional Runner constants/resources): the real Crop is sown, its batch files unpickled and "
        "compared with the Lean Sower model and with the call log of a direct run; quick enumerates all (N, s|k) for "
        "N<=24, thorough for N<=48; re-sows of N2 settings into the sown crop (same or reloaded object) for every N<=10 (16) and N2 in the window around the acceptance bounds; non-trivial = N>=2 and at least 2 batches; distinct by full case description")
EXHAUSTIVE = {'quick': True, 'thorough': True}
TRUSTED = ["pickle round trip of the batch files; the harness's enumeration of the direct-run order (itertools.product over name-sorted combos) used to index settings"]
ASSUMPTIONS = ["math.ceil(n / batchsize) is exact ceiling division (n < 2**53)"]


def nontrivial(c):
    return c['n'] >= 2 and (c.get('bs') or 1) < c['n'] and (c.get('nb') or 2) >= 2


def _mk(rng, n, mode, val, i):
    kind = 'grid' if (i % 3) else 'cases'
    if kind == 'cases' and i % 2 == 0 and n >= 2:
        kind = 'casesx'                       # case list crossed with a sub-grid: sow_cases(..., combos=...)
    c = {'n': n, 'kind': kind, 'shuffle': rng.choice([0, 0, 1, 7, 42]) if kind == 'grid' else rng.choice([0, 0, 1, 5]),
         'farmer': (i % 5 == 0), 'seedvals': rng.randrange(10 ** 6)}
    if mode == 'bs': c['bs'] = val
    if mode == 'nb': c['nb'] = val
    c['via'] = rng.choice(['ctor', 'sow'])
    if kind == 'grid':
        c['shape'] = list(common.factor_shape(n, rng))
    if kind == 'casesx':
        divs = [m for m in range(2, n + 1) if n % m == 0]
        c['sub'] = rng.choice(divs)           # n = (n / sub) cases x sub combinations
    if kind != 'grid':
        # how the case list is written: a list of dicts, a list of tuples, a generator of dicts, or -- for one case --
        # the single dict itself (all accepted by parse_cases)
        ncases = n // c['sub'] if kind == 'casesx' else n
        c['spell'] = rng.choice(['dicts', 'dicts', 'tuples', 'gen']) if ncases > 1 else rng.choice(['onedict', 'onedict', 'dicts', 'tuples'])
    return c


def _spell(inp, how):
    """the case list of `inp` in one of the spellings parse_cases accepts"""
    cs = [dict(d) for d in inp['cases']]
    if how == 'onedict' and len(cs) == 1: return cs[0]
    if how == 'tuples': return [tuple(d[a] for a in inp['fn_args']) for d in cs]
    if how == 'gen': return (d for d in cs)
    return cs


def cases(ctx):
    rng = ctx.rng
    nmax = 24 if ctx.tier == 'quick' else 48
    i = 0
    out = []
    for n in range(1, nmax + 1):
        for s in range(1, n + 2):
            i += 1; out.append(_mk(rng, n, 'bs', s, i))
        for k in range(1, n + 3):
            i += 1; out.append(_mk(rng, n, 'nb', k, i))
        i += 1; out.append(_mk(rng, n, 'none', None, i))
    for _ in range(150 if ctx.tier == 'quick' else 1500):
        n = rng.randint(2, 400)
        mode = rng.choice(['bs', 'nb'])
        val = rng.choice([1, 2, 3, n - 1, n, n + 1, rng.randint(1, n + 2), max(1, n // rng.randint(2, 9))])
        i += 1; out.append(_mk(rng, n, mode, max(1, val), i))
    # ONE case (alone, or crossed with a sub-grid of every size), mostly written as the single dict itself
    for sub in range(1, 9):
        for mode, vals in (('bs', (1, 2, 3, sub, sub + 1)), ('nb', (1, 2, 3, sub, sub + 2)), ('none', (None,))):
            for val in vals:
                i += 1
                c = _mk(rng, sub, mode, val, 6 * i)           # i % 3 == 0 and i % 2 == 0: 'casesx' when n >= 2, else 'cases'
                if c['kind'] == 'casesx': c['sub'] = sub
                c['spell'] = 'onedict' if i % 4 else rng.choice(['dicts', 'tuples'])
                out.append(c)
    # re-sow: a second sow of another number of settings into the sown crop (same object or a reloaded one); the
    # remembered (batchsize, num_batches, remainder) either still fit -- then every batch file is rewritten -- or the
    # sow is refused.  N2 runs over the whole window around the acceptance bounds.
    rmax = 10 if ctx.tier == 'quick' else 16
    for n in range(1, rmax + 1):
        for mode, vals in (('bs', range(1, n + 2)), ('nb', range(1, n + 3)), ('none', [None])):
            for val in vals:
                bs_eff = val if mode == 'bs' else (max(1, n // max(1, min(val, n))) if mode == 'nb' else 1)
                for n2 in range(max(1, n - bs_eff - 2), n + 3):
                    if n2 == n and (i % 4): continue
                    i += 1
                    c = _mk(rng, n, mode, val, 1 + 3 * i)         # always a grid
                    c['farmer'] = False
                    c['resow'] = {'n2': n2, 'reload': bool(i % 2)}
                    out.append(c)
    for c in out:
        ctx.count('resow', 'no' if 'resow' not in c else 'reload' if c['resow']['reload'] else 'same-object')
        ctx.count('mode', 'bs' if 'bs' in c else 'nb' if 'nb' in c else 'none')
        ctx.count('kind', c['kind']); ctx.count('case spelling', c.get('spell', '-')); ctx.count('shuffle', bool(c['shuffle'])); ctx.count('farmer', c['farmer'])
    return out


search_cases = cases


def _inputs(c):
    """concrete combos/cases/constants for a case description"""
    import random
    rng = random.Random(c['seedvals'])
    consts = {'k0': 3} if c['farmer'] else {}
    res = {'big': 'R'} if c['farmer'] else {}
    # constants given at sow time take precedence over the farmer's stored ones (as in a direct run)
    sow_consts = {}
    if c['seedvals'] % 3 == 0: sow_consts = {'k0': 99} if c['farmer'] else {'k1': 7}
    elif c['seedvals'] % 3 == 1 and c['farmer']: sow_consts = {'big': 'other', 'k2': 'x'}
    if c['kind'] == 'grid':
        names = common.ARG_NAMES[:len(c['shape'])]
        combos = {a: common.make_values(rng, k) for a, k in zip(names, c['shape'])}
        return dict(combos=combos, cases=None, fn_args=None, consts=consts, res=res, sow_consts=sow_consts)
    names = ['y', 'x']
    pool = list(itertools.product(range(-3, 40), range(0, 12)))
    ncases = c['n'] // c['sub'] if c['kind'] == 'casesx' else c['n']
    cs = rng.sample(pool, ncases)
    sub = None
    if c['kind'] == 'casesx':
        shape = list(common.factor_shape(c['sub'], rng))
        sub = tuple((a, common.make_values(rng, k)) for a, k in zip(['b', 'a', 'c', 'd', 'e', 'g', 'h'], shape))   # parsed form, given order
    return dict(combos=sub, cases=[dict(zip(names, v)) for v in cs], fn_args=names, consts=consts, res=res, sow_consts=sow_consts)


def _rec(**kw):
    return kw


def run_real(c, ctx):
    import xyzpy as xyz
    inp = _inputs(c)
    d = common.fresh_dir('c07')
    try:
        kw = {}
        if c['via'] == 'ctor':
            if 'bs' in c: kw['batchsize'] = c['bs']
            if 'nb' in c: kw['num_batches'] = c['nb']
        if inp['consts'] or inp['res']:
            runner = xyz.Runner(_rec, var_names=['out'], constants=inp['consts'], resources=inp['res'])
            crop = runner.Crop(name='t', parent_dir=d, **kw)
        else:
            crop = xyz.Crop(fn=_rec, name='t', parent_dir=d, **kw)
        skw = {}
        if c['via'] == 'sow':
            if 'bs' in c: skw['batchsize'] = c['bs']
            if 'nb' in c: skw['num_batches'] = c['nb']
        try:
            with quiet():
                if c['kind'] == 'grid':
                    crop.sow_combos(inp['combos'], constants=inp['sow_consts'] or None, shuffle=(c['shuffle'] or False), verbosity=0, **skw)
                else:
                    if c['shuffle']: crop.shuffle = c['shuffle']
                    xkw = {'combos': inp['combos']} if c['kind'] == 'casesx' else {}
                    crop.sow_cases(inp['fn_args'], _spell(inp, c.get('spell', 'dicts')), constants=inp['sow_consts'] or None,
                                   verbosity=0, **skw, **xkw)
        except Exception as e:
            return {'err': type(e).__name__}
        try:
            files = glob.glob(os.path.join(crop.location, 'batches', 'xyz-batch-*.jbdmp'))
            ids = sorted(int(re.findall(r'xyz-batch-(\d+)\.jbdmp', f)[0]) for f in files)
            batches = []
            for i in ids:
                with open(os.path.join(crop.location, 'batches', f'xyz-batch-{i}.jbdmp'), 'rb') as fh:
                    batches.append(pickle.load(fh))
            rep = [crop.batchsize, crop.num_batches, crop.num_sown_batches]
            crop2 = xyz.Crop(name='t', parent_dir=d)
            rep2 = [crop2.batchsize, crop2.num_batches, crop2.num_sown_batches]
            # ... and by a handle that repeats the original request (which may differ from what was actually sown)
            rq = ({'batchsize': c['bs']} if 'bs' in c else {}) | ({'num_batches': c['nb']} if 'nb' in c else {})
            crop3 = xyz.Crop(name='t', parent_dir=d, **rq)
            rep3 = [crop3.batchsize, crop3.num_batches, crop3.num_sown_batches, sorted(crop3.missing_results())]
        except Exception as e:
            # reading the sown files back / re-creating the crop from disk is part of the property: a failure is an observation
            return {'err_reload': type(e).__name__, 'msg': str(e)[:200]}
        resow = None
        if 'resow' in c:
            n2 = c['resow']['n2']
            crop_r = xyz.Crop(fn=_rec, name='t', parent_dir=d) if c['resow']['reload'] else crop
            combos2 = {'zz': [1000 + j for j in range(n2)]}
            try:
                with quiet():
                    crop_r.sow_combos(combos2, verbosity=0)
                files = glob.glob(os.path.join(crop.location, 'batches', 'xyz-batch-*.jbdmp'))
                ids2 = sorted(int(re.findall(r'xyz-batch-(\d+)\.jbdmp', f)[0]) for f in files)
                b2 = []
                for j in ids2:
                    with open(os.path.join(crop.location, 'batches', f'xyz-batch-{j}.jbdmp'), 'rb') as fh:
                        b2.append([(kw['zz'] - 1000) if set(kw) == {'zz'} else -1 for kw in pickle.load(fh)])
                crop4 = xyz.Crop(name='t', parent_dir=d)
                resow = {'ids': ids2, 'batches': b2, 'reported': [crop_r.batchsize, crop_r.num_batches, crop_r.num_sown_batches],
                         'reloaded': [crop4.batchsize, crop4.num_batches, crop4.num_sown_batches]}
            except Exception as e:
                resow = {'err': type(e).__name__}
        # direct run with a recording function: the kwargs a direct run passes
        log = []

        def recf(**kw):
            log.append(kw); return 0
        if c['kind'] == 'grid':
            xyz.combo_runner(recf, inp['combos'], constants={**inp['res'], **inp['consts'], **inp['sow_consts']}, verbosity=0)
        else:
            xyz.case_runner(recf, inp['fn_args'], [tuple(cs[a] for a in inp['fn_args']) for cs in inp['cases']],
                            constants={**inp['res'], **inp['consts'], **inp['sow_consts']}, verbosity=0,
                            **({'combos': inp['combos']} if c['kind'] == 'casesx' else {}))
        # index of each setting in sow order (combos sorted by name, product order; cases in given order)
        if c['kind'] == 'grid':
            names = sorted(inp['combos'])
            enum = [dict(zip(names, p)) for p in itertools.product(*(inp['combos'][a] for a in names))]
        elif c['kind'] == 'casesx':
            subn = [a for a, _ in inp['combos']]
            enum = [{**cs, **dict(zip(subn, p))} for cs in inp['cases'] for p in itertools.product(*(v for _, v in inp['combos']))]
        else:
            enum = [dict(cs) for cs in inp['cases']]
        extra = {**inp['res'], **inp['consts'], **inp['sow_consts']}
        index = {common.kwkey({**e, **extra}): i for i, e in enumerate(enum)}
        bidx = [[index.get(common.kwkey(kw), -1) for kw in b] for b in batches]
        return {'ids': ids, 'batches': bidx, 'reported': rep, 'reloaded': rep2, 'reloaded_with_request': rep3,
                'direct': sorted(map(str, map(common.kwkey, log))),
                'sown': sorted(str(common.kwkey(kw)) for b in batches for kw in b), 'resow': resow}
    finally:
        common.rm(d)


def model_request(c, obs):
    rq = {'op': 'batch', 'n': c['n']}
    if 'bs' in c: rq['bs'] = c['bs']
    if 'nb' in c: rq['nb'] = c['nb']
    if c['shuffle']:
        rq['stream'] = common.perm(c['shuffle'], c['n'])
    if 'resow' in c:
        rq['n2'] = c['resow']['n2']
    return rq


def compare(c, obs, rep):
    if 'err_reload' in obs: return None          # the oracle reports it
    if 'err' in obs or 'err' in rep:
        return None if ('err' in obs) == ('err' in rep) else f'error mismatch real={obs.get("err")} model={rep.get("err")}'
    if obs['batches'] != rep['batches']:
        return f'batch contents differ: real {obs["batches"][:4]}… model {rep["batches"][:4]}…'
    if obs['reported'][:2] != [rep['batchsize'], rep['num_batches']]:
        return f'reported (batchsize, num_batches) {obs["reported"][:2]} vs model {[rep["batchsize"], rep["num_batches"]]}'
    if 'resow' in c:
        ro, rm = obs['resow'], rep.get('resow')
        if rm is None: return 'model gave no answer for the re-sow'
        if ('err' in ro) != ('err' in rm):
            return f're-sow of {c["resow"]["n2"]} settings: real {"refused" if "err" in ro else "accepted"}, model {"refused" if "err" in rm else "accepted"}'
        if 'err' not in ro:
            if ro['batches'] != rm['files']:
                return f're-sow: batch files differ: real {ro["batches"][:4]}… model {rm["files"][:4]}…'
    return None


def oracle(c, obs):
    """the property itself, evaluated on the real observation (no model involved)"""
    if 'harness_exc' in obs: return 'harness: ' + obs['harness_exc']
    if 'err' in obs:
        return f'sow raised {obs["err"]} for a valid request'
    if 'err_reload' in obs:
        return f'after a successful sow, reading the batches / reloading the crop raised {obs["err_reload"]}: {obs["msg"]}'
    n = c['n']
    B = len(obs['ids'])
    if obs['ids'] != list(range(1, B + 1)): return f'batch ids not 1..B: {obs["ids"]}'
    if obs['sown'] != obs['direct']: return 'multiset of sown kwargs differs from the kwargs a direct run passes'
    sizes = [len(b) for b in obs['batches']]
    if any(s == 0 for s in sizes): return 'empty batch'
    flat = [i for b in obs['batches'] for i in b]
    if sorted(flat) != list(range(n)): return 'settings not partitioned (missing or duplicated setting)'
    if 'bs' in c:
        s = c['bs']
        if B != -(-n // s): return f'B={B} but ceil(N/s)={-(-n // s)}'
        if max(sizes) > s: return f'a batch exceeds the requested size {s}: {sizes}'
    if 'nb' in c:
        if B != min(c['nb'], n): return f'B={B} but min(k,N)={min(c["nb"], n)}'
        if max(sizes) - min(sizes) > 1: return f'batch sizes differ by more than one: {sizes}'
    if 'bs' not in c and 'nb' not in c and B != n: return f'default batching should be one setting per batch, B={B}'
    if obs['reported'][1] != B or obs['reported'][2] != B: return f'crop reports {obs["reported"]} but {B} files exist'
    if 'bs' in c and obs['reported'][0] != c['bs']: return f'crop reports batchsize {obs["reported"][0]}'
    if obs['reloaded'] != obs['reported']: return f'reloaded crop reports {obs["reloaded"]} vs {obs["reported"]}'
    if obs['reloaded_with_request'][:3] != obs['reported']:
        return f'a crop reloaded with the original request reports {obs["reloaded_with_request"][:3]} vs {obs["reported"]}'
    if obs['reloaded_with_request'][3] != list(range(1, B + 1)):
        return f'a crop reloaded with the original request lists missing batches {obs["reloaded_with_request"][3]}, sown are 1..{B}'
    ro = obs.get('resow')
    if ro is not None and 'err' not in ro:         # a refused re-sow is allowed; an accepted one must partition the new settings
        n2 = c['resow']['n2']
        B2 = len(ro['ids'])
        if ro['ids'] != list(range(1, B2 + 1)): return f're-sow: batch ids not 1..B: {ro["ids"]}'
        flat2 = [j for b in ro['batches'] for j in b]
        if -1 in flat2: return f're-sow of {n2} settings accepted, but a batch file still holds settings of the earlier sow: {ro["batches"]}'
        if sorted(flat2) != list(range(n2)): return f're-sow: the {n2} new settings are not partitioned by the batch files: {ro["batches"]}'
        if any(len(b) == 0 for b in ro['batches']): return 're-sow: empty batch'
        if ro['reported'][1] != B2 or ro['reported'][2] != B2: return f're-sow: crop reports {ro["reported"]} but {B2} files exist'
        if ro['reloaded'] != ro['reported']: return f're-sow: reloaded crop reports {ro["reloaded"]} vs {ro["reported"]}'
    return None


def finding_key(c, obs):
    return None
