"""C17 — classic line, scatter, histogram and heat-map plots draw exactly the data (partial: see PARTIAL/TRUSTED)."""
import itertools, json, math, copy
import numpy as np
import common, plotds
from plotds import DS, NAN, PINF, NINF, tok_out, finite, label, prettify

PROP = 'C17'
LEAN_MODULES = ['XyzProofs.Props.C17', 'XyzProofs.Props.C17Src', 'XyzProofs.Refine.PlotSrc']
THEOREMS = ['PlotPrep.c17_series_count_order_labels', 'PlotPrep.c17_points', 'PlotPrep.c17_points_carried',
            'PlotPrep.c17_points_mem', 'PlotPrep.c17_mask_arrays', 'PlotPrep.c17_mask_ignores_carried',
            'PlotPrep.c17_point_kept_iff', 'PlotPrep.c17_all_nan_series_empty', 'PlotPrep.c17_hist_values',
            'PlotPrep.c17_heatmap_mesh', 'PlotPrep.c17_panels', 'PlotPrep.c17_colour_structure_partial',
            'PlotPrep.c17_colour_limits', 'PlotPrep.c17_figure_limits',
            'PlotPrep.c17_legend_or_colorbar', 'PlotPrep.c17_pure',
            # on the translated source (harness/anchors_plotsrc.py; XyzProofs/Props/C17Src.lean)
            'PlotPrep.c17_src_genxy_series_per_z', 'PlotPrep.c17_src_genx_series_per_z', 'PlotPrep.c17_src_legend_refines',
            'PlotPrep.c17_src_legend_rule', 'PlotPrep.c17_src_zvals_refines', 'PlotPrep.c17_src_zvals_order',
            'PlotPrep.c17_src_zlabels_order', 'PlotPrep.c17_src_zlabels_given', 'PlotPrep.c17_src_labels_refine',
            'PlotPrep.c17_src_loops_take_one_label', 'PlotPrep.c17_src_colour_limits', 'PlotPrep.c17_src_colour_limits_refine',
            'PlotPrep.c17_src_rowcol_refines',
            # the translated generators on the model's dataset operations = the model (XyzProofs/Refine/PlotSrc.lean)
            'PlotPrep.genxy_coord_refines', 'PlotPrep.genxy_single_refines', 'PlotPrep.genxy_var_refines',
            'PlotPrep.genxy_var_errors', 'PlotPrep.genx_refines', 'PlotPrep.c17_src_xy_refines']
ANCHORS = ['maskIsBothFinite', 'maskArrays', 'vminDefaulted', 'vmaxDefaulted', 'autoLegend',
           'plZVals', 'plZLabels', 'plLegend', 'plGenXY', 'plGenX', 'plLoopNexts', 'plColorNorm', 'plRowCol']
RULE = ("each case = (explicit dataset: 1-4 dims of size 1-5 (up to 13 series in a boundary slice), numeric/str "
        "coordinates in arbitrary order, variables with shuffled dimension order, cells = distinct dyadic floats / NaN / "
        "+-inf incl. all-NaN series; a call of lineplot / scatter / histogram / heatmap or their auto_* forms with z or "
        "multi-variable y, optional y_err/x_err/c with a NaN/inf pattern of their own (non-finite where x and y are "
        "finite, and the reverse), row/col; options colors/colormap/log/reverse/legend/colorbar/markers/lines/log axes/"
        "zlims and explicit colour limits vmin/vmax (0, 0.0, negative, inside and outside the data range, one or both) "
        "for colour-mapped lines, scatter c= and heat maps; z coordinates on both sides of zero). The real function is "
        "called on the Agg backend, every Line2D / error-bar collection / PathCollection (with its norm) / Polygon "
        "/ QuadMesh is read back and each drawn float decoded by bit pattern to the cell it came from; compared with "
        "the Lean model and with an independent pure-python oracle. non-trivial = at least two series or panels, or a "
        "non-finite cell, or a heat map; distinct by full case description")
TRUSTED = ["matplotlib (Agg): that artists hold the arrays they were given and render them; Axes.hist / np.histogram "
           "binning numerics; colour-map and Normalize numerics (colours are compared with cmap(norm(q)) evaluated by "
           "matplotlib in the harness, the model only says which q and where each limit of the norm comes from)",
           "matplotlib keeps, but does not render, a scatter point whose colour value is NaN/inf (the colour map has no "
           "colour for it; its offsets are masked) and holds an error bar of NaN/inf length as an empty segment: such a "
           "point counts as drawn (it is in the artist's data), its bar as absent",
           "xarray selection/broadcast primitives (modelled as index arithmetic, validated by the diff only)",
           "decoding of drawn floats by exact bit pattern through an injective table of the dataset's values"]
ASSUMPTIONS = ["dataset values are pairwise distinct finite floats or NaN/+-inf, coordinates are unique per dimension",
               "translated gen_xy (anchors_plotsrc): the jitter options are off (`self.xjitter` / `self.yjitter` false), "
               "`check_excess_dims` is validation only (dropped from the translation of prepare_z_vals), the dataset "
               "operations are abstract (`Gen.PlotOps`; the refinement instantiates them with the model's View: positional and "
               "`.loc` selection give the same slice because coordinates are unique)"]
PARTIAL = {
    'C17 (whole property)': "partial claim: slice selection, C-order flattening, finite mask, carried variables, "
                            "histogram value selection, heat-map cell placement, panel placement/titles, which quantity "
                            "drives each colour and the legend/colorbar decision are proved on the Lean model; "
                            "matplotlib rendering, histogram bin numerics, colour-map/normalisation numerics and "
                            "xarray's own indexing are validated by execution only",
    'c17_colour_structure_partial': "full statement: colour i = cmap(norm(q_i)) with the norm fixed by the min/max of the "
                                    "quantity or by the given limits. Proved: which q_i drives series i (its own z coordinate / "
                                    "its own c value / its relative position for a non-numeric coordinate), for any number of "
                                    "series, with cmap and norm abstract; and where each end of the norm comes from "
                                    "(c17_colour_limits: the vmin/vmax given, whatever its value; else the zlims entry; else "
                                    "the data range - from the extracted defaulting tests). Missing in Lean: the values "
                                    "themselves, i.e. that the data range is the finite min/max of the quantity over the whole "
                                    "dataset (floats are opaque in the model); checked by execution: colours are compared with "
                                    "cmap(Normalize(lo, hi)(q)) evaluated by matplotlib, the norm limits of scatter "
                                    "collections and heat-map meshes with the given limits / the finite data range",
    'c17_pure': "the model threads the dataset through every preparation step and the theorem shows it is returned "
                "unchanged; on the real code purity is observed (ds.identical(copy) after every call), not proved",
}

XY_KINDS = ('lineplot', 'scatter')


def nontrivial(c):
    ds = c['ds']
    cells = [x for v in ds['vars'] for x in v['cells']]
    nser = 1
    z = c['call'].get('z')
    for d in ds['dims']:
        if d['name'] in (z, c['call'].get('row'), c['call'].get('col')): nser *= len(d['coords'])
    if isinstance(c['call'].get('y'), list): nser *= len(c['call']['y'])
    if isinstance(c['call'].get('x'), list): nser *= len(c['call']['x'])
    return nser >= 2 or any(x < 0 for x in cells) or c['kind'] == 'heatmap'


# ====================================================================== generators

class Ids:
    def __init__(self): self.n = 0
    def __iter__(self): return self
    def __next__(self):
        self.n += 1
        return self.n - 1


def _var(rng, name, dims, sizes, ids, pattern):
    """pattern: those of plotds.gen_cells, or 'pinf' (NaN and +inf only: an error bar length cannot be negative)"""
    n = 1
    for d in dims: n *= sizes[d]
    cells = plotds.gen_cells(rng, n, ids, 'inf' if pattern == 'pinf' else pattern)
    if pattern == 'pinf': cells = [PINF if x == NINF else x for x in cells]
    return {'name': name, 'dims': list(dims), 'cells': cells}


def _crange(desc, name):
    """(min, max) of the finite values of a variable / numeric coordinate of a dataset description; None if there are
    fewer than two different ones (no colour scale to speak of)"""
    vals = None
    for d in desc['dims']:
        if d['name'] == name: vals = [float(v) for v in d['coords'] if plotds.is_num(v)]
    for v in desc['vars']:
        if v['name'] == name: vals = [plotds.val(x, desc.get('off', 0)) for x in v['cells'] if x >= 0]
    if not vals or min(vals) == max(vals): return None
    return min(vals), max(vals)


def gen_limits(rng, crange):
    """explicit colour limits {'vmin': .., 'vmax': ..} (either may be left out): the numbers Python calls false (0, 0.0),
    negative values, values inside the data range `crange` and outside of it. The interval that results (given limit,
    else the end of the data range) is never empty, so the call stays valid."""
    dlo, dhi = crange if crange else (None, None)

    def pick_min():
        k = rng.choice(['none', 'zero', 'zero', 'neg', 'inside', 'below'])
        if k == 'none': return None
        if k == 'zero': return rng.choice([0, 0.0])
        if k == 'neg': return rng.choice([-3.5, -40.0, -1])
        if crange is None: return rng.choice([0, -2.25])
        if k == 'inside': return dlo + (dhi - dlo) * rng.choice([0.25, 0.375, 0.5])
        return dlo - rng.choice([1.5, 20.0])

    def pick_max():
        k = rng.choice(['none', 'zero', 'zero', 'neg', 'inside', 'above', 'above'])
        if k == 'none': return None
        if k == 'zero': return rng.choice([0, 0.0])
        if k == 'neg': return rng.choice([-0.5, -2, -1.25])
        if crange is None: return rng.choice([7.5, 300])
        if k == 'inside': return dlo + (dhi - dlo) * rng.choice([0.625, 0.75, 0.875])
        return dhi + rng.choice([7.25, 100.0])

    if rng.random() < 0.12:          # an upper limit of zero needs the lower one below it
        return {'vmin': rng.choice([-3.5, -40.0, -1]), 'vmax': rng.choice([0, 0.0])}
    for _ in range(200):
        vmin, vmax = pick_min(), pick_max()
        if vmin is None and vmax is None: continue
        lo = vmin if vmin is not None else dlo
        hi = vmax if vmax is not None else dhi
        if lo is None or hi is None or not lo < hi: continue
        return {k: v for k, v in (('vmin', vmin), ('vmax', vmax)) if v is not None}
    return {}


def limit_class(v, crange):
    if v is None: return 'none'
    if v == 0: return 'zero'
    if v < 0: return 'negative'
    if crange and crange[0] < v < crange[1]: return 'inside'
    return 'outside'


def _signed_coords(rng, n):
    """coordinate values on both sides of zero (and zero itself): multiples of 1/8, which no data value is"""
    vals = [k / 8 for k in rng.sample(range(-40, 41), n)]
    return sorted(vals) if rng.random() < 0.6 else vals


def _shuffled(rng, l):
    l = list(l); rng.shuffle(l); return l


def _grid_dims(rng, grid):
    """extra dims for row/col"""
    out = []
    if grid in ('row', 'both'): out.append(('r', rng.choice([1, 2, 2, 3])))
    if grid in ('col', 'both'): out.append(('k', rng.choice([1, 2, 2, 3])))
    return out


def gen_opts(rng, kind, has_z, z_num, has_c, nser, multi, crange=None):
    """crange: finite range of the quantity a colour map would be applied to (c variable, else numeric z coordinate)"""
    o = {}
    colourable = has_z and not multi
    r = rng.random()
    if not has_c:
        if colourable and r < 0.4: o['colors'] = True
        elif r < 0.55: o['colors'] = rng.choice([['r', 'b', 'g'], ['k', 'm']])
    mapped = has_c or o.get('colors') is True
    if mapped:
        if rng.random() < 0.5: o['colormap'] = rng.choice(['viridis', 'plasma', 'xyz'])
        if rng.random() < 0.25: o['colormap_reverse'] = True
        if rng.random() < 0.2 and (has_c or z_num): o['colormap_log'] = True
        r = rng.random()
        if r < 0.1:
            if has_c: o['vmin'], o['vmax'] = 2.0, 50.0
            elif z_num: o['zlims'] = (90.0, 400.0)
        elif r < 0.5 and (has_c or z_num):
            if not has_c and rng.random() < 0.2:       # zlims and an explicit limit together: the explicit one counts
                o['zlims'] = (90.0, 400.0); crange = (90.0, 400.0)
            o.update(gen_limits(rng, crange))
            if any(o.get(k) is not None and o[k] <= 0 for k in ('vmin', 'vmax')): o.pop('colormap_log', None)
    lg = rng.random()
    if lg < 0.15 and nser > 1: o['legend'] = True
    elif lg < 0.3: o['legend'] = False
    cb = rng.random()
    if mapped and cb < 0.25: o['colorbar'] = True
    elif cb < 0.4: o['colorbar'] = False
    if kind in XY_KINDS:
        m = rng.random()
        if m < 0.15: o['markers'] = True
        elif m < 0.3: o['markers'] = False
        elif m < 0.45: o['markers'] = rng.choice([['s', '^'], ['x'], ['o', 'D', 'v']])
        if rng.random() < 0.15: o['xlog'] = True
        if rng.random() < 0.15: o['ylog'] = True
    if kind == 'lineplot':
        if rng.random() < 0.12 and o.get('markers') is not False: o['lines'] = False
        elif rng.random() < 0.2: o['line_styles'] = rng.choice([['--', ':'], ['-.'], ['solid', 'dashed', 'dotted']])
        if rng.random() < 0.2: o['line_widths'] = rng.choice([[1.0, 2.5], [0.5]])
    if kind == 'histogram':
        o['bins'] = rng.choice([3, 4, 5, 8])
    return o


def gen_xy(rng, kind, big=False, blank=None, grid=None, variant=None, nz=None):
    ids = Ids()
    grid = grid if grid is not None else rng.choice(['none', 'none', 'none', 'row', 'col', 'both'])
    variant = variant or rng.choice(['z', 'z', 'z', 'single', 'multi', 'x2d'])
    if kind == 'scatter' and variant == 'x2d': variant = 'z'
    nx = rng.choice([1, 2, 3, 3, 4, 5])
    zkind = rng.choice(['int', 'float', 'str', 'signed'])
    nz = nz or (rng.choice([10, 11, 12, 13]) if big else rng.choice([1, 2, 2, 3, 3, 4]))
    dims = [('x', nx)]
    if variant in ('z', 'x2d'): dims.append(('z', nz))
    gd = _grid_dims(rng, grid)
    dims += gd
    w = rng.random() < 0.2
    if w: dims.append(('w', 1))
    sizes = dict(dims)
    dd = []
    for bi, (d, n) in enumerate(dims):
        k = zkind if d == 'z' else rng.choice(['int', 'float']) if d in ('x', 'w') else rng.choice(['int', 'float', 'str'])
        dd.append({'name': d, 'coords': _signed_coords(rng, n) if k == 'signed' else plotds.gen_coords(rng, n, k, bi)})
    pat = rng.choice(['full', 'nan', 'nan', 'inf'])
    # carried variables have their own missing-data pattern, not a subset of y's: a point with finite (x, y) keeps
    # being drawn when its error / colour value is NaN or infinite
    epat = lambda: rng.choice(['full', 'full', 'nan', 'pinf'])
    cpat = lambda: rng.choice(['full', 'full', 'nan', 'inf'])
    call = {'x': 'x', 'y': 'y', 'z': None, 'c': None, 'y_err': None, 'x_err': None, 'row': None, 'col': None}
    for d, _ in gd:
        call['row' if d == 'r' else 'col'] = d
    vs = []
    ydims = [d for d, _ in dims]
    if variant == 'multi':
        m = rng.choice([2, 2, 3])
        names = ['y', 'y2', 'y3'][:m]
        extra = (not gd) and kind == 'scatter' and rng.random() < 0.3     # lineplot rejects excess dimensions
        if extra:
            dd.append({'name': 'u', 'coords': plotds.gen_coords(rng, 2, 'int', len(dd))}); sizes['u'] = 2
        for nm in names:
            vd = _shuffled(rng, ydims + (['u'] if extra and rng.random() < 0.7 else []))
            vs.append(_var(rng, nm, vd, sizes, ids, pat))
        call['y'] = names
    else:
        vs.append(_var(rng, 'y', _shuffled(rng, ydims), sizes, ids, pat))
        if variant in ('z', 'x2d'): call['z'] = 'z'
        if variant == 'x2d':
            vs.append(_var(rng, 'xv', _shuffled(rng, ['x', 'z'] + [d for d, _ in gd if rng.random() < 0.5]), sizes, ids,
                           rng.choice(['full', 'nan'])))
            call['x'] = 'xv'
        if kind == 'scatter' and rng.random() < 0.5:
            # x as a data variable: arbitrary broadcast
            xd = [d for d in ydims if rng.random() < 0.8]
            if 'x' not in xd: xd.append('x')              # x must keep a free dimension inside a panel
            vs.append(_var(rng, 'xv', _shuffled(rng, xd), sizes, ids,
                           rng.choice(['full', 'nan'])))
            call['x'] = 'xv'
        if kind == 'lineplot':
            if rng.random() < 0.3:
                sub = [d for d in ydims if d == 'x' or rng.random() < 0.6]
                vs.append(_var(rng, 'ye', _shuffled(rng, sub), sizes, ids, epat())); call['y_err'] = 'ye'
            if rng.random() < 0.2:
                vs.append(_var(rng, 'xe', _shuffled(rng, ydims), sizes, ids, epat())); call['x_err'] = 'xe'
            if variant in ('z', 'x2d') and rng.random() < 0.25:
                cd = ['z'] + [d for d, _ in gd if rng.random() < 0.5]
                vs.append(_var(rng, 'cv', _shuffled(rng, cd), sizes, ids, rng.choice(['full', 'full', 'full', 'nan', 'inf']))); call['c'] = 'cv'
        if kind == 'scatter' and rng.random() < 0.4:
            sub = [d for d in ydims if rng.random() < 0.8] or ['x']
            vs.append(_var(rng, 'cv', _shuffled(rng, sub), sizes, ids, cpat())); call['c'] = 'cv'
    desc = {'dims': dd, 'vars': vs, 'off': rng.randrange(509)}
    if call['z'] and (blank if blank is not None else rng.random() < 0.3):
        plotds.blank_slice(desc, 'y', 'z', rng.randrange(sizes['z']))
    has_z = call['z'] is not None
    nser = sizes.get('z', 1) if has_z else (len(call['y']) if isinstance(call['y'], list) else 1)
    opts = gen_opts(rng, kind, has_z, zkind != 'str', call['c'] is not None, nser, variant == 'multi',
                    crange=_crange(desc, call['c'] or call['z']) if (call['c'] or call['z']) else None)
    if zkind == 'signed' and not call['c']: opts.pop('colormap_log', None)      # LogNorm of a coordinate <= 0
    if call['c'] and not any(x >= 0 for v in vs if v['name'] == call['c'] for x in v['cells']):
        opts.pop('colormap_log', None)                                          # LogNorm of no finite value at all
    return {'kind': kind, 'auto': False, 'ds': desc, 'call': call, 'opts': opts}


def gen_hist(rng, grid=None):
    ids = Ids()
    grid = grid if grid is not None else rng.choice(['none', 'none', 'row', 'col', 'both'])
    variant = rng.choice(['z', 'z', 'single', 'multi'])
    dims = [('a', rng.choice([2, 3, 4, 5]))]
    zkind = rng.choice(['int', 'float', 'str'])
    if variant == 'z': dims.append(('z', rng.choice([1, 2, 3, 4])))
    if rng.random() < 0.4: dims.append(('b', rng.choice([1, 2, 3])))
    gd = _grid_dims(rng, grid)
    dims += gd
    sizes = dict(dims)
    dd = [{'name': d, 'coords': plotds.gen_coords(rng, n, zkind if d == 'z' else rng.choice(['int', 'float', 'str']), bi)}
          for bi, (d, n) in enumerate(dims)]
    pat = rng.choice(['full', 'nan', 'nan', 'inf'])
    call = {'x': 'v', 'z': 'z' if variant == 'z' else None, 'row': None, 'col': None}
    for d, _ in gd: call['row' if d == 'r' else 'col'] = d
    names = ['v', 'v2', 'v3'][:rng.choice([2, 3])] if variant == 'multi' else ['v']
    vs = [_var(rng, nm, _shuffled(rng, [d for d, _ in dims]), sizes, ids, pat) for nm in names]
    if variant == 'multi': call['x'] = names
    desc = {'dims': dd, 'vars': vs, 'off': rng.randrange(509)}
    if variant == 'z' and rng.random() < 0.2 and sizes['z'] > 1:
        plotds.blank_slice(desc, 'v', 'z', rng.randrange(sizes['z']))
    opts = gen_opts(rng, 'histogram', variant == 'z', zkind != 'str', False, sizes.get('z', len(names)), variant == 'multi',
                    crange=_crange(desc, 'z') if variant == 'z' else None)
    return {'kind': 'histogram', 'auto': False, 'ds': desc, 'call': call, 'opts': opts}


def gen_heat(rng, grid=None):
    ids = Ids()
    grid = grid if grid is not None else rng.choice(['none', 'none', 'row', 'col', 'both'])
    dims = [('x', rng.choice([2, 3, 4])), ('y', rng.choice([2, 3, 4, 5]))]
    gd = _grid_dims(rng, grid)
    dims += gd
    if rng.random() < 0.25: dims.append(('w', 1))
    sizes = dict(dims)
    dd = [{'name': d, 'coords': plotds.gen_coords(rng, n, 'uniform' if d in ('x', 'y') else rng.choice(['int', 'float', 'str']), bi)}
          for bi, (d, n) in enumerate(dims)]
    call = {'x': 'x', 'y': 'y', 'z': 'h', 'row': None, 'col': None}
    for d, _ in gd: call['row' if d == 'r' else 'col'] = d
    vs = [_var(rng, 'h', _shuffled(rng, [d for d, _ in dims]), sizes, ids, rng.choice(['full', 'nan', 'inf']))]
    opts = {}
    if rng.random() < 0.4: opts['colorbar'] = False
    if rng.random() < 0.4: opts['colormap'] = rng.choice(['viridis', 'plasma'])
    if rng.random() < 0.2: opts['colormap_log'] = True
    desc = {'dims': dd, 'vars': vs, 'off': rng.randrange(509)}
    if rng.random() < 0.4:
        opts.update(gen_limits(rng, _crange(desc, 'h')))
        if any(opts.get(k) is not None and opts[k] <= 0 for k in ('vmin', 'vmax')): opts.pop('colormap_log', None)
    return {'kind': 'heatmap', 'auto': False, 'ds': desc, 'call': call, 'opts': opts}


def gen_auto(rng, kind):
    """auto_* entry points: the arrays are described through the dataset auto_xyz_ds is documented to build"""
    ids = Ids()
    pat = rng.choice(['full', 'nan', 'inf'])
    off = None
    if kind in XY_KINDS:
        nx = rng.choice([2, 3, 4, 5])
        nz = rng.choice([n for n in (1, 2, 3, 4) if n != nx])
        dd = [{'name': 'x', 'coords': plotds.gen_coords(rng, nx, 'float', 0)}, {'name': 'z', 'coords': list(range(nz))}]
        vs = [_var(rng, 'y', ['z', 'x'], {'x': nx, 'z': nz}, ids, pat)]
        call = {'x': 'x', 'y': 'y', 'z': 'z', 'c': None, 'y_err': None, 'x_err': None, 'row': None, 'col': None}
        opts = gen_opts(rng, kind, True, True, False, nz, False, crange=(0.0, nz - 1.0) if nz > 1 else None)
        if 'zlims' in opts:            # the z values here are 0, 1, ..: limits chosen for the (90, 400) window do not apply
            for k in ('zlims', 'vmin', 'vmax'): opts.pop(k, None)
        if opts.get('colormap_log'): opts.pop('colormap_log')     # z = 0.. : LogNorm undefined
    elif kind == 'histogram':
        shape = [rng.choice([2, 3, 4]) for _ in range(rng.choice([1, 2, 3]))]
        names = ['y', 'z', 'w'][:len(shape)]
        dd = [{'name': d, 'coords': list(range(n))} for d, n in zip(names, shape)]
        vs = [_var(rng, 'x', names, dict(zip(names, shape)), ids, pat)]
        call = {'x': 'x', 'z': None, 'row': None, 'col': None}
        opts = {'bins': rng.choice([3, 5])}
    else:
        ny, nz = rng.choice([2, 3, 4]), rng.choice([2, 3, 5])
        dd = [{'name': 'y', 'coords': list(range(ny))}, {'name': 'z', 'coords': list(range(nz))}]
        vs = [_var(rng, 'x', ['y', 'z'], {'y': ny, 'z': nz}, ids, pat)]
        call = {'x': 'y', 'y': 'z', 'z': 'x', 'row': None, 'col': None}
        opts = {'colorbar': rng.random() < 0.6}
        off = rng.randrange(509)
        if rng.random() < 0.3: opts.update(gen_limits(rng, _crange({'dims': dd, 'vars': vs, 'off': off}, 'x')))
    return {'kind': kind, 'auto': True, 'ds': {'dims': dd, 'vars': vs, 'off': rng.randrange(509) if off is None else off}, 'call': call, 'opts': opts}


def _tokens_ok(c):
    """value tokens must stay distinct floats (plotds.val is injective below 509)"""
    return all(x < 500 for v in c['ds']['vars'] for x in v['cells'])


def _retry(gen):
    def g(rng, *a, **kw):
        for _ in range(100):
            c = gen(rng, *a, **kw)
            if _tokens_ok(c): return c
        raise RuntimeError('generator could not produce a small enough dataset')
    return g


gen_xy, gen_hist, gen_heat, gen_auto = _retry(gen_xy), _retry(gen_hist), _retry(gen_heat), _retry(gen_auto)


def boundary(rng):
    out = []
    # the places where the logic branches: 10 / 11 series (legend vs colour bar), all-NaN series, c=, colorbar=True,
    # single-panel heat map with its default colour bar, non-square grids, 1-sized dims
    for kind in XY_KINDS:
        for big in (False, True):
            c = gen_xy(rng, kind, big=big, blank=True, grid='none', variant='z')
            c['call']['c'] = None
            c['opts'] = {'colors': True} if big else {}
            out.append(c)
        c = gen_xy(rng, kind, grid='both', variant='z', blank=True); out.append(c)
        for n in (9, 10, 11):          # the auto-legend bound
            for o in ({}, {'colors': True}):
                c = gen_xy(rng, kind, grid='none', variant='z', nz=n); c['call']['c'] = None; c['opts'] = dict(o); out.append(c)
    c = gen_xy(rng, 'lineplot', grid='none', variant='z'); c['call']['c'] = None
    c['opts'] = {'colors': True, 'colorbar': True}; out.append(c)
    for _ in range(3):
        c = gen_xy(rng, 'lineplot', grid='none', variant='z')
        if not c['call']['c']:
            ids = Ids(); ids.n = 400
            zs = len(next(d for d in c['ds']['dims'] if d['name'] == 'z')['coords'])
            c['ds']['vars'].append(_var(rng, 'cv', ['z'], {'z': zs}, ids, 'full')); c['call']['c'] = 'cv'
        c['opts'] = {k: v for k, v in c['opts'].items() if k not in ('colors',) + _LIMIT_OPTS}
        out.append(c)
    for _ in range(3):
        c = gen_xy(rng, 'scatter', grid='none', variant=rng.choice(['z', 'single']))
        if not c['call']['c']:
            ids = Ids(); ids.n = 400
            yd = c['ds']['vars'][0]['dims']
            sizes = {d['name']: len(d['coords']) for d in c['ds']['dims']}
            c['ds']['vars'].append(_var(rng, 'cv', list(yd), sizes, ids, 'full')); c['call']['c'] = 'cv'
        c['opts'] = {k: v for k, v in c['opts'].items() if k not in ('colors', 'colorbar') + _LIMIT_OPTS}
        out.append(c)
    for g in ('none', 'none', 'row', 'col', 'both'):
        c = gen_heat(rng, grid=g)
        if g == 'none': c['opts'].pop('colorbar', None)
        out.append(c)
        out.append(gen_hist(rng, grid=g))
    for kind in ('lineplot', 'scatter', 'histogram', 'heatmap'):
        out.append(gen_auto(rng, kind))
    out += boundary_carried(rng) + boundary_limits(rng)
    return out


_LIMIT_OPTS = ('vmin', 'vmax', 'zlims', 'colormap_log')     # chosen for one colour quantity: dropped when it is replaced


def _numeric_z(rng, kind, **kw):
    for _ in range(200):
        c = gen_xy(rng, kind, variant='z', **kw)
        z = next(d for d in c['ds']['dims'] if d['name'] == 'z')['coords']
        if all(plotds.is_num(v) for v in z) and len(set(z)) > 1 and not c['call']['c']: return c
    raise RuntimeError('no case with a numeric z coordinate generated')


def _carry(c, rng, key, name, cells_of):
    """give case `c` the carried variable `name` (call argument `key`) over the dimensions of y; cells_of(n) -> cells"""
    sizes = {d['name']: len(d['coords']) for d in c['ds']['dims']}
    y = next(v for v in c['ds']['vars'] if v['name'] == 'y')
    c['ds']['vars'] = [v for v in c['ds']['vars'] if v['name'] != name]
    n = 1
    for d in y['dims']: n *= sizes[d]
    c['ds']['vars'].append({'name': name, 'dims': list(y['dims']), 'cells': cells_of(n)})
    c['call'][key] = name


def boundary_carried(rng):
    """y finite everywhere, the error / colour variable not: every (x, y) pair must still be drawn; and the reverse
    (y with gaps, carried variable complete)"""
    out = []
    for kind, keys in (('lineplot', [('y_err', 'ye')]), ('lineplot', [('x_err', 'xe')]),
                       ('lineplot', [('y_err', 'ye'), ('x_err', 'xe')]), ('scatter', [('c', 'cv')])):
        for y_full in (True, False):
            c = gen_xy(rng, kind, grid='none', variant='z', blank=False)
            for k in ('c', 'y_err', 'x_err'): c['call'][k] = None
            c['ds']['vars'] = [v for v in c['ds']['vars'] if v['name'] in ('y', 'xv')]
            ids = Ids(); ids.n = 300
            y = next(v for v in c['ds']['vars'] if v['name'] == 'y')
            if y_full: y['cells'] = [x if x >= 0 else next(ids) for x in y['cells']]
            for j, (key, name) in enumerate(keys):
                def cells_of(n, j=j):
                    if not y_full: return [next(ids) for _ in range(n)]
                    bad = [NAN, PINF] if kind == 'lineplot' else [NAN, PINF, NINF]
                    out_ = [next(ids) for _ in range(n)]
                    for k in range(j, n, 3): out_[k] = bad[(k // 3) % len(bad)]
                    return out_
                _carry(c, rng, key, name, cells_of)
            c['opts'] = {k: v for k, v in c['opts'].items() if k not in ('colors', 'colorbar') + _LIMIT_OPTS}
            out.append(c)
    return out


def boundary_limits(rng):
    """explicit colour limits that Python calls false (0, 0.0), alone and with the other limit, negative limits, limits
    inside the data range: line colours from a numeric z, scatter coloured by a variable, heat map"""
    out = []
    lims = [{'vmin': 0}, {'vmin': 0.0, 'vmax': 1000.0}, {'vmin': -3.5, 'vmax': 0}, {'vmin': -40.0, 'vmax': -0.5}, 'inside']

    def put(c, lim, name):
        if lim == 'inside':
            lo, hi = _crange(c['ds'], name) or (0.0, 1.0)
            lim = {'vmin': lo + (hi - lo) * 0.25, 'vmax': lo + (hi - lo) * 0.75}
        c['opts'] = {k: v for k, v in c['opts'].items() if k not in _LIMIT_OPTS}
        c['opts'].update(lim)
        return c
    for lim in lims:
        c = _numeric_z(rng, 'lineplot', grid='none')
        c['opts'] = {'colors': True}
        out.append(put(c, lim, 'z'))
        c = gen_xy(rng, 'scatter', grid='none', variant='z')
        c['opts'] = {k: v for k, v in c['opts'].items() if k not in ('colors', 'colorbar')}
        ids = Ids(); ids.n = 300
        _carry(c, rng, 'c', 'cv', lambda n: [next(ids) for _ in range(n)])
        out.append(put(c, lim, 'cv'))
        out.append(put(gen_heat(rng, grid=rng.choice(['none', 'none', 'row'])), lim, 'h'))
    return out


def gen_xy_transposed(rng, kind):
    """two variables of one call over the SAME dimensions of EQUAL sizes but stored in different dimension order
    (alignment must go by dimension name, never by position)"""
    for _ in range(400):
        c = gen_xy(rng, kind, grid='none', variant='z' if kind == 'scatter' else rng.choice(['z', 'x2d']))
        sizes = {d['name']: len(d['coords']) for d in c['ds']['dims']}
        used = [v for v in c['ds']['vars'] if v['name'] in (c['call']['x'], c['call']['y'], c['call']['c'], c['call']['y_err'], c['call']['x_err'])]
        multi = [v for v in used if len(v['dims']) >= 2 and len({sizes[d] for d in v['dims']}) == 1 and sizes[v['dims'][0]] >= 2]
        if any(a['dims'] != b['dims'] and sorted(a['dims']) == sorted(b['dims']) for a in multi for b in multi):
            return c
    return c


def gen_scatter_free2d(rng):
    """scatter without z: x, y (and c) are data variables over two free dimensions of equal size, stored in different
    dimension orders — all points of the 2-d cloud are drawn, paired by coordinate, not by storage position"""
    ids = Ids()
    n = rng.choice([2, 3, 3, 4])
    dd = [{'name': 'x', 'coords': plotds.gen_coords(rng, n, rng.choice(['int', 'float']), 0)},
          {'name': 'u', 'coords': plotds.gen_coords(rng, n, rng.choice(['int', 'float']), 1)}]
    sizes = {'x': n, 'u': n}
    orders = [['x', 'u'], ['u', 'x']]
    pat = rng.choice(['full', 'nan'])
    vs = [_var(rng, 'y', rng.choice(orders), sizes, ids, pat), _var(rng, 'xv', rng.choice(orders), sizes, ids, rng.choice(['full', 'nan']))]
    call = {'x': 'xv', 'y': 'y', 'z': None, 'c': None, 'y_err': None, 'x_err': None, 'row': None, 'col': None}
    if rng.random() < 0.7:
        vs.append(_var(rng, 'cv', rng.choice(orders), sizes, ids, rng.choice(['full', 'full', 'nan', 'inf']))); call['c'] = 'cv'
    if len({tuple(v['dims']) for v in vs}) == 1: vs[1]['dims'] = list(reversed(vs[0]['dims']))
    desc = {'dims': dd, 'vars': vs, 'off': rng.randrange(509)}
    opts = gen_opts(rng, 'scatter', False, True, call['c'] is not None, 1, False, crange=_crange(desc, 'cv') if call['c'] else None)
    if call['c'] and not any(x >= 0 for x in vs[-1]['cells']): opts.pop('colormap_log', None)
    return {'kind': 'scatter', 'auto': False, 'ds': desc, 'call': call, 'opts': opts}


def cases(ctx):
    rng = ctx.rng
    out = boundary(rng)
    for _ in range(12 if ctx.tier == 'quick' else 80):
        out.append(gen_xy_transposed(rng, 'scatter'))
        out.append(gen_xy_transposed(rng, 'lineplot'))
        out.append(gen_scatter_free2d(rng))
    n = 520 if ctx.tier == 'quick' else 5200
    for i in range(n):
        r = rng.random()
        if r < 0.38: c = gen_xy(rng, 'lineplot', big=rng.random() < 0.04)
        elif r < 0.60: c = gen_xy(rng, 'scatter', big=rng.random() < 0.03)
        elif r < 0.76: c = gen_hist(rng)
        elif r < 0.90: c = gen_heat(rng)
        else: c = gen_auto(rng, rng.choice(['lineplot', 'scatter', 'histogram', 'heatmap']))
        out.append(c)
    for c in out:
        ctx.count('kind', ('auto_' if c['auto'] else '') + c['kind'])
        ctx.count('grid', ('row' if c['call'].get('row') else '') + ('col' if c['call'].get('col') else '') or 'single')
        ctx.count('ndims', len(c['ds']['dims']))
        ctx.count('colour', 'c' if c['call'].get('c') else 'colors=True' if c['opts'].get('colors') is True else 'list' if c['opts'].get('colors') else 'default')
        cells = [x for v in c['ds']['vars'] for x in v['cells']]
        ctx.count('cells', 'inf' if any(x < -1 for x in cells) else 'nan' if any(x == -1 for x in cells) else 'finite')
        for k, v in input_classes(c).items(): ctx.count(k, v)
        if not valid_call(c): raise RuntimeError('generator produced colour limits with an empty interval: ' + json.dumps(c['opts']))
    return out


def input_classes(c):
    """the input dimensions added for the carried variables and the colour limits (recorded in the evidence)"""
    out = {}
    call, opts = c['call'], c['opts']
    if c['kind'] in XY_KINDS and not c['auto'] and not isinstance(call['y'], list):
        series = [s for p in expected(c) for s in p['series']]
        for arg, key in (('y_err', 'ye'), ('x_err', 'xe'), ('c', 'c')):
            if not call.get(arg) or (key == 'c' and c['kind'] != 'scatter'): continue
            vals = [t for s in series for t in s.get(key, [])]
            out['carried ' + arg] = ('NaN/inf at a drawn point' if any(not isinstance(t, int) for t in vals) else
                                     'finite at every drawn point' if vals else 'no drawn point')
    mapped = c['kind'] == 'heatmap' or opts.get('colors') is True or bool(call.get('c'))
    if mapped:
        coo = call['z'] if c['kind'] == 'heatmap' else (call.get('c') or call.get('z'))
        cr = _crange(c['ds'], coo) if coo else None
        if 'zlims' in opts and c['kind'] != 'heatmap': cr = tuple(opts['zlims'])
        out['colour limits'] = f"vmin {limit_class(opts.get('vmin'), cr)}, vmax {limit_class(opts.get('vmax'), cr)}"
        out['colour limits of'] = ('heatmap' if c['kind'] == 'heatmap' else c['kind'] + (' c=' if call.get('c') else ' colors=True')) + \
            (': given' if ('vmin' in opts or 'vmax' in opts) else ': data range')
    return out


def search_cases(ctx):
    return cases(ctx)


def shrink_candidates(c):
    """smaller variants of a failing case: drop options one at a time (as long as the call stays a valid one)"""
    for k in list(c['opts']):
        d = copy.deepcopy(c); del d['opts'][k]
        if valid_call(d): yield d


def valid_call(c):
    """explicit colour limits must leave a non-empty interval (given limit, else the end of the finite data range):
    anything else is refused by matplotlib's Normalize and is not a plot the property speaks about"""
    opts, call = c['opts'], c['call']
    if opts.get('vmin') is None and opts.get('vmax') is None: return True
    if not (c['kind'] == 'heatmap' or opts.get('colors') is True or call.get('c')): return True      # limits unused
    if c['kind'] != 'heatmap' and not (call.get('c') or call.get('z')): return True
    _, lo, hi = _norm(c, DS(c['ds']))
    return bool(lo < hi)


# ====================================================================== real run

def _call_args(c, ds):
    """(function, args, kwargs) for the real API"""
    import xyzpy as xyz
    call, kind, opts = c['call'], c['kind'], dict(c['opts'])
    if 'zlims' in opts: opts['zlims'] = tuple(opts['zlims'])
    opts['return_fig'] = True
    kw = dict(opts)
    if call.get('row'): kw['row'] = call['row']
    if call.get('col'): kw['col'] = call['col']
    tup = lambda v: tuple(v) if isinstance(v, list) else v
    if c['auto']:
        D = DS(c['ds'])
        arr = lambda name: np.array([plotds.cell_float(x, D.off) for x in D.vars[name]['cells']], dtype=float).reshape(
            [D.size[d] for d in D.vars[name]['dims']])
        if kind in XY_KINDS:
            x = np.array(D.coords['x'], dtype=float)
            return getattr(xyz, 'auto_' + kind), [x, arr('y')], kw, [x, ]
        if kind == 'histogram':
            return xyz.auto_histogram, [arr('x')], kw, []
        return xyz.auto_heatmap, [arr('x')], kw, []
    if kind in XY_KINDS:
        for k in ('c', 'y_err', 'x_err'):
            if call.get(k): kw[k] = call[k]
        f = ds.xyz.lineplot if kind == 'lineplot' else ds.xyz.scatter
        return f, [call['x'], tup(call['y'])] + ([call['z']] if call['z'] else []), kw, []
    if kind == 'histogram':
        if call['z']: kw['z'] = call['z']
        return ds.xyz.histogram, [tup(call['x'])], kw, []
    return ds.xyz.heatmap, [call['x'], call['y'], call['z']], kw, []


def _fl(v):
    """JSON-able float: finite floats as they are, nan/inf as strings, None stays None"""
    if v is None: return None
    v = float(v)
    return 'nan' if math.isnan(v) else ('inf' if v > 0 else '-inf') if math.isinf(v) else v


def _bar_axes(cols, call):
    """which error-bar collection of an ErrorbarContainer holds the y errors ('y': vertical bars) and which the x errors
    ('x'): by geometry; a collection without a single drawn bar (every error NaN/inf) by elimination, else by what the
    call asked for, else in matplotlib's order (x bars are added before y bars)"""
    kinds = []
    for col in cols:
        full = [sg for sg in col.get_segments() if len(sg) >= 2]
        vert = bool(full) and all(float(sg[0][0]) == float(sg[1][0]) for sg in full)
        horiz = bool(full) and all(float(sg[0][1]) == float(sg[1][1]) for sg in full)
        kinds.append('y' if vert and not horiz else 'x' if horiz and not vert else '?')
    want = [a for a, key in (('x', 'x_err'), ('y', 'y_err')) if call.get(key)]
    if len(kinds) == 1 and kinds[0] == '?': kinds = [want[0] if len(want) == 1 else 'y']
    if len(kinds) == 2:
        other = {'x': 'y', 'y': 'x'}
        if kinds[0] == '?' and kinds[1] != '?': kinds[0] = other[kinds[1]]
        elif kinds[1] == '?' and kinds[0] != '?': kinds[1] = other[kinds[0]]
        elif kinds == ['?', '?']: kinds = ['x', 'y']
    return kinds


def _series_from_axes(ax, D, kind, call):
    from matplotlib.collections import PathCollection, QuadMesh, LineCollection
    from matplotlib.patches import Polygon
    from matplotlib.container import ErrorbarContainer
    out = []
    if kind == 'lineplot':
        conts = [k for k in ax.containers if isinstance(k, ErrorbarContainer)]
        helper = set()
        for k in conts:
            for cap in k.lines[1]: helper.add(id(cap))
        cont_of = {id(k.lines[0]): k for k in conts if k.lines[0] is not None}
        for ln in ax.get_lines():
            if id(ln) in helper: continue
            if ln.get_gid() == 'span': continue
            k = cont_of.get(id(ln))
            lab = k.get_label() if k is not None else ln.get_label()
            s = {'label': None if (lab is None or str(lab).startswith('_')) else str(lab),
                 'x': D.decode_arr(ln.get_xdata(orig=True)), 'y': D.decode_arr(ln.get_ydata(orig=True)),
                 'color': plotds.rgba(ln.get_color()), 'marker': str(ln.get_marker()), 'ls': str(ln.get_linestyle()),
                 'lw': float(ln.get_linewidth())}
            if k is not None:
                xs, ys = np.asarray(ln.get_xdata(orig=True), float), np.asarray(ln.get_ydata(orig=True), float)
                cols = list(k.lines[2])
                for col, bar in zip(cols, _bar_axes(cols, call)):
                    segs = col.get_segments()
                    if len(segs) != len(xs):
                        s['bars_bad'] = f'{len(segs)} error bars for {len(xs)} points'; continue
                    # a bar whose length is NaN/inf is held as an empty segment (nothing is drawn for it): 'nan'
                    half = lambda sg, ax: D.decode((sg[1][ax] - sg[0][ax]) / 2) if len(sg) >= 2 else 'nan'
                    at = lambda sg, ax: D.decode(sg[0][ax]) if len(sg) >= 2 else 'nan'
                    if bar == 'y':
                        s['ye'] = [half(sg, 1) for sg in segs]
                        s['ye_at'] = [at(sg, 0) for sg in segs]
                    else:
                        s['xe'] = [half(sg, 0) for sg in segs]
                        s['xe_at'] = [at(sg, 1) for sg in segs]
            out.append(s)
    elif kind == 'scatter':
        for pc in ax.collections:
            if not isinstance(pc, PathCollection): continue
            # the points the collection was given; matplotlib masks (does not render) a point whose colour value is
            # NaN/inf - the colour map has no colour for it - but keeps its position under the mask: 'hidden'
            offs = pc.get_offsets()
            off = np.asarray(np.ma.getdata(offs), float).reshape(-1, 2)
            lab = pc.get_label()
            s = {'label': None if (lab is None or str(lab).startswith('_')) else str(lab),
                 'x': D.decode_arr(off[:, 0]) if len(off) else [], 'y': D.decode_arr(off[:, 1]) if len(off) else [],
                 'hidden': [bool(m) for m in np.ma.getmaskarray(offs).reshape(-1, 2).any(axis=1)]}
            arr = pc.get_array()
            if arr is not None:
                s['c'] = D.decode_arr(np.ma.getdata(arr))
                s['vmin'], s['vmax'], s['norm'] = _fl(pc.norm.vmin), _fl(pc.norm.vmax), type(pc.norm).__name__
                pc.update_scalarmappable()
            s['colors'] = [plotds.rgba(tuple(fc)) for fc in pc.get_facecolors()]
            out.append(s)
    elif kind == 'histogram':
        polys = [p for p in ax.patches if isinstance(p, Polygon)]
        for p in reversed(polys):      # Axes.hist adds step-filled polygons in reverse data order
            xy = np.asarray(p.get_xy(), float)
            lab = p.get_label()
            nb = (len(xy) - 1) // 4    # 4 * (nb + 1) - 3 vertices + closing vertex
            edges = [float(v) for v in xy[0:2 * nb + 2:2, 0]]
            heights = [float(v) for v in xy[1:2 * nb + 1:2, 1]]
            out.append({'label': None if (lab is None or str(lab).startswith('_')) else str(lab), 'edges': edges,
                        'heights': ['nan' if math.isnan(h) else h for h in heights],
                        'ec': plotds.rgba(p.get_edgecolor()), 'fc': plotds.rgba(p.get_facecolor())})
    return out


def run_real(c, ctx):
    import warnings, logging
    import matplotlib
    import matplotlib.pyplot as plt
    from matplotlib.collections import QuadMesh
    logging.getLogger('matplotlib.font_manager').setLevel(logging.ERROR)
    D = DS(c['ds'])
    ds = None if c['auto'] else D.to_xarray()
    before = None if ds is None else ds.copy(deep=True)
    f, args, kw, _ = _call_args(c, ds)
    args_before = [np.array(a, copy=True) for a in args] if c['auto'] else None
    plt.close('all')
    matplotlib.rcdefaults()
    try:
        try:
            with warnings.catch_warnings():
                warnings.simplefilter('ignore')
                with np.errstate(all='ignore'):
                    fig = f(*args, **kw)
        except Exception as e:
            return {'err': type(e).__name__, 'msg': str(e)[:160]}
        obs = {'panels': [], 'colorbar': False}
        for ax in fig.axes:
            if plotds.is_colorbar(ax):
                obs['colorbar'] = True; continue
            p = {'pos': list(plotds.grid_pos(ax)), 'title': ax.get_title(), 'ylabel': ax.get_ylabel(), 'xlabel': ax.get_xlabel(),
                 'series': _series_from_axes(ax, D, c['kind'], c['call'])}
            lg = ax.get_legend()
            p['legend'] = None if lg is None else [t.get_text() for t in lg.get_texts()]
            if c['kind'] == 'heatmap':
                qms = [q for q in ax.collections if isinstance(q, QuadMesh)]
                p['meshes'] = []
                for q in qms:
                    a = q.get_array()
                    shape = list(np.shape(a))
                    mask = np.ma.getmaskarray(a).ravel().tolist()
                    vals = D.decode_arr(np.ma.getdata(a))
                    cells = ['m' if m else v for m, v in zip(mask, vals)]
                    co = np.asarray(q.get_coordinates(), float)
                    p['meshes'].append({'shape': shape, 'cells': cells, 'xe': [float(v) for v in co[0, :, 0]],
                                        'ye': [float(v) for v in co[:, 0, 1]], 'cmap': q.get_cmap().name,
                                        'vmin': _fl(q.norm.vmin), 'vmax': _fl(q.norm.vmax),
                                        'norm': type(q.norm).__name__})
            obs['panels'].append(p)
        obs['fig_legend'] = [t.get_text() for t in fig.legends[0].get_texts()] if fig.legends else None
        if c['auto']:
            obs['identical'] = all(np.array_equal(a, b, equal_nan=True) for a, b in zip(args, args_before))
        else:
            obs['identical'] = bool(ds.identical(before))
        return obs
    finally:
        plt.close('all')


# ====================================================================== reference evaluator (independent oracle)

def _panels(D, call):
    row, col = call.get('row'), call.get('col')
    rs = range(D.size[row]) if row else [None]
    cs = range(D.size[col]) if col else [None]
    ncols = len(list(cs))
    for i, r in enumerate(rs):
        for j, k in enumerate(cs):
            fixed = {}
            if row: fixed[row] = r
            if col: fixed[col] = k
            title = f'{col} = {prettify(D.coords[col][j])}' if (col and i == 0) else ''
            rlabel = f'{row} = {prettify(D.coords[row][i])}' if (row and j == ncols - 1) else None
            yield i, j, fixed, title, rlabel


def _xy_series(D, c, fixed):
    call, kind = c['call'], c['kind']
    out = []

    def one(xn, yn, fx, lab, extra):
        names = [xn, yn] + [n for _, n in extra]
        bd = plotds.bdims(D, names, fx)
        fl = {n: plotds.flat(D, n, bd, fx) for n in names}
        keep = [k for k in range(len(fl[xn])) if finite(fl[xn][k]) and finite(fl[yn][k])]
        s = {'label': lab, 'x': [tok_out(fl[xn][k]) for k in keep], 'y': [tok_out(fl[yn][k]) for k in keep]}
        for key, n in extra:
            s[key] = [tok_out(fl[n][k]) for k in keep]
        return s
    if isinstance(call['y'], list):
        for yn in call['y']:
            out.append(one(call['x'], yn, fixed, yn, []))
        return out
    extra = []
    if kind == 'scatter' and call.get('c'): extra.append(('c', call['c']))
    if call.get('y_err'): extra.append(('ye', call['y_err']))
    if call.get('x_err'): extra.append(('xe', call['x_err']))
    if call['z']:
        z = call['z']
        for zi in range(D.size[z]):
            fx = {**fixed, z: zi}
            s = one(call['x'], call['y'], fx, label(D.coords[z][zi]), extra)
            if kind == 'lineplot' and call.get('c'):
                cd = [d for d in D.var_dims(call['c']) if d not in fx]
                vals = plotds.flat(D, call['c'], cd, fx)
                s['q'] = tok_out(vals[0]) if len(vals) == 1 else '?'
            out.append(s)
    else:
        out.append(one(call['x'], call['y'], fixed, None, extra))
    return out


def _hist_series(D, c, fixed):
    call = c['call']
    out = []
    if isinstance(call['x'], list):
        for n in call['x']:
            bd = [d for d in D.var_dims(n) if d not in fixed]
            out.append({'label': n, 'v': [tok_out(t) for t in plotds.flat(D, n, bd, fixed) if finite(t)]})
    elif call['z']:
        z = call['z']
        for zi in range(D.size[z]):
            fx = {**fixed, z: zi}
            bd = [d for d in D.var_dims(call['x']) if d not in fx]
            out.append({'label': label(D.coords[z][zi]), 'v': [tok_out(t) for t in plotds.flat(D, call['x'], bd, fx) if finite(t)]})
    else:
        bd = [d for d in D.var_dims(call['x']) if d not in fixed]
        out.append({'label': None, 'v': [tok_out(t) for t in plotds.flat(D, call['x'], bd, fixed) if finite(t)]})
    return out


def _heat_mesh(D, c, fixed):
    call = c['call']
    x, y, z = call['x'], call['y'], call['z']
    rows = []
    for j in range(D.size[y]):
        row = []
        for i in range(D.size[x]):
            env = {d: 0 for d in D.var_dims(z)}
            env.update(fixed); env[x] = i; env[y] = j
            t = D.at(z, env)
            row.append(tok_out(t) if finite(t) else 'm')
        rows.append(row)
    return rows


def expected(c):
    D = DS(c['ds'])
    out = []
    for i, j, fixed, title, rlabel in _panels(D, c['call']):
        p = {'pos': [i, j], 'title': title, 'rlabel': rlabel}
        if c['kind'] in XY_KINDS: p['series'] = _xy_series(D, c, fixed)
        elif c['kind'] == 'histogram': p['series'] = _hist_series(D, c, fixed)
        else: p['mesh'] = _heat_mesh(D, c, fixed)
        out.append(p)
    return out


# ---------------------------------------------------------------------- colours

def _cmap(opts, kind):
    from xyzpy.plot.color import xyz_colormaps
    import matplotlib
    name = opts.get('colormap', 'inferno' if kind == 'heatmap' else None)
    if name in ('viridis', 'plasma', 'inferno'):
        return matplotlib.colormaps[name + ('_r' if opts.get('colormap_reverse') else '')]
    return xyz_colormaps(name, reverse=bool(opts.get('colormap_reverse')))


def _norm(c, D):
    """the plot's colour normalisation: explicit limits if given, else min/max of the quantity over the whole dataset"""
    import matplotlib.colors as mc
    call, opts = c['call'], c['opts']
    coo = call.get('c') or call.get('z')
    if c['kind'] == 'heatmap': coo = call['z']
    if D.is_coord(coo):
        vals = D.coords[coo]
        if not all(plotds.is_num(v) for v in vals):
            lo, hi = 0.0, 1.0
        else:
            lo, hi = float(min(vals)), float(max(vals))
    else:
        fl = [plotds.cell_float(t, D.off) for t in D.vars[coo]['cells'] if finite(t)]     # NaN / inf entries set no limit
        lo, hi = (float(min(fl)), float(max(fl))) if fl else (math.nan, math.nan)
    zl = opts.get('zlims', (None, None))
    if c['kind'] != 'heatmap':
        if zl[0] is not None: lo = zl[0]
        if zl[1] is not None: hi = zl[1]
    if opts.get('vmin') is not None: lo = opts['vmin']
    if opts.get('vmax') is not None: hi = opts['vmax']
    return (mc.LogNorm if opts.get('colormap_log') else mc.Normalize)(vmin=lo, vmax=hi), lo, hi


def _degenerate(c, D):
    """a colour scale with a single value (or none): matplotlib widens it when a colour bar is attached; which colour the
    single value gets is not constrained by the property"""
    _, lo, hi = _norm(c, D)
    return not (lo < hi)


def _qval(D, tok):
    """float of a value token in either vocabulary (cell code / decoded)"""
    if tok in (PINF, 'inf'): return math.inf
    if tok in (NINF, '-inf'): return -math.inf
    return D.tokval.get(tok, math.nan) if isinstance(tok, int) and tok >= 0 else math.nan


def expected_line_colours(c, D, exp_series):
    """None if the colours of this call are not colour-mapped; else list of RGBA"""
    call, opts = c['call'], c['opts']
    if not (opts.get('colors') is True or (c['kind'] == 'lineplot' and call.get('c'))): return None
    if c['kind'] == 'scatter' and call.get('c'): return None
    if _degenerate(c, D): return None
    cm = _cmap(opts, c['kind'])
    norm, _, _ = _norm(c, D)
    n = len(exp_series)
    if call.get('c'):
        qs = [_qval(D, s['q']) for s in exp_series]
        return [plotds.rgba(cm(norm(q))) for q in qs]
    z = call['z']
    vals = D.coords[z]
    if all(plotds.is_num(v) for v in vals):
        return [plotds.rgba(cm(norm(float(v)))) for v in vals]
    return [plotds.rgba(cm(r)) for r in np.linspace(0, 1, n)]


# ====================================================================== the property on the real observation

def _cmp_series(kind, got, want, where):
    if len(got) != len(want):
        return f'{where}: {len(got)} series drawn, the data has {len(want)} (one per z value / variable)'
    for k, (g, w) in enumerate(zip(got, want)):
        if g.get('label') != w['label'] and not (w['label'] is None and g.get('label') == 'None'):
            return f'{where}: series {k} is labelled {g.get("label")!r}, should be {w["label"]!r}'
        if kind in XY_KINDS:
            if 'bars_bad' in g: return f'{where}: series {k}: {g["bars_bad"]}'
            if g['x'] != w['x'] or g['y'] != w['y']:
                return (f'{where}: series {k} ({w["label"]}) draws points x={g["x"]} y={g["y"]} but the finite (x, y) pairs of '
                        f'the data are x={w["x"]} y={w["y"]}')
            if kind == 'scatter':
                if 'c' in w and g.get('c') != w['c']:
                    return f'{where}: series {k}: c values held {g.get("c")} but the data at the drawn points has {w["c"]}'
                # every point is shown, except that a point has no colour (and is not rendered) where c is NaN/inf
                hid = [not isinstance(t, int) for t in w['c']] if 'c' in w else [False] * len(w['x'])
                if g.get('hidden', hid) != hid:
                    return (f'{where}: series {k}: points hidden (masked) {g["hidden"]}, but only those with a non-finite colour '
                            f'value may be: {hid}')
                continue
            for key, at, pos, axis in (('ye', 'ye_at', 'x', 'y'), ('xe', 'xe_at', 'y', 'x')):
                if key not in w: continue
                # the bar of a drawn point has the length the error variable holds there; no bar where that is NaN/inf
                bars = [t if isinstance(t, int) else 'nan' for t in w[key]]
                if g.get(key) != bars:
                    return (f'{where}: series {k}: {axis} error bars drawn {g.get(key)} but the error variable at the drawn points '
                            f'holds {w[key]}')
                sit = [p if isinstance(t, int) else 'nan' for p, t in zip(w[pos], w[key])]
                if g.get(at) != sit:
                    return f'{where}: series {k}: {axis} error bars sit at {pos}={g.get(at)}, the points are at {sit}'
    return None


def _hist_check(D, got, want, where):
    vals = [[D.tokval[t] for t in s['v']] for s in want]
    allv = [v for vs in vals for v in vs]
    for k, (g, vs) in enumerate(zip(got, vals)):
        e, h = g['edges'], g['heights']
        if not vs:
            if any(x != 'nan' and x != 0 for x in h): return f'{where}: series {k} has no finite value but a histogram was drawn: {h}'
            continue
        if any(x == 'nan' for x in h): return f'{where}: series {k}: undefined bar heights {h} although it has {len(vs)} finite values'
        if not all(e[i] < e[i + 1] for i in range(len(e) - 1)): return f'{where}: bin edges not increasing: {e}'
        if allv and (e[0] > min(allv) or e[-1] < max(allv)): return f'{where}: bins {e[0]}..{e[-1]} do not cover the data {min(allv)}..{max(allv)}'
        n = len(vs)
        for b in range(len(e) - 1):
            last = b == len(e) - 2
            cnt = sum(1 for v in vs if (e[b] <= v < e[b + 1]) or (last and v == e[b + 1]))
            dens = cnt / (n * (e[b + 1] - e[b]))
            if abs(dens - h[b]) > 1e-9 * max(1.0, abs(dens)):
                return (f'{where}: series {k} bin [{e[b]}, {e[b + 1]}): drawn density {h[b]} but {cnt} of the {n} finite values '
                        f'fall in it (density {dens})')
    return None


def oracle(c, obs):
    if 'harness_exc' in obs: return None
    if not valid_call(c): return None
    if 'err' in obs:
        return f'{("auto_" if c["auto"] else "") + c["kind"]} raised {obs["err"]}: {obs.get("msg")} for a valid call'
    if not obs['identical']:
        return 'the dataset (or input array) passed in was modified by the plotting call'
    D = DS(c['ds'])
    want = expected(c)
    got = {tuple(p['pos']): p for p in obs['panels']}
    if len(got) != len(obs['panels']): return 'two panels at the same grid position'
    if sorted(got) != sorted(tuple(p['pos']) for p in want):
        return f'panels at {sorted(got)}, expected {sorted(tuple(p["pos"]) for p in want)}'
    kind = c['kind']
    grid_call = bool(c['call'].get('row') or c['call'].get('col'))
    for w in want:
        g = got[tuple(w['pos'])]
        where = f'panel {w["pos"]}'
        if c['call'].get('row') or c['call'].get('col'):
            if g['title'] != w['title']: return f'{where}: title {g["title"]!r}, expected {w["title"]!r}'
            if w['rlabel'] is not None and g['ylabel'] != w['rlabel']:
                return f'{where}: row label {g["ylabel"]!r}, expected {w["rlabel"]!r}'
        if kind == 'heatmap':
            if len(g['meshes']) != 1: return f'{where}: {len(g["meshes"])} meshes drawn'
            m = g['meshes'][0]
            ny, nx = len(w['mesh']), len(w['mesh'][0])
            if m['shape'] != [ny, nx]: return f'{where}: mesh of shape {m["shape"]}, the data is {ny} (y) x {nx} (x)'
            flatw = [t for r in w['mesh'] for t in r]
            if m['cells'] != flatw: return f'{where}: mesh cells {m["cells"]} but z on the (y, x) mesh is {flatw}'
            for edges, dim in ((m['xe'], c['call']['x']), (m['ye'], c['call']['y'])):
                cs = [float(v) for v in D.coords[dim]]
                if len(edges) != len(cs) + 1: return f'{where}: {len(edges)} mesh edges along {dim} for {len(cs)} coordinates'
                mids = [(edges[i] + edges[i + 1]) / 2 for i in range(len(cs))]
                if any(abs(a - b) > 1e-9 * max(1, abs(b)) for a, b in zip(mids, cs)):
                    return f'{where}: cells along {dim} are centred at {mids}, coordinates are {cs}'
            norm, lo, hi = _norm(c, D)
            if not (math.isnan(lo) or lo == hi or (_fl(lo) == m['vmin'] and _fl(hi) == m['vmax'])):
                return (f'{where}: colour limits {m["vmin"]}..{m["vmax"]}, they should be {lo}..{hi} (vmin/vmax as given, else the '
                        f'finite range of z)')
            if m['norm'] != type(norm).__name__: return f'{where}: norm {m["norm"]}'
            if m['cmap'] != _cmap(c['opts'], kind).name: return f'{where}: colour map {m["cmap"]}, chosen {_cmap(c["opts"], kind).name}'
            continue
        r = _cmp_series(kind, g['series'], w['series'], where)
        if r: return r
        if kind == 'histogram':
            r = _hist_check(D, g['series'], w['series'], where)
            if r: return r
        # colours
        cols = expected_line_colours(c, D, w['series'])
        if cols is not None:
            for k, (s, col) in enumerate(zip(g['series'], cols)):
                have = s['ec'] if kind == 'histogram' else (s['colors'][0] if kind == 'scatter' and s['colors'] else s.get('color'))
                if kind == 'scatter' and not s['colors']: continue
                if not plotds.same_rgba(have, col):
                    return (f'{where}: series {k} has colour {have}, the colour map at the normalised value of its '
                            f'{"c variable" if c["call"].get("c") else "z coordinate"} is {col}')
        if kind == 'scatter' and c['call'].get('c') and not _degenerate(c, D):
            cm = _cmap(c['opts'], kind)
            norm, lo, hi = _norm(c, D)
            for k, (s, ws) in enumerate(zip(g['series'], w['series'])):
                if (s.get('vmin'), s.get('vmax')) != (_fl(lo), _fl(hi)):
                    return (f'{where}: series {k}: colours normalised on {s.get("vmin")}..{s.get("vmax")}, the limits are {lo}..{hi} '
                            f'(vmin/vmax as given, else the finite range of c)')
                if s.get('norm') != type(norm).__name__: return f'{where}: series {k}: norm {s.get("norm")}'
                exp = [plotds.rgba(cm(norm(_qval(D, t)))) for t in ws['c']]
                vis = [i for i, t in enumerate(ws['c']) if isinstance(t, int)]
                if len(s['colors']) != len(exp) or any(not plotds.same_rgba(s['colors'][i], exp[i]) for i in vis):
                    return (f'{where}: series {k}: point colours {s["colors"][:3]}… are not the colour map at the normalised c '
                            f'values {exp[:3]}… (norm {norm.vmin}..{norm.vmax})')
        lst = c['opts'].get('colors')
        if isinstance(lst, list) and kind == 'lineplot':
            import matplotlib.colors as mc
            for k, s in enumerate(g['series']):
                if not plotds.same_rgba(s['color'], plotds.rgba(lst[k % len(lst)])):
                    return f'{where}: series {k} colour {s["color"]}, requested {lst[k % len(lst)]}'
        if kind == 'lineplot':
            mk = c['opts'].get('markers')
            if isinstance(mk, list):
                for k, s in enumerate(g['series']):
                    if s['marker'] != mk[k % len(mk)]: return f'{where}: series {k} marker {s["marker"]}, requested {mk[k % len(mk)]}'
        lg = g['legend']
        if ('legend' not in c['opts'] and 'colorbar' not in c['opts'] and not grid_call and kind != 'heatmap'
                and not c['call'].get('c')):
            n = len(w['series'])
            if (lg is not None) != (1 < n <= 10):
                return f'{where}: {n} series and no legend/colorbar option: legend shown = {lg is not None} (default: legend for 2..10 series)'
            if c['opts'].get('colors') is True and obs['colorbar'] != (not (1 < n <= 10)):
                return f'{where}: {n} colour-mapped series: colour bar shown = {obs["colorbar"]} (default: colour bar instead of a legend beyond 10 series)'
        if lg is not None:
            labs = [s['label'] for s in w['series'] if s['label'] is not None]
            if lg != labs: return f'{where}: legend entries {lg}, series labels {labs}'
    return None


# ====================================================================== Lean model

def model_request(c, obs):
    D = DS(c['ds'])
    call, opts = c['call'], c['opts']
    rq = {'op': c['kind']}
    rq.update(D.request())
    lst = lambda v: v if isinstance(v, list) else [v]
    rq['x'] = lst(call['x'])
    rq['y'] = lst(call['y']) if call.get('y') else []
    rq['multi'] = isinstance(call.get('y'), list) or isinstance(call['x'], list)
    for k in ('z', 'c', 'y_err', 'x_err', 'row', 'col'):
        rq[k] = call.get(k)
    z = call.get('z')
    rq['zstr'] = bool(z and D.is_coord(z) and not all(plotds.is_num(v) for v in D.coords[z]))
    col = opts.get('colors')
    rq['colors'] = 'auto' if col is True else 'list' if col else 'none'
    dflt = {'legend': None, 'colorbar': None}
    if c['kind'] == 'heatmap': dflt = {'legend': False, 'colorbar': True}
    rq['legend'] = opts.get('legend', dflt['legend'])
    rq['colorbar'] = opts.get('colorbar', dflt['colorbar'])
    # colour limits: the model does not compute with floats; all Python can tell about a limit without comparing it with
    # data is whether it was given and whether it is a false number
    for k in ('vmin', 'vmax'):
        rq[k] = None if opts.get(k) is None else {'zero': bool(opts[k] == 0)}
    zl = opts.get('zlims') or (None, None)
    rq['zlims'] = [zl[0] is not None, zl[1] is not None]
    return rq


def _model_norm(c, D, rep):
    """the normalisation the MODEL describes: for each end where the limit comes from (the value given, the zlims
    entry, the finite range of the colour quantity); None when the model leaves an end unset"""
    import matplotlib.colors as mc
    opts = c['opts']
    src = rep.get('limits')
    if not src: return _norm(c, D)
    saved = dict(opts)
    try:
        for k in ('vmin', 'vmax', 'zlims'): opts.pop(k, None)
        _, dlo, dhi = _norm(c, D)                       # finite data range of the colour quantity
    finally:
        opts.clear(); opts.update(saved)
    zl = opts.get('zlims') or (None, None)
    pick = lambda how, given, z, data: {'given': given, 'zlim': z, 'data': data, 'unset': None}[how]
    lo = pick(src[0], opts.get('vmin'), zl[0], dlo)
    hi = pick(src[1], opts.get('vmax'), zl[1], dhi)
    if lo is None or hi is None: return None, lo, hi
    return (mc.LogNorm if opts.get('colormap_log') else mc.Normalize)(vmin=lo, vmax=hi), lo, hi


def _mcell(t):
    return tok_out(t)


def compare(c, obs, rep):
    if 'harness_exc' in obs: return None
    if not valid_call(c): return None
    if 'err' in obs or 'err' in rep:
        return None if ('err' in obs) == ('err' in rep) else f'error mismatch: real {obs.get("err")} model {rep.get("err")}'
    kind = c['kind']
    got = {tuple(p['pos']): p for p in obs['panels']}
    mp = {(p['i'], p['j']): p for p in rep['panels']}
    if sorted(got) != sorted(mp): return f'panel positions: real {sorted(got)} model {sorted(mp)}'
    grid = bool(c['call'].get('row') or c['call'].get('col'))
    for pos, m in mp.items():
        g = got[pos]
        if grid:
            if g['title'] != (m['title'] or ''): return f'panel {pos}: title real {g["title"]!r} model {m["title"]!r}'
            if m['rlabel'] is not None and g['ylabel'] != m['rlabel']: return f'panel {pos}: row label real {g["ylabel"]!r} model {m["rlabel"]!r}'
        if kind == 'heatmap':
            if len(g['meshes']) != 1: return f'panel {pos}: {len(g["meshes"])} meshes'
            want = [[('m' if t < 0 else t) for t in r] for r in m['mesh']]
            if g['meshes'][0]['shape'] != [len(want), len(want[0]) if want else 0] or g['meshes'][0]['cells'] != [t for r in want for t in r]:
                return f'panel {pos}: mesh real {g["meshes"][0]["cells"]} model {want}'
            D = DS(c['ds'])
            _, lo, hi = _model_norm(c, D, rep)
            if lo is None or hi is None: return f'panel {pos}: the model leaves a colour limit unset ({rep.get("limits")})'
            if not (math.isnan(lo) or math.isnan(hi) or lo == hi or (_fl(lo) == g['meshes'][0]['vmin'] and _fl(hi) == g['meshes'][0]['vmax'])):
                return (f'panel {pos}: colour limits real {g["meshes"][0]["vmin"]}..{g["meshes"][0]["vmax"]}, model {lo}..{hi} '
                        f'({rep.get("limits")})')
            continue
        if len(g['series']) != len(m['series']): return f'panel {pos}: {len(g["series"])} series, model {len(m["series"])}'
        for k, (s, ms) in enumerate(zip(g['series'], m['series'])):
            if s.get('label') != ms['label'] and not (ms['label'] is None and s.get('label') == 'None'): return f'panel {pos} series {k}: label real {s.get("label")!r} model {ms["label"]!r}'
            if kind == 'histogram':
                continue
            for key in ('x', 'y') + (('c',) if kind == 'scatter' else ('ye', 'xe')):
                mv = ms.get(key)
                if mv is None: continue
                mv = [_mcell(t) for t in mv]
                if key in ('ye', 'xe'): mv = [t if isinstance(t, int) else 'nan' for t in mv]     # no bar of NaN/inf length
                if s.get(key) != mv:
                    return f'panel {pos} series {k}: {key} real {s.get(key)} model {mv}'
        if kind == 'histogram':
            # the model says which values are binned; the drawn densities must be those of exactly these values
            D = DS(c['ds'])
            r = _hist_check(D, g['series'], [{'v': [t for t in ms['x']]} for ms in m['series']], f'panel {pos} (model values)')
            if r: return r
    # legend / colour bar decision (single panel: Axes legend; grid: figure legend)
    has_leg = (obs['fig_legend'] is not None) if grid else any(p['legend'] is not None for p in obs['panels'])
    labelled = any(s.get('label') is not None for p in rep['panels'] for s in p.get('series', []))
    if kind != 'heatmap' and labelled and bool(rep['legend']) != has_leg:
        return f'legend shown: real {has_leg} model {rep["legend"]}'
    if bool(rep['colorbar']) != obs['colorbar']:
        return f'colour bar shown: real {obs["colorbar"]} model {rep["colorbar"]}'
    # which quantity drives the colour of each series
    if kind != 'heatmap' and rep.get('coloured') and not _degenerate(c, DS(c['ds'])):
        D = DS(c['ds'])
        cm = _cmap(c['opts'], kind)
        norm, lo, hi = _model_norm(c, D, rep)
        if norm is None: return f'the model leaves a colour limit unset ({rep.get("limits")})'
        if not lo < hi: return None
        for pos, m in mp.items():
            for k, (s, ms) in enumerate(zip(got[pos]['series'], m['series'])):
                if kind == 'scatter' and 'vmin' in s and (s['vmin'], s['vmax']) != (_fl(lo), _fl(hi)):
                    return f'panel {pos} series {k}: colour limits real {s["vmin"]}..{s["vmax"]}, model {lo}..{hi} ({rep.get("limits")})'
                q = ms.get('q')
                if q is None: continue
                if 'lin' in q:
                    num, den = q['lin']
                    r = 0.0 if den == 0 else num / den
                    col = plotds.rgba(cm(r))
                else:
                    col = plotds.rgba(cm(norm(_qval(D, q['id']))))
                have = s['ec'] if kind == 'histogram' else (s['colors'][0] if kind == 'scatter' and s['colors'] else s.get('color'))
                if kind == 'scatter' and not s['colors']: continue
                if not plotds.same_rgba(have, col): return f'panel {pos} series {k}: colour real {have}, cmap(norm(model q={q})) = {col}'
    return None


def finding_key(c, obs):
    if 'err' in obs:
        m = obs.get('msg', '')
        if 'asscalar' in m: return 'D10-asscalar'
        if 'steal space for Colorbar' in m: return 'D11-colorbar-needs-axes'
    return None
