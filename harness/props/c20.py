"""C20 — a number formatted with its error reads back as that number and that error.

real:   xyzpy.utils.format_number_with_error(x, err)  -> string (or an exception, which is an observation)
model:  Lean `Fmt.format` on the exact rationals of x, err, of the two scaled floats and the float comparison
oracle: an independent *reader* of the string (bracketed digits = uncertainty in units of the last shown digit,
        times the shown power of ten), exact `fractions.Fraction` arithmetic on the float inputs.
"""
import math, re, sys
from fractions import Fraction as F

PROP = 'C20'
LEAN_MODULES = ['XyzProofs.Props.C20', 'XyzProofs.Lemmas.FmtTotal', 'XyzProofs.Refine.Fmt', 'XyzProofs.Props.C20Src']
THEOREMS = ['Fmt.c20_round_spec', 'Fmt.c20_sci_spec', 'Fmt.c20_fixed_spec', 'Fmt.c20_E_le_one',
            'Fmt.c20_uncertainty', 'Fmt.c20_value', 'Fmt.c20_reads_back', 'Fmt.c20_sci_total', 'Fmt.c20_floorLog10',
            'Fmt.c20_format_total',
            # the hand-written model is the function body translated from the source (harness/anchors_numfn.py) ...
            'Fmt.format_refines',
            # ... and the property statements on the translated source
            'Fmt.c20_src_total', 'Fmt.c20_src_reads_back', 'Fmt.c20_src_suffix']
ANCHORS = ['fmtExp', 'fmtHide', 'fmtDigits', 'fmtNumberWithError']
PARTIAL = {}
RULE = ("each case = one (x, err) pair of binary64 floats: x of either sign with |x| in [1e-300, 1e300] or 0, err > 0 finite "
        "with err/|x| in [1e-12, 1e12] (for x = 0: any positive finite err); a deterministic boundary suite first (the D13 zone "
        "x in (99.5, 100) with err in [9.95, x/10); err mantissa 9.94..10.0 at every decade; x within 1e-7 of a power of ten; "
        "err/|x| next to 0.1 and 1 incl. adjacent floats; decimal ties; zeros; the extremes of the range), then seeded random "
        "cases, half of them aimed at the same boundaries; the real string is diffed with the Lean model's rendering, the "
        "independent reader's (value, uncertainty) with the model's `denote`, and the reader checks the property itself; "
        "non-trivial = x != 0 and err/|x| within [1e-12, 1e12]; distinct by the pair (x, err)")
EXHAUSTIVE = {'quick': False, 'thorough': False}
TRUSTED = ["harness/pynum2lean.py + anchors_numfn.py: that the translated body of format_number_with_error means in Lean what the Python "
           "means, with floats opaque and `f\"{v:.Ne}\".split(\"e\")`, `int(<exponent text>)`, `<mantissa>.replace(\".\", \"\")`, `a < abs(b / n)`, "
           "`v / 10**a / 10**b` and the parts of the returned f-string as named abstract operations; their instantiation with the "
           "model's primitives is XyzProofs/Refine/Fmt.lean (`Fmt.Src`)",
           "the harness repeats the two float operations of the function (`v / 10**head / 10**(k - head)`, `err < abs(x / 10)`) "
           "to hand the model the exact rationals of the scaled floats; Python's float<->Fraction conversions are exact",
           "the independent reader (regular expression + Fraction arithmetic) and its explicit float-division slack"]
ASSUMPTIONS = ["floating point is not reasoned about in Lean: the theorems are about exact rationals and take the scaled floats as "
               "data with the hypothesis |x' - x/10^k| <= tau*|x/10^k| (tau = 2^-51; 2^-40 where 10**k is a subnormal float), "
               "checked by the model on every sample",
               "`sci` in the model checks its own result and returns none otherwise; that none never occurs is confirmed on every sample"]

_CTX = None
FMAX = sys.float_info.max


# ----------------------------------------------------------------------------- float helpers

def _kexp(v):
    return int(f"{v:e}".split("e")[1])


def harness_k(x, err):
    """the decimal exponent the (unchanged) rule of the function gives; same expression as the source"""
    return max(_kexp(x), _kexp(err) + 1)


def scaled(v, k):
    """the float the function computes for v / 10**k (two steps only where 10**k itself is not a float)"""
    head = min(k, 308)
    return v / 10 ** head / 10 ** (k - head)


def rat(v):
    a, b = abs(v).as_integer_ratio()
    return [a, b]


def fr(p):
    return F(int(p[0]), int(p[1]))


# ----------------------------------------------------------------------------- generators

def _in_domain(x, err):
    if not (math.isfinite(x) and math.isfinite(err) and err > 0): return False
    if x == 0: return True                      # any positive finite error for a zero value
    if not 1e-300 <= abs(x) <= 1e300: return False
    r = err / abs(x)
    return math.isfinite(r) and 1e-12 <= r <= 1e12


def boundary_suite():
    out = []
    add = lambda x, e, tag: out.append({'x': float(x), 'err': float(e), 'g': tag})
    # D13 zone: hidden exponent with a two-digit error mantissa that rounds to 10
    for x in (99.9, 99.6, 99.51, 99.99, 99.9999, 99.999999, -99.9, -99.75):
        for e in (9.96, 9.95, 9.9500000001, 9.97, 9.99, 9.9499999, 9.94, 9.949999999999999):
            add(x, e, 'd13')
    # err mantissa around the 9.95 -> 10 carry, at many decades, for several x/err ratios
    mants = (9.94, 9.949, 9.9499999, 9.95, 9.950001, 9.96, 9.99, 9.9999, 9.9999994, 9.9999996, 1.0, 1.04, 1.05, 1.0500001,
             1.25, 1.35, 4.45, 9.05)
    for j in (-300, -12, -5, -3, -2, -1, 0, 1, 2, 3, 5, 12, 280):
        for m in mants:
            e = float(f'{m}e{j}')
            for r in (0.3, 3.0, 9.9, 10.0, 10.04, 30.0, 99.7, 100.0, 1e3, 1e7, 1e-3):
                for s in (1, -1):
                    add(s * e * r, e, 'mant')
    # x next to powers of ten
    for j in (-300, -7, -2, -1, 0, 1, 2, 3, 9, 22, 23, 299):
        p = float(f'1e{j}')
        for x in (p, math.nextafter(p, 0), math.nextafter(p, math.inf), p * (1 - 1e-7), p * (1 + 1e-7), p * (1 - 4e-8),
                  p * (1 - 6e-8), p * 9.9999995, p * 9.99999949):
            for r in (1e-9, 1e-3, 0.0995, 0.0999, 0.1, 0.1001, 0.5, 0.995, 1.0, 2.0, 50.0):
                add(x, abs(x) * r, 'pow10'); add(-x, abs(x) * r, 'pow10')
    # err / |x| adjacent to 0.1 and 1
    for x in (10.0, 12.5, 25.0, 50.0, 73.1, 99.0, 99.94, 99.96, 1.0, 3.3, 9.99, 0.5, 0.099, 100.0, 123.4, 1e5, 3e-7):
        for base in (abs(x) / 10, abs(x)):
            for e in (base, math.nextafter(base, 0), math.nextafter(base, math.inf), base * (1 - 1e-9), base * (1 + 1e-9)):
                add(x, e, 'ratio'); add(-x, e, 'ratio')
    # decimal ties (exactly representable)
    for x, e in ((0.125, 0.5), (0.375, 0.5), (2.5, 1.5), (0.5, 0.125), (1.0, 0.125), (1.0, 0.375), (7.0, 0.625), (0.25, 2.5),
                 (1.5, 25.0), (2.5, 35.0), (0.03125, 0.25), (1024.5, 16.0), (99.75, 9.96875), (5e-324, 5e-324)):
        add(x, e, 'tie'); add(-x, e, 'tie')
    # zeros
    for x in (0.0, -0.0):
        for e in (5e-324, 1e-320, 1e-300, 1e-12, 1e-5, 0.05, 0.5, 0.996, 1.0, 9.96, 12.0, 1e5, 1e22, 1e23, 1e300, 1e308, FMAX):
            add(x, e, 'zero')
    # extremes of the range (incl. the zone where 10**k is not a float, and where it is subnormal)
    for x, e in ((1e300, 1e288), (1e300, 1e300), (-1e300, 1e307), (1e300, 1e308), (1e300, 1.5e308), (1e299, FMAX),
                 (1e297, 9.9999996e307), (1e297, 9.9999994e307), (1e-300, 1e-312), (1e-300, 1e-311), (1e-300, 1e-300),
                 (-1e-300, 3e-310), (1e-300, 1e-288), (1.2345e-300, 4.56e-309), (8e299, 7e304), (1e296, 1e308)):
        add(x, e, 'extreme')
    return out


def _rand_case(rng):
    u = rng.random()
    sgn = rng.choice((1, -1))
    if u < 0.40:      # log-uniform over the whole domain
        x = sgn * 10 ** rng.uniform(-300, 300) * rng.uniform(1, 10) / 10
        e = abs(x) * 10 ** rng.uniform(-12, 12)
        g = 'loguniform'
    elif u < 0.50:    # moderate magnitudes (where the exponent is hidden)
        x = sgn * 10 ** rng.uniform(-3, 3)
        e = abs(x) * 10 ** rng.uniform(-6, 2)
        g = 'moderate'
    elif u < 0.62:    # the D13 zone and its surroundings
        x = sgn * rng.uniform(99.0, 100.0)
        e = rng.uniform(9.9, 10.0) if rng.random() < 0.7 else rng.uniform(9.0, 10.2)
        g = 'd13zone'
    elif u < 0.76:    # error mantissa in [9.94, 10.0] at any decade, any ratio
        e = rng.uniform(9.94, 10.0) * 10 ** rng.randint(-290, 290)
        r = rng.choice((rng.uniform(0.05, 20), 10 ** rng.uniform(-11, 11), rng.uniform(9.9, 10.1), rng.uniform(99, 101)))
        x = sgn * e * r
        g = 'mant995'
    elif u < 0.86:    # x within 1e-7 (relative) of a power of ten
        p = 10.0 ** rng.randint(-299, 299)
        x = sgn * p * (1 + rng.uniform(-1e-7, 1e-7)) * rng.choice((1, 1, 10 - 1e-6 * rng.random()))
        e = abs(x) * rng.choice((10 ** rng.uniform(-12, 12), rng.uniform(0.09, 0.11), rng.uniform(0.9, 1.1)))
        g = 'pow10'
    elif u < 0.96:    # err/|x| next to 0.1 or 1
        x = sgn * 10 ** rng.uniform(-4, 4) * rng.choice((1, 10 ** rng.randint(-200, 200)))
        base = abs(x) * rng.choice((0.1, 1.0))
        e = base * (1 + rng.choice((0, 1e-15, -1e-15, 1e-12, -1e-12, rng.uniform(-1e-6, 1e-6))))
        g = 'ratio'
    else:             # zero value
        x = rng.choice((0.0, -0.0)); e = 10 ** rng.uniform(-323, 308); g = 'zero'
    return {'x': x, 'err': e, 'g': g}


def _gen(ctx, n_random):
    out = boundary_suite()
    rng = ctx.rng
    want = len(out) + n_random
    while len(out) < want:
        c = _rand_case(rng)
        if _in_domain(c['x'], c['err']): out.append(c)
    out = [c for c in out if _in_domain(c['x'], c['err'])]
    return out


def cases(ctx):
    global _CTX
    _CTX = ctx
    out = _gen(ctx, 18000 if ctx.tier == 'quick' else 400000)
    for c in out:
        ctx.count('generator', c['g'])
        ctx.count('sign', 'neg' if math.copysign(1, c['x']) < 0 else 'pos')
        ctx.count('log10|x|', 'zero' if c['x'] == 0 else 50 * math.floor(math.log10(abs(c['x'])) / 50))
        ctx.count('log10(err/|x|)', 'zero-x' if c['x'] == 0 else 3 * math.floor(math.log10(c['err'] / abs(c['x'])) / 3))
    return out


def search_cases(ctx):
    import random
    sub = type(ctx)(ctx.prop, ctx.tier, ctx.seed + 7919)
    sub.rng = random.Random(ctx.seed * 1000003 + 17)
    return _gen(sub, 60000)


def nontrivial(c):
    return c['x'] != 0 and 1e-12 <= c['err'] / abs(c['x']) <= 1e12


# ----------------------------------------------------------------------------- real

def run_real(c, ctx):
    from xyzpy.utils import format_number_with_error
    try:
        s = format_number_with_error(c['x'], c['err'])
    except Exception as e:      # an exception of the library is an observation
        return {'err': type(e).__name__, 'msg': str(e)[:120]}
    return {'s': s}


# ----------------------------------------------------------------------------- model

def model_request(c, obs):
    x, err = c['x'], c['err']
    k = harness_k(x, err)
    return {'op': 'fmt', 'neg': math.copysign(1, x) < 0, 'ax': rat(x), 'err': rat(err),
            'axs': rat(scaled(x, k)), 'errs': rat(scaled(err, k)), 'lt': err < abs(x / 10)}


READ = re.compile(r'^(-?)(\d+)(?:\.(\d+))?\((\d+)\)(?:e([+-]\d+))?$')


def read(s):
    """the usual reading convention: returns dict(V, U, unit, bracket, d, k, neg) with exact Fractions, or None"""
    m = READ.match(s)
    if not m: return None
    sg, ip, fp, br, ex = m.groups()
    fp = fp or ''
    k = int(ex) if ex is not None else 0
    unit = F(10) ** (k - len(fp))
    V = int(ip + fp) * unit
    if sg: V = -V
    return {'V': V, 'U': int(br) * unit, 'unit': unit, 'bracket': br, 'd': len(fp), 'k': k, 'suffix': ex is not None,
            'neg': bool(sg), 'uexp': k - len(fp)}


def compare(c, obs, rep):
    x, err = c['x'], c['err']
    if 'err' in rep:
        return f'model could not format (self-check of sci failed: {rep["err"]})'
    if 'err' in obs:
        return f'real raised {obs["err"]} but the model formats {rep["s"]!r}'
    k = harness_k(x, err)
    if rep['kraw'] != k:
        return f'common exponent differs: {k} by the rule max(exp10(x), exp10(err)+1) vs model {rep["kraw"]} (extracted rule)'
    if _CTX is not None:
        _CTX.count('branch', 'hidden' if rep['hide'] else 'suffix')
        _CTX.count('E (exponent of the 2-digit error)', rep['E'])
        _CTX.count('decimals shown', min(rep['d'], 20) if rep['d'] < 20 else '>=20')
    if obs['s'] != rep['s']:
        return f'string differs: real {obs["s"]!r} vs model {rep["s"]!r}'
    r = read(obs['s'])
    if r is None:
        return f'reader cannot parse {obs["s"]!r}'
    if r['V'] != fr(rep['val']) or r['U'] != fr(rep['unc']):
        return f'reader and model `denote` disagree on {obs["s"]!r}: reader ({r["V"]}, {r["U"]}) model ({fr(rep["val"])}, {fr(rep["unc"])})'
    if not rep['hide']:
        tight = -307 <= k <= 308
        if not (rep['gap51'] if tight else rep['gap40']):
            return f'float-gap hypothesis fails: scaled floats further than 2^-{51 if tight else 40} (relative) from x/10^k, err/10^k (k={k})'
        if _CTX is not None: _CTX.count('float-gap hypothesis', '2^-51 holds' if tight else '2^-40 holds (10**k subnormal)')
    return None


# ----------------------------------------------------------------------------- independent oracle

def _floor_log10(q):
    """floor(log10 q) for a positive Fraction, exact"""
    e = len(str(q.numerator)) - len(str(q.denominator))
    while F(10) ** e > q: e -= 1
    while F(10) ** (e + 1) <= q: e += 1
    return e


def round2(q):
    """all correct roundings of q > 0 to two significant figures: set of (two-digit integer, exponent of its unit)"""
    e = _floor_log10(q)
    t = q / F(10) ** (e - 1)               # in [10, 100)
    lo = t.numerator // t.denominator
    frac = t - lo
    ms = {lo} if frac < F(1, 2) else {lo + 1} if frac > F(1, 2) else {lo, lo + 1}
    return {(10, e) if m == 100 else (m, e - 1) for m in ms}


def division_slack(k):
    """relative distance between the float the function computes for v / 10**k and the exact v / 10^k:
    (error of the float divisor(s) w.r.t. the true power of ten) + one rounding per division. Explicit, in Fractions."""
    head = min(k, 308)
    d1 = F(float(10 ** head))              # what `v / 10**head` divides by (ints are converted to the nearest float)
    d2 = F(float(10 ** (k - head)))
    true = F(10) ** k
    dev = abs(d1 * d2 - true) / true
    ndiv = 1 if k == head else 2
    return dev * (1 + F(1, 2 ** 50)) + ndiv * F(1, 2 ** 53) * (1 + F(1, 2 ** 50))


def oracle(c, obs):
    if 'harness_exc' in obs: return 'harness: ' + obs['harness_exc']
    x, err = c['x'], c['err']
    if 'err' in obs:
        return f'format_number_with_error({x!r}, {err!r}) raised {obs["err"]}: {obs.get("msg", "")} (finite value, positive finite error)'
    s = obs['s']
    r = read(s)
    if r is None:
        return f'{s!r} is not of the form [-]digits[.digits](digits)[e±dd]'
    X, E = F(x), F(err)
    delta = division_slack(r['k']) if r['suffix'] else F(0)      # no suffix: the function did not rescale
    # uncertainty: err rounded to two significant figures
    if len(r['bracket']) != 2:
        return f'{s!r}: the uncertainty is not shown with two digits'
    want = set()
    for t in (E * (1 - delta), E, E * (1 + delta)):
        want |= round2(t)
    got = (int(r['bracket']), r['uexp'])
    if got not in want:
        w = sorted(want)[0]
        return (f'{s!r} denotes uncertainty {float(r["U"])!r} = {got[0]}e{got[1]}, but err = {err!r} rounded to two significant '
                f'figures is {w[0]}e{w[1]} = {float(w[0] * F(10) ** w[1])!r}')
    # value: x rounded to the same last digit
    if abs(r['V'] - X) > r['unit'] / 2 + delta * abs(X):
        return (f'{s!r} denotes value {float(r["V"])!r}, further than half a unit of the last shown digit '
                f'({float(r["unit"])!r}) from x = {x!r}')
    if r['V'] != 0 and (r['V'] < 0) != (x < 0):
        return f'{s!r}: sign of the denoted value differs from x = {x!r}'
    if _CTX is not None:
        _CTX.count('two-digit mantissa', '10 (carry or exact)' if got[0] == 10 else '95..99' if got[0] >= 95 else '11..94')
    return None


def finding_key(c, obs):
    return None


def shrink_candidates(c):
    """shorter decimal mantissas of x and err (same decade)"""
    x, err = c['x'], c['err']
    for p in (12, 9, 7, 5, 4, 3, 2):
        for nx, ne in ((float(f'{x:.{p}e}'), err), (x, float(f'{err:.{p}e}'))):
            if (nx, ne) != (x, err) and math.isfinite(nx) and math.isfinite(ne) and ne > 0:
                yield {'x': nx, 'err': ne, 'g': c.get('g', 'shrunk')}
