"""C08 — reported progress always matches the batches that really finished."""
import os, json, itertools
import common, fns, sweeps, crops

PROP = 'C08'
LEAN_MODULES = ['XyzProofs.Props.C08', 'XyzProofs.Props.C08Grow', 'XyzProofs.Refine.Progress', 'XyzProofs.Refine.CheckBad',
                'XyzProofs.Refine.CropInit']
THEOREMS = ['Crop.c08_grow_inv', 'Crop.c08_failed_grow_unchanged', 'Crop.c08_fn_raises', 'Crop.c08_delete_inv',
            'Crop.c08_counts', 'Crop.c08_ready_iff', 'Crop.c08_missing_spec', 'Crop.c08_grow_missing',
            'Crop.c08_resow_keeps_results', 'Crop.length_eq_iff_all', 'Crop.c08_check_bad', 'Crop.c08_check_bad_clean',
            'Crop.c08_unsown_not_ready', 'Crop.c08_handle_irrelevant',
            # on the effect skeleton of the module-level `grow`, translated on every run (anchors_grow.py)
            'GrowSk.growSk_eq_spec', 'GrowSk.c08_grow_write_last', 'GrowSk.c08_grow_writes_iff', 'GrowSk.c08_grow_error_no_write',
            'GrowSk.c08_finished_iff_grow_completed', 'GrowSk.c08_grow_one_write', 'GrowSk.growOne_refines',
            # the progress queries, translated whole over directory queries, are the model's functions
            'Refine.isPrepared_refines', 'Refine.calcProgress_refines', 'Refine.isReadyToReap_refines', 'Refine.numSownBatches_refines',
            'Refine.numResults_refines', 'Refine.missingResults_refines', 'Refine.cropGrowIds_spec', 'Refine.growMissingIds_spec',
            # check_bad, translated whole as a state skeleton with a loop (anchors_checkbad.py), is the model's checkBad
            'CheckBadSk.checkBadSk_eq_spec', 'CheckBadSk.cb_removed_are_bad', 'CheckBadSk.cb_no_delete_no_change',
            'CheckBadSk.cb_reported_listed', 'Crop.checkBadSk_refines', 'Crop.c08_check_bad_sk',
            # Crop.__init__ / load_crops: when the settings are read from disk (anchors_checkbad.py)
            'Refine.initAutoload_spec', 'Refine.opNew_refines', 'Refine.loadCrops_autoloads']
ANCHORS = ['isReady', 'sowerGetsExtra', 'sowerFlush', 'nbFromBs', 'capNb', 'bsOfNb', 'remOfNb', 'bothOk', 'growSk',
           'cropIsPrepared', 'cropCalcProgress', 'cropIsReadyToReap', 'cropMissingResults', 'cropNumSownBatches', 'cropNumResults',
           'cropGrowIds', 'growMissingIds', 'checkBadSk', 'initAutoload', 'initAutoloadDefault', 'loadCropsAutoloads']
RULE = ("random histories (length <= 12) of {sow, re-sow with the same shape, grow one id, grow a subset, grow_missing, grow "
        "with a function that raises on chosen settings, delete a result file, corrupt a result + check_bad, a stranded temporary "
        "of a killed grower, reload the Crop, query, query before the first sow, query through a handle made before "
        "the sow, complete reap then query} on crops of 1..8 batches; after EVERY operation the four progress queries, str(crop) and the directory "
        "listing are compared with the Lean model and with a ghost set of finished batches maintained by the oracle; "
        "non-trivial = at least 2 batches and at least 3 state-changing operations; distinct by full history; thorough adds "
        "all histories of length <= 4 over a fixed op alphabet on 2 batches")
TRUSTED = ["os/glob listing reflects the files written (local file system)"]


def nontrivial(h):
    return h['B'] >= 2 and sum(1 for o in h['ops'] if o['op'] not in ('query', 'stalequery', 'reload', 'new')) >= 3


def gen_history(rng, B=None, ops_len=None):
    B = B or rng.randint(1, 8)
    per = rng.randint(1, 3)
    n = B * per - (rng.randint(0, per - 1) if B > 1 else 0)
    n = max(n, B)
    cases = rng.random() < 0.3
    sw = None
    for _ in range(50):
        sw = crops.gen_crop_sweep(rng, max_settings=30, cases=cases)
        if sweeps.n_settings(sw) >= B: break
    n = sweeps.n_settings(sw)
    b = {'nb': B} if rng.random() < 0.6 else {'bs': -(-n // B)}
    B = crops.num_batches_for(n, b)
    kind = rng.choice([{'scalar': 'num'}, {'scalar': 'str'}, {'tuple': [[[], 'num'], [[], 'num']]}])
    new = {'op': 'new', 'shuffle': rng.choice([0, 0, 4])}
    new.update(b)
    sow = {'op': 'sow', 'cases': cases}
    if not cases:
        sow['shuffle'] = rng.choice([0, 0, 6])
        crops.vary_sow_call(rng, sow)
    else: sow['spelling'] = 'tuple'
    ops = [new]
    if rng.random() < 0.15: ops += [{'op': 'emptydir'}, {'op': 'query'}]   # only the directory skeleton exists: not sown
    if rng.random() < 0.25: ops.append({'op': 'query'})                     # progress asked before anything is sown
    ops += [sow, {'op': 'query'}]
    if rng.random() < 0.3: ops.append({'op': 'stalequery'})                 # ... and through a handle made before the sow
    L = ops_len or rng.randint(2, 10)
    locs = list(itertools.product(*(range(len(sw['values'][a])) for a in sweeps.fn_args(crops.sorted_sweep(sw)))))
    if sw['rows'] is not None:
        ss = crops.sorted_sweep(sw)
        sub = list(itertools.product(*(range(len(sw['values'][a])) for a in ss['combo_args'])))
        locs = [tuple(r) + tuple(c) for r in sw['rows'] for c in sub]
    for _ in range(L):
        r = rng.random()
        if r < 0.25: ops.append({'op': 'grow', 'ids': [rng.randint(1, B)], 'via': rng.choice(['crop', 'fn', 'crop_int'])})
        elif r < 0.40: ops.append({'op': 'grow', 'ids': rng.sample(range(1, B + 1), rng.randint(1, B)), 'via': 'crop'})
        elif r < 0.55:
            ids = rng.sample(range(1, B + 1), rng.randint(1, B))
            ops.append({'op': 'grow', 'ids': ids, 'via': rng.choice(['crop', 'crop', 'fn']), 'fail': [list(rng.choice(locs))],
                        'exc': rng.choice(['ValueError', 'ValueError', 'StopIteration', 'KeyError', 'ZeroDivisionError', 'OSError'])})
        elif r < 0.63: ops.append({'op': 'growmissing'})
        elif r < 0.68: ops.append({'op': 'growmissing', 'fail': [list(rng.choice(locs))],
                                   'exc': rng.choice(['ValueError', 'StopIteration', 'RuntimeError'])})
        elif r < 0.80: ops.append({'op': 'delres', 'id': rng.randint(1, B)})
        elif r < 0.85: ops += [{'op': 'corrupt', 'id': rng.randint(1, B)}, {'op': 'checkbad'}]
        elif r < 0.88: ops.append({'op': 'checkbad'})
        elif r < 0.91: ops.append({'op': 'strandtmp', 'id': rng.randint(1, B)})
        elif r < 0.95: ops.append({'op': 'reload', **({'autoload': False} if rng.random() < 0.3 else {})})
        else: ops.append(dict(sow))           # re-sow, same shape
        ops.append({'op': 'query'})
        if rng.random() < 0.1: ops.append({'op': 'stalequery'})
    ops += [{'op': 'growmissing'}, {'op': 'query'}]
    if rng.random() < 0.3:
        ops += [{'op': 'reap'}, {'op': 'query'}]                            # a complete reap removes the crop: nothing is ready any more
    return {'sweep': sw, 'kind': kind, 'ops': ops, 'B': B, 'relative': rng.random() < 0.25}


def cases(ctx):
    rng = ctx.rng
    out = [gen_history(rng) for _ in range(900 if ctx.tier == 'quick' else 12000)]
    if ctx.tier == 'thorough':
        alphabet = [{'op': 'grow', 'ids': [1], 'via': 'crop'}, {'op': 'grow', 'ids': [2], 'via': 'crop'},
                    {'op': 'grow', 'ids': [2, 1], 'via': 'crop'}, {'op': 'delres', 'id': 1}, {'op': 'delres', 'id': 2},
                    {'op': 'growmissing'}, {'op': 'checkbad'}, {'op': 'reload'}]
        for L in range(1, 5):
            for seq in itertools.product(alphabet, repeat=L):
                h = gen_history(rng, B=2, ops_len=0)
                if h['B'] != 2: continue
                base = [o for o in h['ops'] if o['op'] in ('new', 'sow')][:2] + [{'op': 'query'}]
                h['ops'] = base + [x for o in seq for x in (dict(o), {'op': 'query'})]
                out.append(h)
    for h in out:
        ctx.count('B', h['B']); ctx.count('len', len(h['ops']))
        for o in h['ops']:
            ctx.count('op', o['op'] + ('+fail' if o.get('fail') else ''))
            if o.get('fail'): ctx.count('failure raised', o.get('exc', 'ValueError'))
        ctx.count('parent_dir', 'relative' if h.get('relative') else 'absolute')
    return out


search_cases = cases


def run_real(h, ctx):
    return {'obs': crops.run_history(h, ctx)}


def model_request(h, obs):
    return crops.history_request(h)


def compare(h, obs, rep):
    return crops.compare_history(h, obs['obs'], rep)


def oracle(h, obs):
    """ghost set of finished batches, maintained from the history by the property's own words"""
    if 'harness_exc' in obs: return None
    o = obs['obs']
    B = h['B']
    fin = set()
    batches = None
    corrupted = set()
    sown = False
    for j, (op, ob) in enumerate(zip(h['ops'], o)):
        k = op['op']
        r = ob['o']
        if k == 'sow':
            if isinstance(r, dict) and 'err' in r: return f'op {j}: sow failed {r}'
            batches = ob.get('batches') or batches
            sown = True
        elif k in ('grow', 'growmissing'):
            ids = op['ids'] if k == 'grow' else [i for i in range(1, B + 1) if i not in fin]
            fails = {tuple(x) for x in op.get('fail', [])}
            failed = False
            for i in ids:
                if any(tuple(loc) in fails for loc in batches[i]):
                    failed = True; break
                fin.add(i); corrupted.discard(i)
            if failed != (isinstance(r, dict) and 'err' in r):
                return f'op {j} {op}: expected {"an error" if failed else "success"}, got {json.dumps(r, default=str)[:200]}'
        elif k == 'delres':
            fin.discard(op['id']); corrupted.discard(op['id'])
        elif k == 'corrupt':
            if op['id'] in fin: corrupted.add(op['id'])
        elif k == 'checkbad':
            if not isinstance(r, dict) or sorted(r.get('bad', [])) != sorted(corrupted):
                return f'op {j}: check_bad reported {r}, corrupted results were {sorted(corrupted)}'
            fin -= corrupted; corrupted = set()
        elif k == 'reap':
            if isinstance(r, dict) and 'err' in r: return f'op {j}: complete reap failed {r}'
            sown = False; fin = set()
            if ob['ls'] is not None: return f'op {j}: the crop directory is still there after a complete reap'
            continue
        elif k in ('query', 'stalequery') and not sown:
            # nothing sown (yet, or any more): no batch exists, so nothing is finished and nothing can be ready
            if r.get('ready') or r.get('sown', 0) > 0 or r.get('results', 0) > 0:
                return f'op {j}: progress {json.dumps(r, default=str)} reported for a crop that is not sown'
            continue
        elif k in ('query', 'stalequery'):
            want = {'sown': B, 'results': len(fin), 'ready': len(fin) == B, 'missing': [i for i in range(1, B + 1) if i not in fin]}
            if r != want:
                return f'op {j}: progress {json.dumps(r, default=str)} but on the history the truth is {json.dumps(want)}'
            if ob.get('str') and ob['str'] != [str(len(fin)), str(B)]:
                return f'op {j}: str(crop) shows {ob["str"]} for {len(fin)} of {B} finished'
        if ob['ls'] is None or ob['ls']['r'] != sorted(fin) or ob['ls']['b'] != list(range(1, B + 1)):
            if k != 'new' and sown:
                return f'op {j} {op}: result files {ob["ls"]} but finished set is {sorted(fin)}'
    return None
