"""C06 — a crop attached to a Runner, Harvester or Sampler reaps what a direct run gives."""
import copy
import os, json, itertools, random
import common, fns, sweeps, crops, labelled
from common import quiet, canon

PROP = 'C06'
LEAN_MODULES = ['XyzProofs.Props.C06', 'XyzProofs.Refine.Forwarding', 'XyzProofs.Refine.Lifecycle', 'XyzProofs.Props.C04Lifecycle']
THEOREMS = ['ToDs.toDs_eq_labelLinear', 'Crop.c06_runner_eq_direct', 'Crop.c06_df_eq_direct', 'Crop.c06_store_eq_direct',
            'Crop.c06_reload_irrelevant', 'Crop.c04_reapLinear_full',
            # the direct runs the reaps are compared with: what the farmers forward (translated flow records, anchors_flow)
            'Forwarding.harvest_forwards', 'Forwarding.label_forwards', 'Forwarding.chain_run_combos', 'Forwarding.chain_run_cases',
            'Forwarding.run_keeps_descriptions',
            # the sow / reap life cycle translated from the source (anchors_lifecycle.py)
            'Lc.reapCombosToDs_refines', 'Lc.reapRunner_refines', 'Lc.sowCombos_refines', 'Lc.sowCases_refines', 'Lc.sowSamples_refines',
            'Lc.saveInfo_refines', 'Lc.c06_lc_reaper_replays_runner', 'Lc.c06_lc_reaper_replays_to_ds', 'Lc.c06_lc_sow_constants_win',
            'Lc.c06_lc_runner_constants_kept', 'Lc.c04_lc_sow_combos_ok', 'Lc.c04_lc_sow_cases_ok']
ANCHORS = ['harvestDefersCleanup', 'samplesDefersCleanup', 'cleanUpDefault', 'isReady', 'sowerGetsExtra', 'sowerFlush',
           'flowHarvestCombos', 'flowHarvestCases', 'flowLabel', 'flowRunCombos', 'flowRunCases', 'flowComboToDs', 'flowCaseToDs',
           'saveInfoLc', 'sowCasesLc', 'sowCombosLc', 'sowSamplesLc', 'reapCombosToDsLc', 'reapRunnerLc', 'calcCleanUp']
RULE = ("Runner / Harvester / Sampler crops: runner descriptions as in C03 (1-3 outputs, internal dims from var_coords or "
        "constants, constants that are/are not dims, resources, attrs, to_df), grids and case lists with batching and "
        "shuffle as in C04, harvester with an existing store (none / disjoint / overlapping) and each overwrite policy, "
        "sampler engines pickle/csv, the Crop (and its farmer) re-created from name and directory between sow, grow and "
        "reap; the reaped Dataset/DataFrame is compared with the Lean model and with the direct run, the farmer's last "
        "result and the on-disk data with those of a direct harvest/sample on a twin store; non-trivial = >= 2 batches and "
        "(a reload or an internal dimension or a non-empty initial store); distinct by full case")
TRUSTED = ["cloudpickle round trip of the farmer; xarray merge (C05's subject) is exercised, not modelled, here"]
PARTIAL = {'D16 (known finding)': "constants given at sow time (sow_combos(constants=...)) are passed to the function but not persisted, so the reaped dataset lacks them while a direct run_combos(constants=...) records them; theorems are about the runner's own constants"}


def nontrivial(c):
    return c['B'] >= 2 and (c['reload'] or any(c['desc']['dims']) or c.get('initial', 'none') != 'none')


def _case(rng, farmer=None, sow_constants=False):
    farmer = farmer or rng.choice(['runner', 'runner', 'harvester', 'harvester', 'sampler'])
    to_df = farmer == 'sampler' or (farmer == 'runner' and rng.random() < 0.3)
    cases = farmer == 'sampler' or rng.random() < 0.3
    mixed = farmer != 'sampler' and not cases and rng.random() < 0.2
    if mixed:
        # a case list crossed with a sub-grid, sown with sow_combos(combos, cases=...) and run directly the same way
        sw = sweeps.gen_sweep(rng, n_case_args=(1, 2), n_cases=(1, 5), n_combo_args=(1, 2), n_vals=(1, 3), max_settings=40)
    elif cases:
        sw = sweeps.gen_sweep(rng, n_case_args=(1, 2), n_cases=(1, 8), n_combo_args=0, max_settings=40)
    else:
        sw = sweeps.gen_sweep(rng, n_combo_args=(1, 3), n_vals=(1, 4), max_settings=40)
    sw['consts'] = {}
    if farmer == 'harvester':
        # string coordinates of different lengths hit an h5netcdf encoding problem that is C05/C14's subject; keep them numeric here
        for a in sw['values']:
            sw['values'][a] = sorted(rng.sample(range(-9, 60), len(sw['values'][a])))
    desc = labelled.gen_desc(rng, auto=False, to_df=to_df)
    if farmer != 'runner': desc.pop('leaf', None)
    if 'k0' in desc['constants'] and not to_df and rng.random() < 0.3:
        desc['resources']['k0'] = 'RR'          # one name both a resource and a constant: the constant is what the function gets
    n = sweeps.n_settings(sw)
    b = crops.gen_batching(rng, n)
    c = {'farmer': farmer, 'to_df': to_df, 'sweep': sw, 'desc': desc, 'batching': b, 'B': crops.num_batches_for(n, b),
         'shuffle': rng.choice([0, 0, 3, 17]), 'sow_call': rng.choice(['value', 'value', 'none', 'omit']), 'reload': rng.sample(['after_sow', 'after_grow'], rng.randint(0, 2)),
         'cases': cases, 'seed': rng.randrange(10 ** 6)}
    if farmer == 'harvester':
        c['engine'] = rng.choice(['joblib', 'joblib', 'h5netcdf'])
        c['initial'] = rng.choice(['none', 'disjoint', 'overlap', 'conflict'])
        c['overwrite'] = rng.choice([None, True, False])
    if farmer == 'sampler':
        c['engine'] = rng.choice(['pickle', 'csv'])
        c['initial'] = rng.choice(['none', 'some'])
    # between sow and reap somebody else adds other points to the same store through an object of their own; the
    # crop's farmer (pickled at sow time, possibly unpickled again for the reap) knows nothing of them
    c['between'] = farmer in ('harvester', 'sampler') and rng.random() < 0.35
    if sow_constants: c['sow_constants'] = {'kk': 5}
    elif rng.random() < 0.2:
        # constants given at the sow call: new ones and ones that override the runner's own
        c['sow_constants'] = rng.choice([{'kk': 5}, {'k0': 99}, {'kk': 'z', 'k0': 1.5}])
    return c


def cases(ctx):
    rng = ctx.rng
    out = [_case(rng) for _ in range(350 if ctx.tier == 'quick' else 4000)]
    for c in out:
        ctx.count('farmer', c['farmer']); ctx.count('to_df', c['to_df']); ctx.count('B', min(c['B'], 8))
        ctx.count('reloads', len(c['reload'])); ctx.count('initial', c.get('initial', '-')); ctx.count('between', bool(c.get('between'))); ctx.count('internal', any(c['desc']['dims']))
    return out


search_cases = cases
KNOWN_WITNESS = None


def setup(ctx):
    ctx.logfile = os.path.join(common.scratch_root(), 'calllog-c06.jsonl')
    os.environ[fns.LOG_ENV] = ctx.logfile


def _eff_desc(c):
    """the description a direct run with the same inputs has: constants given at the sow call count like the runner's own"""
    if not c.get('sow_constants'): return c['desc']
    d = dict(c['desc']); d['constants'] = {**c['desc']['constants'], **c['sow_constants']}
    return d


def _mk_farmer(xyz, c, f, data, tag=''):
    desc = c['desc']
    sw = crops.sorted_sweep(c['sweep'])
    runner = xyz.Runner(f, var_names=desc['names'], fn_args=sweeps.fn_args(sw),
                        var_dims={n: tuple(d) for n, d in zip(desc['names'], desc['dims']) if d} or None,
                        var_coords=copy.deepcopy(desc['var_coords']) or None, constants=copy.deepcopy(desc['constants']) or None,
                        resources=copy.deepcopy(desc['resources']) or None, attrs=copy.deepcopy(desc['attrs']) or None)
    if c['farmer'] == 'runner': return runner, runner
    if c['farmer'] == 'harvester':
        return xyz.Harvester(runner, data_name=data, engine=c['engine']), runner
    return xyz.Sampler(runner, data_name=data, engine=c['engine']), runner


def _initial_part(c):
    """a first harvest that both the crop path and the direct path start from"""
    sw = crops.sorted_sweep(c['sweep'])
    if c.get('initial') in (None, 'none') or sw['rows'] is not None: return None
    a = sw['combo_args'][0]
    vals = [sw['values'][a][r] for r in sw['combo_order'][a]]
    combos = {b: [sw['values'][b][r] for r in sw['combo_order'][b]] for b in sw['combo_args']}
    if c['initial'] in ('overlap', 'conflict'): combos[a] = vals[:1]
    else: return None if len(sw['values'][a]) < 1 else {'extra': True, 'combos': combos, 'arg': a}
    return {'extra': False, 'combos': combos, 'arg': a}


def run_real(c, ctx):
    import numpy as np, pandas as pd, xarray as xr
    import xyzpy as xyz
    sw0 = c['sweep']; sw = crops.sorted_sweep(sw0); desc = c['desc']
    f = labelled.make_fn(sw, desc)
    d = common.fresh_dir('c06')
    ext = {'joblib': '.dmp', 'h5netcdf': '.h5', 'pickle': '.pkl', 'csv': '.csv'}.get(c.get('engine'), '')
    data_crop, data_direct = os.path.join(d, 'crop' + ext), os.path.join(d, 'direct' + ext)
    try:
        farmer, runner = _mk_farmer(xyz, c, f, data_crop)
        farmer2, runner2 = _mk_farmer(xyz, c, f, data_direct)
        combos = sweeps.py_combos(sw0, 'dict'); combos_sorted = sweeps.py_combos(sw, 'dict')
        cases_t = sweeps.py_cases(sw, 'tuple')
        init = _initial_part(c) if c['farmer'] == 'harvester' else None
        with quiet():
            conflict = bool(init) and c.get('initial') == 'conflict'
            if init and not init['extra']:
                if conflict:
                    # the store already holds OTHER values at some of the points that are about to be reaped
                    f_alt = fns.Rec(dict(f.spec, offset=7))
                    for data in (data_crop, data_direct):
                        _mk_farmer(xyz, c, f_alt, data)[0].harvest_combos(init['combos'], verbosity=0)
                else:
                    farmer.harvest_combos(init['combos'], verbosity=0); farmer2.harvest_combos(init['combos'], verbosity=0)
            if c['farmer'] == 'sampler' and c.get('initial') == 'some':
                first = cases_t[:2]
                for fm in (farmer, farmer2):
                    df0 = fm.runner.run_cases(first, fn_args=sw['case_args'], to_df=True, verbosity=0)
                    fm.add_df(df0)
            crop = farmer.Crop(name='t', parent_dir=d, **{('batchsize' if k == 'bs' else 'num_batches'): v for k, v in c['batching'].items()})
            kw = {'constants': c['sow_constants']} if c.get('sow_constants') else {}
            if c['cases']:
                crop.shuffle = c['shuffle'] or False
                crop.sow_cases(sw['case_args'], cases_t, verbosity=0, **kw)
            else:
                mkw = {'cases': sweeps.py_cases(sw, 'dict')} if sw['rows'] is not None else {}
                # the shuffle setting reaches the crop through the call, or stays on the crop (shuffle=None), or the
                # call leaves the argument at its default
                how = c.get('sow_call', 'value')
                if how == 'none':
                    crop.shuffle = c['shuffle'] or False
                    skw = {'shuffle': None}
                elif how == 'omit' and not c['shuffle']:
                    skw = {}
                else:
                    skw = {'shuffle': c['shuffle'] or False}
                crop.sow_combos(combos, verbosity=0, **kw, **mkw, **skw)
            if c.get('between') and not conflict:
                if c['farmer'] == 'harvester':
                    _ = farmer.full_ds                      # the sowing farmer has looked at its store (and was pickled so)
                    a0 = sweeps.fn_args(sw)[0]
                    far = max([v for v in sw['values'][a0] if isinstance(v, (int, float))] + [0]) + 100
                    other = {a: ([far] if a == a0 else [sw['values'][a][0]]) for a in sweeps.fn_args(sw)}
                    f_far = fns.Rec(dict(f.spec, offset=3, values={**f.spec['values'], a0: list(f.spec['values'][a0]) + [far]}))
                    for data in (data_crop, data_direct):
                        h_other = _mk_farmer(xyz, c, f_far, data)[0]
                        h_other.harvest_cases([tuple(other[a][0] for a in sweeps.fn_args(sw))], fn_args=sweeps.fn_args(sw), verbosity=0)
                else:
                    _ = farmer.full_df
                    for data in (data_crop, data_direct):
                        s_other = _mk_farmer(xyz, c, f, data)[0]
                        s_other.add_df(s_other.runner.run_cases(cases_t[:1], fn_args=sw['case_args'], to_df=True, verbosity=0))
            if 'after_sow' in c['reload']:
                crop = xyz.Crop(name='t', parent_dir=d)
            ids = list(range(1, c['B'] + 1)); random.Random(c['seed']).shuffle(ids)
            fns.reset_log()
            crop.grow(ids[:len(ids) // 2] or ids, verbosity=0)
            crop.grow_missing(verbosity=0)
            calls_crop = sorted(json.dumps(kw, sort_keys=True, default=str) for kw in fns.read_log())
            if not calls_crop: raise AssertionError('harness: the call log is empty after growing')
            fns.reset_log()
            if 'after_grow' in c['reload']:
                crop = xyz.Crop(name='t', parent_dir=d)
            opts = {}
            if c['farmer'] == 'harvester' and c['overwrite'] is not None: opts['overwrite'] = c['overwrite']
            if c['farmer'] == 'runner' and c['to_df']:
                res = crop.reap_runner(crop.farmer, to_df=True)
            elif conflict:
                outcome = {}
                try: res = crop.reap(**opts)
                except Exception as e: outcome['crop'] = type(e).__name__
                try: farmer2.harvest_combos(combos_sorted, verbosity=0, **opts, **({'constants': c['sow_constants']} if c.get('sow_constants') else {}))
                except Exception as e: outcome['direct'] = type(e).__name__
                if outcome:
                    return {'conflict': outcome, 'store': labelled.canon_ds(xyz.load_ds(data_crop, engine=c['engine'])),
                            'store_direct': labelled.canon_ds(xyz.load_ds(data_direct, engine=c['engine'])),
                            'dir_left': os.path.exists(os.path.join(d, '.xyz-t'))}
                c = dict(c, _conflict_done=True)
            else:
                res = crop.reap(**opts)
            fm = crop.farmer                       # after a reload this is the unpickled farmer
            # a crop re-created from disk gets its function back, and so does its farmer
            fn_attached = (crop.fn is not None) and (getattr(getattr(fm, 'runner', fm), 'fn', None) is not None)
            if c.get('between') and not conflict:
                # the reference is a direct run by somebody who starts from the store as it is now
                farmer2, runner2 = _mk_farmer(xyz, c, f, data_direct)
            # direct path on the twin
            dkw = {'constants': c['sow_constants']} if c.get('sow_constants') else {}
            if c['farmer'] == 'runner':
                if c['cases']: direct = runner2.run_cases(cases_t, fn_args=sw['case_args'], to_df=c['to_df'], verbosity=0, **dkw)
                else:
                    mkw = {'cases': sweeps.py_cases(sw, 'dict')} if sw['rows'] is not None else {}
                    direct = runner2.run_combos(combos_sorted, to_df=c['to_df'], verbosity=0, **dkw, **mkw) if c['to_df'] else runner2.run_combos(combos_sorted, verbosity=0, **dkw, **mkw)
            elif c['farmer'] == 'harvester':
                if c.get('_conflict_done'): pass
                elif c['cases']: farmer2.harvest_cases(cases_t, verbosity=0, **opts, **dkw)
                else: farmer2.harvest_combos(combos_sorted, verbosity=0, **opts, **dkw, **({'cases': sweeps.py_cases(sw, 'dict')} if sw['rows'] is not None else {}))
                direct = farmer2.last_ds
            else:
                direct = runner2.run_cases(cases_t, fn_args=sw['case_args'], to_df=True, verbosity=0, **dkw)
                farmer2.add_df(direct)
        cn = labelled.canon_df if c['to_df'] else labelled.canon_ds
        obs = {'res': cn(res), 'direct': cn(direct)}
        if not c.get('_conflict_done'):
            obs['calls_crop'] = calls_crop
            obs['calls_direct'] = sorted(json.dumps(kw, sort_keys=True, default=str) for kw in fns.read_log())
        if c['farmer'] == 'runner':
            last = fm.last_ds if not c['to_df'] else getattr(fm, '_last_df', None)
            obs['last_is_res'] = last is res
        elif c['farmer'] == 'harvester':
            obs['last_is_res'] = fm.last_ds is res
            obs['store'] = labelled.canon_ds(xyz.load_ds(data_crop, engine=c['engine']))
            obs['store_direct'] = labelled.canon_ds(xyz.load_ds(data_direct, engine=c['engine']))
            obs['mem_eq_disk'] = labelled.diff_ds(labelled.canon_ds(fm.full_ds), obs['store'])
        else:
            obs['last_is_res'] = fm.last_df is res
            obs['store'] = labelled.canon_df(xyz.load_df(data_crop, engine=c['engine']))
            obs['store_direct'] = labelled.canon_df(xyz.load_df(data_direct, engine=c['engine']))
            obs['mem'] = labelled.canon_df(fm.full_df)
        obs['dir_left'] = os.path.exists(os.path.join(d, '.xyz-t'))
        obs['fn_attached'] = fn_attached
        obs['oracle'] = (labelled.oracle_df(obs['res'], sw, _eff_desc(c), sweeps.n_settings(sw)) if c['to_df']
                         else labelled.oracle_ds(res, sw, _eff_desc(c)))
        return obs
    except Exception as e:
        import traceback
        return {'err': type(e).__name__, 'msg': str(e)[:300], 'tb': traceback.format_exc()[-800:]}
    finally:
        common.rm(d)


def model_request(c, obs):
    sw = c['sweep']
    how = c.get('sow_call', 'value')
    new = {'op': 'new', 'shuffle': c['shuffle'] if (c['cases'] or how == 'none') else 0}
    new.update(c['batching'])
    sow = {'op': 'sow', 'cases': c['cases']}
    if not c['cases']:
        if how == 'none': sow['shuffle_none'] = True
        else: sow['shuffle'] = c['shuffle']
    ops = [new, sow]
    if 'after_sow' in c['reload']: ops.append({'op': 'reload'})
    ids = list(range(1, c['B'] + 1)); random.Random(c['seed']).shuffle(ids)
    ops += [{'op': 'grow', 'ids': ids[:len(ids) // 2] or ids}, {'op': 'growmissing'}]
    if 'after_grow' in c['reload']: ops.append({'op': 'reload'})
    ops.append({'op': 'reapds', 'desc': labelled.model_desc(_eff_desc(c)), 'to_df': c['to_df']})
    h = {'sweep': sw, 'kind': labelled.kind_of(c['desc']), 'ops': ops}
    rq = crops.history_request(h)
    rq['outputs'] = len(c['desc']['names'])
    return rq


def compare(c, obs, rep):
    if 'err' in obs or 'conflict' in obs: return None
    last = rep['obs'][-1]['o']
    sw = crops.sorted_sweep(c['sweep'])
    if 'err' in last: return f'model reap failed: {last}'
    if c['to_df']:
        exp = labelled.expected_df(last, sw, _eff_desc(c))
        return None if obs['res'] == exp else f'reaped rows differ from the model: {json.dumps(obs["res"])[:300]} vs {json.dumps(exp)[:300]}'
    return labelled.diff_ds(obs['res'], labelled.expected_ds(last['ds'], sw, _eff_desc(c)))


def oracle(c, obs):
    if 'harness_exc' in obs: return None
    if 'err' in obs: return f'raised {obs["err"]}: {obs.get("msg")} {obs.get("tb", "")[-300:]}'
    if 'conflict' in obs:
        # values in the store conflict with the new ones: the reap must do what a direct harvest with that policy does
        oc = obs['conflict']
        if oc.get('crop') != oc.get('direct'):
            return f'conflicting data in the store, overwrite={c["overwrite"]}: the reap {"raised " + oc["crop"] if "crop" in oc else "went through"} but the direct harvest {"raised " + oc["direct"] if "direct" in oc else "went through"}'
        if c['overwrite'] is not None: return f'overwrite={c["overwrite"]} but both paths raised {oc}'
        dd = labelled.diff_ds(obs['store'], obs['store_direct'])
        if dd: return 'after the refused merge the two stores differ: ' + dd
        if not obs['dir_left']: return 'the reap was refused but the crop is gone'
        return None
    if obs['oracle']: return 'reaped data: ' + obs['oracle']
    if c['to_df']:
        if obs['res'] != obs['direct']: return 'reaped DataFrame differs from the direct run'
    else:
        dd = labelled.diff_ds(obs['res'], obs['direct'])
        if dd: return 'reaped Dataset differs from the direct run: ' + dd
    if 'calls_crop' in obs and obs['calls_crop'] != obs['calls_direct']:
        a = [x for x in obs['calls_crop'] if x not in obs['calls_direct']][:2]; b = [x for x in obs['calls_direct'] if x not in obs['calls_crop']][:2]
        return f'growing the crop called the function with other keyword arguments than the direct run: crop {a} direct {b}'
    if c['reload'] and not obs.get('fn_attached', True):
        return 'the crop was re-created from disk but its function was not re-attached to the crop and its farmer'
    if not obs['last_is_res']: return "the farmer's last result is not the reaped data"
    if c['farmer'] == 'harvester':
        dd = labelled.diff_ds(obs['store'], obs['store_direct'])
        if dd: return 'on-disk dataset after the reap differs from a direct harvest of the same settings: ' + dd
        if obs['mem_eq_disk']: return 'full_ds differs from the file: ' + obs['mem_eq_disk']
    if c['farmer'] == 'sampler':
        if obs['store'] != obs['store_direct']: return 'on-disk table after the reap differs from a direct sample of the same settings'
        # csv has no types: a column holding both text and numbers reads back as text (as in C15, cells are compared as text there)
        nz = (lambda rows: [{k: (v if isinstance(v, str) else str(v)) for k, v in r.items()} for r in rows]) if c.get('engine') == 'csv' else (lambda rows: rows)
        if nz(obs['mem']) != nz(obs['store']): return 'full_df differs from the file'
    if obs['dir_left']: return 'the crop directory was not cleaned up after a complete reap'
    return None


def finding_key(c, obs):
    return None          # D16 (sow-time constants) is repaired: nothing is masked any more
