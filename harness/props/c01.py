"""C01 — a grid sweep evaluates every combination exactly once, in its own slot."""
import os, itertools, json
import common, fns, sweeps
from common import canon

PROP = 'C01'
LEAN_MODULES = ['XyzProofs.Props.C01', 'XyzProofs.Refine.Core']
THEOREMS = ['Core.c01_calls_once', 'Core.c01_flat', 'Core.c01_slot', 'Core.c01_strategy_irrelevant', 'Core.c01_spelling',
            'Core.c01_split_slot', 'Core.unflatten_eq', 'Core.nest_get', 'Core.runShuffled_eq',
            # the hand-written model is the source as translated on this run (harness/anchors_core.py, pyloop2lean.py)
            'CoreRefine.coreEnum_refines', 'CoreRefine.coreRunSeq_refines', 'CoreRefine.coreRunExec_refines',
            'CoreRefine.coreRun_plain', 'CoreRefine.coreRun_shuffled', 'CoreRefine.coreRun_shuffled_empty',
            'CoreRefine.coreRun_runLinear', 'CoreRefine.unflatten_refines', 'CoreRefine.unflatten_refines_default', 'CoreRefine.coreProcess_flat',
            'CoreRefine.coreProcess_grid', 'CoreRefine.coreGlue_holds', 'CoreRefine.translated_eq_core',
            'CoreRefine.c01_slot_src']
ANCHORS = ['coreEnum', 'coreRunSeq', 'coreRunExec', 'coreRun', 'unflatten', 'coreProcess', 'coreGlue']
RULE = ("grids of 1-5 arguments x 1-4 values (int/float/str, unsorted order, dict / list-of-pairs / single-pair "
        "spelling) and grids of 27-120 combinations (powers, highly composite and prime counts) on the library's own "
        "process pool with 2 / 3 / cpu_count workers, 0-2 constants, result kinds scalar/str/bool/tuple/nested list, 12 execution strategies incl. real "
        "pools and an adversarial executor completing futures in seeded arbitrary order, split/flat on/off; "
        "non-trivial = at least 2 arguments with >=2 values, or a non-identity permutation; distinct by full case")
TRUSTED = ["real executors run each submitted call exactly once and return its value (the call log would show otherwise)",
           "argument values are sent to the model as ranks; value equality/ordering is Python's"]
ASSUMPTIONS = ["random.shuffle's permutation depends only on (seed, length): computed by the harness with the same stdlib call and handed to the model; the real run uses the real call"]


def nontrivial(c):
    sw = c['sweep']
    big = sum(1 for a in sw['combo_args'] if len(sw['values'][a]) >= 2) >= 2
    return big or c['strategy']['name'] != 'seq'


def _case(rng, heavy_ok=True, **kw):
    kw.setdefault('mixed', True)
    sw = sweeps.gen_sweep(rng, **kw)
    kind = rng.choice(sweeps.KINDS_BASIC)
    k = sweeps.n_outputs(kind)
    c = {'sweep': sw, 'kind': kind, 'strategy': sweeps.gen_strategy(rng, heavy_ok),
         'split': bool(k) and rng.random() < 0.6, 'flat': rng.random() < 0.3,
         'spelling': rng.choice(['dict', 'pairs'] + (['single'] if len(sw['combo_args']) == 1 else []))}
    return c


def boundary(rng):
    out = []
    # single argument / single value / non-square with long-cycle permutations / every strategy once
    for name in sweeps.STRATEGIES:
        for shape in [(1, 5), (2, 3), (3, 4)]:
            c = _case(rng, n_combo_args=shape[0], n_vals=(shape[1] - 1, shape[1]))
            c['strategy'] = {'name': name, 'adv_seed': rng.randrange(999)}
            if name == 'shuffle_int': c['strategy']['shuffle'] = rng.randint(2, 50)
            out.append(c)
    for seed in (1, 2, 3, 5, 8, 13, 21, 34):
        c = _case(rng, n_combo_args=2, n_vals=(2, 4))
        c['strategy'] = {'name': 'shuffle_int', 'shuffle': seed}
        c['flat'] = False
        out.append(c)
    return out


POOL_STRATEGIES = ['num_workers', 'parallel_true', 'parallel_int']      # the library's own process pool (no executor given)
BIG_COUNTS = [27, 32, 36, 64, 81, 100, 108, 120, 29, 31, 53, 97, 113]     # powers / highly composite / prime


def _big_case(rng, n, name, workers):
    """a grid of exactly n combinations (27..120: far more tasks than workers, n a multiple of few or of many small
    numbers) run on the library's default process pool with 2 or 3 workers (or one per cpu)"""
    shape = common.factor_shape(n, rng, maxdims=4)
    c = _case(rng, heavy_ok=False, n_combo_args=len(shape))
    sw = c['sweep']
    for a, k in zip(sw['combo_args'], shape):
        sw['values'][a] = sweeps.gen_values(rng, k)
        o = list(range(k)); rng.shuffle(o); sw['combo_order'][a] = o
    c['spelling'] = rng.choice(['dict', 'pairs'])
    c['strategy'] = {'name': name}
    if workers: c['strategy']['workers'] = workers
    if rng.random() < 0.4: c['strategy']['shuffle'] = rng.randint(1, 50)
    return c


def big_cases(rng, tier):
    out = []
    # the same pool size is kept for consecutive cases: resizing the reusable pool starts new worker processes
    plan = [('num_workers', 2), ('parallel_true', 2), ('parallel_int', 2), ('num_workers', 3), ('parallel_true', 3),
            ('parallel_int', 3), ('parallel_true', None)]
    per = 2 if tier == 'quick' else 12
    counts = BIG_COUNTS[:]
    rng.shuffle(counts)
    i = 0
    for name, w in plan:
        for j in range(per):
            if j % 2 == 0:
                n = counts[i % len(counts)]; i += 1
            else:
                n = rng.randint(27, 120)
            out.append(_big_case(rng, n, name, w))
    return out


def cases(ctx):
    rng = ctx.rng
    out = boundary(rng)
    n = 450 if ctx.tier == 'quick' else 4000
    for i in range(n):
        out.append(_case(rng, heavy_ok=(i % 4 == 0)))
    # twins: the same grid run again in the same process with every number of the other numeric type (1 <-> 1.0): whatever
    # the library remembers between two sweeps must not hand the second one the first one's values
    import copy
    twins = []
    for c in out[len(out) // 2::9]:
        if c['strategy']['name'] not in ('seq', 'shuffle_true', 'shuffle_int'): continue
        t = copy.deepcopy(c)
        changed = False
        for a, vals in t['sweep']['values'].items():
            for j, v in enumerate(vals):
                if isinstance(v, bool): continue
                if isinstance(v, int): vals[j] = float(v); changed = True
                elif isinstance(v, float) and v.is_integer(): vals[j] = int(v); changed = True
        if changed:
            t['twin'] = True
            twins += [copy.deepcopy(c), t]
    out += twins
    out += big_cases(rng, ctx.tier)
    # a grid with a repeated value must be rejected before the function is called at all
    for i in range(20 if ctx.tier == 'quick' else 150):
        c = _case(rng, heavy_ok=False, n_vals=(2, 4))
        a = rng.choice(c['sweep']['combo_args'])
        o = c['sweep']['combo_order'][a]
        o.insert(rng.randrange(len(o) + 1), rng.choice(o))
        c['dup'] = a
        out.append(c)
    if ctx.tier == 'thorough':
        # all grid shapes with <=4 args x <=3 values for in-process strategies
        for nargs in range(1, 5):
            for shape in itertools.product(range(1, 4), repeat=nargs):
                c = _case(rng, heavy_ok=False, n_combo_args=nargs)
                sw = c['sweep']
                for a, k in zip(sw['combo_args'], shape):
                    sw['values'][a] = sweeps.gen_values(rng, k)
                    o = list(range(k)); rng.shuffle(o); sw['combo_order'][a] = o
                out.append(c)
        # all 24 completion orders of 4 futures are reached through seeds of the adversarial executor
        for s in range(200):
            c = _case(rng, n_combo_args=2, n_vals=(2, 2))
            c['strategy'] = {'name': rng.choice(['adv_submit', 'adv_apply']), 'adv_seed': s}
            out.append(c)
    for c in out:
        ctx.count('strategy', c['strategy']['name']); ctx.count('kind', next(iter(c['kind'])))
        ctx.count('twin of the previous case', bool(c.get('twin')))
        ctx.count('n_args', len(c['sweep']['combo_args'])); ctx.count('split/flat', f"{c['split']}/{c['flat']}")
        ns = sweeps.n_settings(c['sweep'])
        ctx.count('n_combinations', '1-8' if ns <= 8 else '9-26' if ns <= 26 else '27-60' if ns <= 60 else '61-120' if ns <= 120 else '>120')
        if c['strategy']['name'] in POOL_STRATEGIES:
            w = c['strategy'].get('workers') or (2 if c['strategy']['name'] != 'parallel_true' else 'cpu_count')
            ctx.count('default_pool_workers', w)
            if ns >= 27:
                ctx.count('default_pool_big_grid', f"workers={w} n={ns}")
    return out


def search_cases(ctx):
    return cases(ctx)


def setup(ctx):
    ctx.logfile = os.path.join(common.scratch_root(), 'calllog.jsonl')
    os.environ[fns.LOG_ENV] = ctx.logfile


def teardown(ctx):
    sweeps.shutdown_executors()


def run_real(c, ctx):
    import xyzpy as xyz
    sw, kind = c['sweep'], c['kind']
    f = sweeps.make_rec(sw, kind)
    kw, seed, adv = sweeps.strategy_opts(c['strategy'])
    fns.reset_log()
    try:
        res = xyz.combo_runner(f, sweeps.py_combos(sw, c['spelling']), constants=sw['consts'] or None,
                               split=c['split'], flat=c['flat'], verbosity=0, **kw)
    except Exception as e:
        return {'err': type(e).__name__, 'msg': str(e)[:200], 'log': sweeps.canon_log(fns.read_log(), sw)}
    log = fns.read_log()
    obs = {'out': sweeps.canon_result(res), 'log': sweeps.canon_log(log, sw),
           'perm_seed': seed, 'adv_order': list(adv.order) if adv else None}
    return obs


def model_request(c, obs):
    sw = c['sweep']
    rq = {'op': 'core', 'kind': sweeps.model_kind(c['kind']), 'flat': c['flat'],
          'split': sweeps.n_outputs(c['kind']) if c['split'] else 0}
    rq.update(sweeps.sweep_request(sw))
    n = sweeps.n_settings(sw)
    st = {}
    if obs.get('perm_seed'): st['shuffled'] = common.perm(obs['perm_seed'], n)
    if obs.get('adv_order') is not None: st['executor'] = obs['adv_order']
    rq['strategy'] = st
    return rq


def compare(c, obs, rep):
    if 'err' in obs or 'err' in rep:
        if ('err' in obs) != ('err' in rep): return f'error mismatch: real {obs.get("err")} model {rep.get("err")}'
        if obs.get('log'): return 'the function was called although the request was rejected'
        return None
    sw = c['sweep']
    exp = sweeps.expected(rep['out'], c['kind'], sweeps.sizes(sw))
    if obs['out'] != exp:
        return f'returned value differs from the model: real {json.dumps(obs["out"])[:300]} model {json.dumps(exp)[:300]}'
    consts = sorted((k, repr(v)) for k, v in sw['consts'].items())
    mlog = [[loc, consts] for loc in rep['log']]
    if obs['adv_order'] is not None or c['strategy']['name'] in ('seq', 'shuffle_true', 'shuffle_int'):
        if obs['log'] != mlog: return f'call log (in execution order) differs: real {obs["log"][:6]} model {mlog[:6]}'
    elif sorted(obs['log']) != sorted(mlog):
        return 'call log (as a multiset) differs'
    return None


def oracle(c, obs):
    """the property, stated directly on the real observation"""
    if 'harness_exc' in obs: return None
    if c.get('dup'):
        if 'err' not in obs: return f'a grid with a repeated value for {c["dup"]} was not rejected'
        if obs.get('log'): return 'the function was called before the grid with a repeated value was rejected'
        return None
    if 'err' in obs: return f'combo_runner raised {obs["err"]}: {obs.get("msg")}'
    sw, kind = c['sweep'], c['kind']
    args = sw['combo_args']
    sz = sweeps.sizes(sw)
    consts = sorted((k, repr(v)) for k, v in sw['consts'].items())
    allranks = list(itertools.product(*(range(len(sw['values'][a])) for a in args)))
    want_log = sorted([list(r), consts] for r in allranks)
    if sorted(obs['log']) != want_log:
        return f'call log is not exactly one call per combination with the constants added (got {len(obs["log"])} calls for {len(allranks)} combinations)'
    k = sweeps.n_outputs(kind)

    def val(ranks, j=None):
        v = fns.render(kind, fns.code_of_ranks(list(ranks), sz))
        return canon(v if j is None else v[j])

    def nested(order, j=None, prefix=()):
        if len(prefix) == len(args): return val(prefix, j)
        return [nested(order, j, prefix + (r,)) for r in order[len(prefix)]]
    order = [sw['combo_order'][a] for a in args]
    enum = list(itertools.product(*order))
    if c['flat']:
        exp = [[val(r, j) for r in enum] for j in range(k)] if c['split'] else [val(r) for r in enum]
    else:
        exp = [nested(order, j) for j in range(k)] if c['split'] else nested(order)
    if obs['out'] != exp:
        return 'some slot does not hold the value returned for its own combination'
    return None
