"""C04 — sow, grow, reap returns exactly what running directly would have."""
import os, json, itertools
import common, fns, sweeps, crops
from common import quiet

PROP = 'C04'
LEAN_MODULES = ['XyzProofs.Props.C04', 'XyzProofs.Refine.Batch', 'XyzProofs.Refine.Sow', 'XyzProofs.Props.C08Grow', 'XyzProofs.Refine.Progress',
                'XyzProofs.Refine.Reaper', 'XyzProofs.Props.C09Reaper', 'XyzProofs.Refine.Lifecycle', 'XyzProofs.Props.C04Lifecycle', 'XyzProofs.Refine.LifecycleCrop']
THEOREMS = ['Crop.c04_batches_cover', 'Crop.opSow_fresh', 'Crop.c04_grow_correct', 'Crop.c04_stream_full', 'Crop.c04_reap_eq_direct', 'Crop.c04_grow_history',
            'Crop.c04_history_reap_eq_direct', 'Crop.c04_reload_irrelevant',
            'Refine.chooseBatch_refines', 'Refine.sower_refines',
            'Crop.runnerShuffle_eq_recorded', 'Refine.sowAttrs_combos_refines', 'Refine.sowAttrs_cases_refines',
            'GrowSk.growOne_refines', 'GrowSk.c08_grow_write_last', 'Refine.cropGrowIds_spec', 'Refine.growMissingIds_spec',
            # the Reaper translated from the source (anchors_reaper.py)
            'Reaper.reaperFiles_eq', 'Reaper.reapStream_refines', 'Reaper.session_eq', 'Reaper.session_refines',
            'Reaper.reaperStream_full', 'Reaper.reapCombos_reaper_args', 'Crop.c04_stream_full_src',
            # the sow / reap life cycle translated from the source (anchors_lifecycle.py)
            'Lc.prepare_refines', 'Lc.saveInfo_refines', 'Lc.ensureDirs_refines', 'Lc.saveFn_refines', 'Lc.loadInfo_refines', 'Lc.deleteAll_refines',
            'Lc.sowCombos_refines', 'Lc.sowCases_refines', 'Lc.sowSamples_refines', 'Lc.reapCombos_refines', 'Lc.c04_lc_sow_combos_ok',
            'Lc.c04_lc_sow_cases_ok', 'Lc.sowWrites_order', 'Lc.c04_lc_reaper_replays_combos', 'Lc.c04_lc_missing_key_raises',
            'Lc.c04_lc_sow_combos_untouched', 'Lc.c04_lc_no_batch_without_info', 'Lc.c04_lc_no_batch_without_info_cases',
            'Lc.opSow_refines_lc']
ANCHORS = ['nbFromBs', 'capNb', 'bsOfNb', 'remOfNb', 'sowerGetsExtra', 'sowerFlush', 'isReady', 'cleanUpDefault',
           'chooseBatchSettings', 'sowerInit', 'sowerCall', 'sowerExit',
           'sowCombosHead', 'sowCasesHead', 'sowCombosRunnerShuffle', 'sowCasesRunnerShuffle', 'growSk', 'cropGrowIds', 'growMissingIds',
           'reaperFiles', 'reaperLoad', 'reaperWaitToLoad', 'reaperLoadFn', 'reaperCall', 'reaperExit', 'reapCombosReaper',
           'ensureDirsLc', 'saveFnLc', 'saveInfoLc', 'prepareLc', 'deleteAllLc', 'loadInfoLc', 'sowCasesLc', 'sowCombosLc', 'sowSamplesLc', 'reapCombosLc']
RULE = ("histories: construct (batchsize | num_batches | neither; shuffle False/True/int) -> sow_combos / sow_cases "
        "(shuffle also at sow time) -> a random partition+permutation of the batch ids over Crop.grow, grow(), "
        "grow(num_workers=2), grow_missing, with repeats -> reap; fresh Crop(name, parent_dir) objects inserted at random "
        "points; 1..40 settings, batchsize 1..n+1, num_batches 1..n+2; the reaped value is compared with the Lean model and "
        "with a direct combo_runner on the same inputs; non-trivial = at least 2 batches and (shuffled or >= 2 grow calls "
        "or a reload); distinct by full history")
TRUSTED = ["cloudpickle's ability to serialise the recording function; local file system semantics"]
ASSUMPTIONS = ["the swept function is deterministic (property's premise)",
               "combos are compared by label: the direct run is given the combos in name order, which is the order the crop stores and returns"]


def nontrivial(h):
    nb = h.get('nb_expected', 1)
    sh = any(op.get('shuffle') for op in h['ops'])
    ngrow = sum(1 for op in h['ops'] if op['op'] in ('grow', 'growmissing'))
    return nb >= 2 and (sh or ngrow >= 2 or any(op['op'] == 'reload' for op in h['ops']))


def gen_history(rng, heavy=False, force=None):
    force = force or {}
    sw = crops.gen_crop_sweep(rng, cases=force.get('cases'))
    n = sweeps.n_settings(sw)
    is_cases = sw['rows'] is not None and not sw['combo_args']
    kind = rng.choice(sweeps.KINDS_BASIC[:6])
    b = force.get('batching') or crops.gen_batching(rng, n)
    ctor_sh = force.get('ctor_shuffle', rng.choice([0, 0, 1, 7, 23]))
    sow_sh = force.get('sow_shuffle', rng.choice([0, 0, 1, 5, 42]))
    at_ctor = rng.random() < 0.5
    new = {'op': 'new', 'shuffle': ctor_sh}
    sow = {'op': 'sow', 'cases': is_cases}
    if not is_cases: sow['shuffle'] = sow_sh
    else: sow['spelling'] = rng.choice(['tuple', 'dict'])
    (new if at_ctor else sow).update(b)
    if 'sow_shuffle' not in force: crops.vary_sow_call(rng, sow)
    ops = [new, sow]
    B = crops.num_batches_for(n, b)
    ids = list(range(1, B + 1))
    rng.shuffle(ids)
    ids += [rng.choice(ids) for _ in range(rng.randint(0, 2))]       # repeats
    rng.shuffle(ids)
    while ids:
        k = rng.randint(1, max(1, len(ids)))
        chunk, ids = ids[:k], ids[k:]
        r = rng.random()
        if r < 0.15: ops.append({'op': 'reload'})
        if r > 0.9 and not ids:
            ops.append({'op': 'growmissing'}); continue
        via = rng.choice(['crop', 'crop', 'fn', 'crop_int'] + (['workers'] if heavy else []))
        if via == 'crop_int' and len(chunk) != 1: via = 'crop'
        ops.append({'op': 'grow', 'ids': chunk, 'via': via})
    if rng.random() < 0.3: ops.append({'op': 'growmissing'})
    if rng.random() < 0.3: ops.append({'op': 'reload'})
    ops.append({'op': 'reap'})
    return {'sweep': sw, 'kind': kind, 'ops': ops, 'nb_expected': B}


def two_handles(rng, i):
    h = gen_history(rng, force={'cases': False, 'ctor_shuffle': 0, 'sow_shuffle': [0, 3, 7][i % 3]})
    new, sow = h['ops'][0], h['ops'][1]
    for k in ('shuffle_omit', 'shuffle_none'): sow.pop(k, None)
    sow['shuffle'] = [0, 3, 7][i % 3]
    resow = {k: v for k, v in sow.items() if k not in ('bs', 'nb')}
    resow['shuffle'] = [5, 0, 11][i % 3]                       # another order of the same settings
    B = h['nb_expected']
    ids = list(range(1, B + 1)); rng.shuffle(ids)
    look = [{'op': 'query'}] if i % 2 else [{'op': 'query'}, {'op': 'grow', 'ids': ids[:1], 'via': 'crop'}]
    ops = [new, sow, {'op': 'switch'}] + look + [{'op': 'switch'}, resow, {'op': 'grow', 'ids': ids, 'via': 'crop'}]
    if i % 4 == 0: ops += [{'op': 'switch'}, {'op': 'query'}]
    else: ops += [{'op': 'switch'}]
    ops.append({'op': 'reap'})
    h['ops'] = ops
    h['family'] = 'two-handles'
    return h


def cases(ctx):
    rng = ctx.rng
    out = []
    # boundary suite: remainders 0/1/k-1, ctor shuffle x case lists (D3), shuffle at both places, long permutations
    for cs in (True, False):
        for sh in (0, 1, 9):
            for b in ({'bs': 2}, {'nb': 3}, {'nb': 4}, {}):
                out.append(gen_history(rng, force={'cases': cs, 'ctor_shuffle': sh, 'sow_shuffle': sh and 3, 'batching': b}))
    # in-batch parallel growing (what cluster scripts with num_workers do) with staggered run times
    for _ in range(6 if ctx.tier == 'quick' else 40):
        h = gen_history(rng, force={'batching': {'bs': rng.randint(3, 5)}})
        for op in h['ops']:
            if op['op'] == 'grow': op['via'] = 'workers'
        out.append(h)
    # two live Crop objects on one directory: B looks at the crop, A sows it AGAIN with another shuffle (same settings), the
    # batches are grown, B reaps -- whatever B remembered from its first look must not matter
    for i in range(40 if ctx.tier == 'quick' else 400):
        out.append(two_handles(rng, i))
    n = 700 if ctx.tier == 'quick' else 8000
    for i in range(n):
        out.append(gen_history(rng, heavy=(i % 40 == 0)))
    for h in out:
        ctx.count('kind', 'cases' if h['ops'][1]['cases'] else 'grid')
        ctx.count('shuffle', 'ctor' if h['ops'][0].get('shuffle') else 'sow' if h['ops'][1].get('shuffle') else 'off')
        ctx.count('family', h.get('family', 'one-handle')); ctx.count('batches', min(h['nb_expected'], 10)); ctx.count('reloads', sum(1 for o in h['ops'] if o['op'] == 'reload'))
    return out


search_cases = cases


def teardown(ctx):
    sweeps.shutdown_executors()


def run_real(h, ctx):
    import xyzpy as xyz
    obs = crops.run_history(h, ctx)
    # direct run on the same inputs (combos in name order)
    sw = crops.sorted_sweep(h['sweep'])
    f = sweeps.make_rec(sw, h['kind'])
    try:
        direct = sweeps.canon_result(xyz.combo_runner(f, sweeps.py_combos(sw, 'dict'), cases=sweeps.py_cases(sw, 'dict'),
                                                      verbosity=0))
    except Exception as e:
        direct = {'err': type(e).__name__}
    return {'obs': obs, 'direct': direct}


def model_request(h, obs):
    return crops.history_request(h)


def compare(h, obs, rep):
    return crops.compare_history(h, obs['obs'], rep)


def oracle(h, obs):
    if 'harness_exc' in obs: return None
    last = obs['obs'][-1]['o']
    for j, (op, o) in enumerate(zip(h['ops'], obs['obs'])):
        if isinstance(o['o'], dict) and 'err' in o['o']:
            return f'op {j} {op} raised {o["o"].get("exc")}: {o["o"].get("msg")} on a valid history'
    if last.get('ok') != obs['direct']:
        return 'reaped value differs from the direct run on the same inputs'
    return None


def shrink_candidates(h):
    ops = h['ops']
    for i in range(2, len(ops) - 1):
        if ops[i]['op'] == 'reload':
            yield dict(h, ops=ops[:i] + ops[i + 1:])
