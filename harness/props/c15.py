"""C15 — sampling only ever appends correct rows."""
import copy
import os, json, random
import common, fns, sweeps, labelled
from common import quiet, canon

PROP = 'C15'
LEAN_MODULES = ['XyzProofs.Props.C15', 'XyzProofs.Refine.SamplerSt', 'XyzProofs.Refine.Forwarding', 'XyzProofs.Props.C03Df']
THEOREMS = ['Sampler.c15_appends_n', 'Sampler.c15_row_correct', 'Sampler.c15_draws_allowed', 'Sampler.c15_disk_eq_mem',
            'Sampler.c15_history', 'Sampler.c15_continue', 'Sampler.c15_file_appends', 'Sampler.c15_history_shown',
            'Sampler.c15_two_objects', 'Sampler.inv_step', 'Sampler.c15_look_synced',
            'Sampler.smLoadFull_spec', 'Sampler.smSaveFull_spec', 'Sampler.smAddDf_refines', 'Sampler.smAddDf_unsynced',
            'Sampler.smSaveFull_error_keeps_mem',
            # sample_combos' argument flow and the row labelling, on the translated source (anchors_flow)
            'Forwarding.gen_cases_flow', 'Forwarding.sample_combos_flow', 'Forwarding.samplerCombos_value', 'Forwarding.keys_update',
            'Forwarding.run_cases_fn_args', 'Forwarding.run_cases_forwards', 'Forwarding.run_cases_constants',
            'Forwarding.run_keeps_descriptions', 'Forwarding.chain_run_cases',
            'DfRefine.c03_df_rows_src', 'DfRefine.toDf_src', 'DfRefine.casesZip_get']
ANCHORS = ['samplesDefersCleanup', 'smLoadFull', 'smSaveFull', 'smAddDf',
           'flowGenCases', 'flowSampleCombos', 'flowRunCases', 'flowCaseToDs', 'flowComboToDs', 'dfRows', 'coreRunInfo', 'casesZip']
RULE = ("histories of 1-6 runs on one data file: sample_combos(n) and sow_samples(n) -> grow -> reap (with batch sizes), n in "
        "1..7, combos overrides (lists and callables), runner constants, 1-2 outputs, engines pickle/csv, shuffle on/off, a "
        "fresh Sampler object between runs, or two live Sampler objects on the one file taking turns; the draws are read off the returned rows and handed to the Lean model, which "
        "predicts the whole table; the oracle checks: exactly n rows appended, earlier rows unchanged, arguments among the "
        "choices, outputs = f(arguments), file = memory, continuation by a new Sampler; non-trivial = >= 2 runs; distinct "
        "by full history")
TRUSTED = ["np.random.choice / user callables produce the draws (environment); pandas concat / to_pickle / to_csv round trip (sampled)"]


def nontrivial(c): return len([o for o in c['ops'] if o['op'] not in ('new', 'switch')]) >= 2


def _case(rng):
    nargs = rng.randint(1, 3)
    names = rng.sample(common.ARG_NAMES, nargs)
    values = {a: sweeps.gen_values(rng, rng.randint(1, 4)) for a in names}
    sw = {'case_args': names, 'combo_args': [], 'values': values, 'combo_order': {}, 'rows': [], 'consts': {}}
    desc = labelled.gen_desc(rng, auto=False, to_df=True, max_out=2)
    desc['var_coords'] = {}
    ops = []
    for _ in range(rng.randint(1, 6)):
        r = rng.random()
        n = rng.randint(1, 7)
        if r < 0.45: ops.append({'op': 'sample', 'n': n, 'shuffle': rng.choice([0, 0, 5]), 'override': rng.random() < 0.3})
        elif r < 0.85:
            ops.append({'op': 'crop', 'n': n, 'bs': rng.randint(1, n + 1), 'shuffle': rng.choice([0, 0, 5]), 'override': rng.random() < 0.2})
            # a quarter of the crops are grown the way the cluster scripts do it: each batch by a pool of workers, the
            # samples of a batch taking different times (completion order != order in the batch)
            if ops[-1]['bs'] >= 2 and n >= 3 and rng.random() < 0.25: ops[-1]['workers'] = True
        elif r < 0.92: ops.append({'op': 'new'})
        else: ops.append({'op': 'switch'})
    if not any(o['op'] not in ('new', 'switch') for o in ops): ops.append({'op': 'sample', 'n': 2, 'shuffle': 0, 'override': False})
    return {'sweep': sw, 'desc': desc, 'ops': ops, 'engine': rng.choice(['pickle', 'csv']), 'npseed': rng.randrange(10 ** 6)}


def cases(ctx):
    out = [_case(ctx.rng) for _ in range(300 if ctx.tier == 'quick' else 4000)]
    # boundary: two live Sampler objects taking turns (A, B, A) and (A, B, A, B), direct runs and crops, both engines
    rng = ctx.rng
    def run(kind):
        n = rng.randint(1, 4)
        return ({'op': 'sample', 'n': n, 'shuffle': 0, 'override': False} if kind == 's'
                else {'op': 'crop', 'n': n, 'bs': rng.randint(1, n + 1), 'shuffle': 0})
    for engine in ('pickle', 'csv'):
        for pat in ('sss', 'scs', 'csc', 'ssss', 'ccc'):
            c = _case(rng); c['engine'] = engine
            ops = []
            for i, k in enumerate(pat):
                if i: ops.append({'op': 'switch'})
                ops.append(run(k))
            c['ops'] = ops
            out.append(c)
    for c in out:
        ctx.count('engine', c['engine']); ctx.count('runs', len([o for o in c['ops'] if o['op'] not in ('new', 'switch')]))
        for o in c['ops']: ctx.count('op', o['op'] + (' (worker pool)' if o.get('workers') else ''))
    return out


search_cases = cases


def _defaults(sw, a):
    """the sampler's own choices; for the first argument the last value is kept OUT of them (only an override draws it)"""
    v = sw['values'][a]
    return v[:-1] if a == sw['case_args'][0] and len(v) >= 2 else v


def _override(sw, a):
    """an override for one run: a value the defaults do not contain, so that it is seen if it lingers into a later run"""
    v = sw['values'][a]
    return v[-1:] if len(v) >= 2 else v[:1]


class Choice:
    """a picklable user callable returning one of the allowed values"""
    def __init__(self, vals): self.vals = list(vals)
    def __call__(self):
        import numpy as np
        return self.vals[np.random.randint(len(self.vals))]


def run_real(c, ctx):
    import numpy as np
    import xyzpy as xyz
    sw, desc = c['sweep'], c['desc']
    f = labelled.make_fn(sw, desc)
    d = common.fresh_dir('c15')
    data = os.path.join(d, 'samples' + ('.pkl' if c['engine'] == 'pickle' else '.csv'))
    np.random.seed(c['npseed'])
    try:
        def mk():
            r = xyz.Runner(f, var_names=desc['names'], fn_args=sw['case_args'], constants=copy.deepcopy(desc['constants']) or None,
                           resources=copy.deepcopy(desc['resources']) or None, attrs=copy.deepcopy(desc['attrs']) or None)
            return xyz.Sampler(r, data_name=data, default_combos={a: _defaults(sw, a) for a in sw['case_args']}, engine=c['engine'])
        smp = mk()
        other = None
        obs = []
        for i, op in enumerate(c['ops']):
            o = {}
            try:
                with quiet():
                    if op['op'] == 'new':
                        smp = mk()
                    elif op['op'] == 'switch':
                        smp, other = (other if other is not None else mk()), smp
                    elif op['op'] == 'sample':
                        kw = {}
                        if op.get('shuffle'): kw['shuffle'] = op['shuffle']
                        combos = None
                        if op.get('override'):
                            a = sw['case_args'][0]
                            ov = _override(sw, a)
                            combos = {a: Choice(ov) if op['n'] % 2 else list(ov)}
                        last = smp.sample_combos(op['n'], combos=combos, verbosity=0, **kw)
                        o['last'] = labelled.canon_df(last); o['last_is'] = smp.last_df is last
                    else:
                        crop = smp.Crop(name='t%d' % i, parent_dir=d, batchsize=op['bs'])
                        crop.shuffle = op.get('shuffle') or False
                        a0 = sw['case_args'][0]
                        crop.sow_samples(op['n'], verbosity=0, **({'combos': {a0: list(_override(sw, a0))}} if op.get('override') else {}))
                        if op.get('workers'):
                            from xyzpy.gen import cropping
                            import fns
                            os.environ[fns.STAGGER_ENV] = '0.04'; os.environ[fns.STAGGER_SPREAD_ENV] = '1'
                            try:
                                for b in crop.missing_results(): cropping.grow(b, crop=crop, num_workers=2, verbosity=0)
                            finally:
                                os.environ.pop(fns.STAGGER_ENV, None); os.environ.pop(fns.STAGGER_SPREAD_ENV, None)
                        else:
                            crop.grow_missing(verbosity=0)
                        last = crop.reap()
                        o['last'] = labelled.canon_df(last); o['last_is'] = smp.last_df is last
                o['mem'] = labelled.canon_df(smp.full_df) if smp.full_df is not None else None
                o['disk'] = labelled.canon_df(xyz.load_df(data, engine=c['engine'])) if os.path.exists(data) else None
            except Exception as e:
                import traceback
                o = {'err': type(e).__name__, 'msg': str(e)[:200], 'tb': traceback.format_exc()[-600:]}
            obs.append(o)
        return {'obs': obs}
    finally:
        common.rm(d)


def _ranks(row, sw):
    return [[canon(x) for x in sw['values'][a]].index(row[a]) for a in sw['case_args']]


def model_request(c, obs):
    ops = []
    for op, o in zip(c['ops'], obs['obs']):
        if 'err' in o: return None
        if op['op'] in ('new', 'switch'): ops.append({'op': op['op']})
        else:
            try: ops.append({'op': 'sample', 'draws': [_ranks(r, c['sweep']) for r in o['last']]})
            except (ValueError, KeyError): return None
    return {'op': 'sampler', 'kind': sweeps.model_kind(labelled.kind_of(c['desc'])), 'outputs': len(c['desc']['names']), 'ops': ops}


def _norm(rows):
    """column order and the index are not part of the property; csv turns everything into what it parses back"""
    return [json.dumps({k: (str(v) if not isinstance(v, str) else v) for k, v in r.items()}, sort_keys=True) for r in rows]


def compare(c, obs, rep):
    sw, desc = c['sweep'], c['desc']
    for j, (o, m) in enumerate(zip(obs['obs'], rep['obs'])):
        for key in ('mem', 'disk'):
            exp = None if m[key] is None else labelled.expected_df({'rows': [dict(r, extra=list(desc['constants']) + list(desc['attrs'])) for r in m[key]]}, sw, desc)
            got = o.get(key)
            if (got is None) != (exp is None): return f'run {j}: {key} table present={got is not None}, model present={exp is not None}'
            if got is not None and _norm(got) != _norm(exp):
                return f'run {j}: {key} table differs from the model: {_norm(got)[:3]} vs {_norm(exp)[:3]}'
    return None


def oracle(c, obs):
    if 'harness_exc' in obs: return None
    sw, desc = c['sweep'], c['desc']
    prev = []
    for j, (op, o) in enumerate(zip(c['ops'], obs['obs'])):
        if 'err' in o: return f'run {j} {op} raised {o["err"]}: {o["msg"]}'
        if op['op'] == 'new':
            if o['mem'] is not None and _norm(o['mem']) != _norm(prev): return f'a new Sampler does not continue from the file (run {j})'
            continue
        if op['op'] == 'switch':
            # the object taken up again may show what it last saw; the file must be untouched
            if prev and (o['disk'] is None or _norm(o['disk']) != _norm(prev)): return f'switching Sampler objects changed the file (step {j})'
            continue
        n = op['n']
        new = o['last']
        if len(new) != n: return f'run {j}: asked for {n} samples, got {len(new)} rows'
        e = labelled.oracle_df_rows(new, sw, desc) if hasattr(labelled, 'oracle_df_rows') else None
        if e: return f'run {j}: {e}'
        for r in new:
            for a in sw['case_args']:
                allowed = [canon(x) for x in (_override(sw, a) if (op.get('override') and a == sw['case_args'][0]) else _defaults(sw, a))]
                if r.get(a) not in allowed: return f'run {j}: argument {a}={r.get(a)!r} is not among the allowed choices'
        if not o['last_is']: return f'run {j}: last_df is not the returned table'
        mem = o['mem']
        if mem is None or len(mem) != len(prev) + n: return f'run {j}: table has {None if mem is None else len(mem)} rows, expected {len(prev)} + {n}'
        if _norm(mem[:len(prev)]) != _norm(prev): return f'run {j}: an earlier row changed'
        if _norm(mem[len(prev):]) != _norm(new): return f'run {j}: the appended rows are not the rows of this run'
        if o['disk'] is None or _norm(o['disk']) != _norm(mem): return f'run {j}: table on disk differs from the one in memory'
        prev = mem
    return None
