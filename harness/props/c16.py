"""C16 — generated cluster scripts and the grow CLI grow exactly the intended batches.

Every generated script is (1) compared byte for byte with the Lean model's rendering of the *extracted* templates,
(2) syntax-checked with `bash -n`, its embedded Python program extracted from the here-document and `ast.parse`d,
(3) EXECUTED with `bash script`, once per index of the array range found in its header (or once), with the scheduler's
task variable set, a `python` launcher first on PATH and `conda` stubbed.  Which batch a task grew is observed through
the call log of the recording function (one log file per task) and the result files present afterwards.
"""
import os, re, ast, sys, json, glob, pickle, subprocess, itertools, random, warnings
from concurrent.futures import ThreadPoolExecutor
import common, fns, sweeps, crops
from common import quiet

PROP = 'C16'
LEAN_MODULES = ['XyzProofs.Props.C16', 'XyzProofs.Refine.Script', 'XyzProofs.Props.C16Gen', 'XyzProofs.Props.C16Cli']
THEOREMS = ['Scr.c16_ids', 'Scr.c16_array_bijection', 'Scr.c16_pbs_rewrite', 'Scr.c16_single_ids', 'Scr.c16_fields_closed',
            'Scr.c16_templates_closed', 'Scr.c16_render_total', 'Scr.c16_python_balanced', 'Scr.c16_reprTuple_balanced',
            'Scr.c16_then_ready', 'Scr.c16_then_ready_single',
            # the hand model = the translated body of gen_cluster_script (Gen.gcsOpts, Gen.gcsTail), the other entry points
            'Scr.gcsOpts_refines', 'Scr.gcsTail_refines', 'Scr.gcsWrappers_faithful', 'Scr.c16_gen_fields', 'Scr.c16_gen_closed',
            # xyzpy-grow, on the translated effect skeleton of xyzpy_grow_cli.main (Gen.cliSk)
            'Scr.c16_cli_unsown_raises', 'Scr.c16_cli_unsown_trace', 'Scr.c16_cli_grow_guarded', 'Scr.c16_cli_grows_missing',
            'Scr.c16_cli_exact']
ANCHORS = ['tplSgeHeader', 'tplSgeArrayHeader', 'tplPbsHeader', 'tplPbsArrayHeader', 'tplSlurmHeader',
           'tplSlurmArrayHeader', 'tplBase', 'tplArrayGrowKwargs', 'tplSgeGrowAll', 'tplPbsGrowAll', 'tplSlurmGrowAll',
           'tplSgeGrowPartial', 'tplPbsGrowPartial', 'tplSlurmGrowPartial', 'tplGrowSingle', 'tplScriptEnd',
           'scriptPieces', 'scriptIdsChoice', 'scriptAllRangeStart', 'scriptAllRangeStop', 'scriptRunStart',
           'scriptRunStopAll', 'scriptRunStopPartial', 'scriptSingleDynamic', 'scriptSingleDynamicIds',
           'scriptPbsRewrite', 'scriptPbsReplacements', 'isReady', 'gcsOpts', 'gcsTail', 'gcsWrappers', 'cliSk']
RULE = ("schedulers {sge,pbs,slurm} x modes {array,single} x crop state {no results, some results, explicit batch_ids of "
        "length 1..B} x option spellings (time as hours/minutes/seconds ints, time=int, time=float, time='h:m:s'; "
        "mem/gigabytes/mem_per_cpu; num_workers/num_procs/num_threads; extra header kwargs incl. flag-style None/True; "
        "conda_env False/str/True with CONDA_DEFAULT_ENV; launcher/setup/shell_setup/mpi/...) on real sown crops of "
        "1..8 batches of a recording function; every script is bash -n'ed, its embedded program ast.parse'd, then "
        "executed under bash once per index of its header range; plus xyzpy-grow on partly grown crops; crop names "
        "plain / starting with each of x y z . - / only containing them (xyzpy-grow: every leading character each run; "
        "'-' names after '--'), with 0-3 crops of related names (leading characters removed or added) sown next to the "
        "named one, which must stay as they were; two array scripts per run whose tasks use 2 "
        "worker processes on batches of >= 8 settings with run times of 0 / 50 / 100 ms by a hash of the setting. quick = a "
        "boundary suite of 36 scripts (each scheduler x mode x state twice: B=1, one/two missing, one/two explicit ids) "
        "+ random ones; thorough = every B in 1..8 x scheduler x mode x {none, some, explicit length 1..B} twice with "
        "different option spellings. non-trivial = at least 2 batches and (array range of >= 2 tasks, or a partial "
        "id list, or a CLI run on a partly grown crop); distinct by full case description")
TRUSTED = ["bash and CPython as the judges of shell / Python validity (bash -n, ast.parse, and actually running them)",
           "the stub environment: a `python` launcher on PATH exec'ing /venv/bin/python, `conda` stubbed, the scheduler's "
           "task-index variable (SGE_TASK_ID / PBS_ARRAY_INDEX / SLURM_ARRAY_TASK_ID) set once per index of the header range "
           "- real schedulers' parsing of the #$ / #PBS / #SBATCH header lines is not modelled",
           "cloudpickle's ability to serialise the recording function"]
ASSUMPTIONS = ["option values are the documented kinds (ints, the float/str time spellings, str memory spellings); "
               "option strings contain no quotes/brackets (hypothesis of c16_python_balanced)",
               "no stray result files beyond batch B in the crop directory"]
PARTIAL = {'C16 (shell and Python validity, actual growing)':
           "proved on the extracted templates: decision logic, array bijection, field closure, bracket/quote balance "
           "(a necessary condition only). That the script is valid bash, the embedded program valid Python and that "
           "running it grows the batches is validated by executing the real interpreters, not proved.",
           'c16_then_ready': "stated over an abstract grow-task relation (a task adds the result of its batch); that the "
                             "reaped values equal a direct run is C04's theorem plus the reap-vs-direct comparison here"}
SCHEDS, MODES = ['sge', 'pbs', 'slurm'], ['array', 'single']
# crop names: plain ones, ones that START with a character of the directory prefix '.xyz-' and ones that only CONTAIN them
NAMES_LEAD = ['x2', 'xrun', 'yield', 'y-1', 'zeta', 'zz-top', '.hidden', '..dots', '-lead', '-x.y', 'xyz', 'xyz-run', '.xyz-inner', 'yz.run', 'x']
NAMES_INNER = ['a-b.c', 'exp.x', 'test_xyz', 'crop_zyx', 'run.xyz-', 'my-x']
NAMES_PLAIN = ['t', 'sweep', 'run1', 'Run', 'data_07']
NAMES = NAMES_LEAD + NAMES_INNER + NAMES_PLAIN


def pick_name(rng):
    return rng.choice(rng.choice([NAMES_LEAD, NAMES_LEAD, NAMES_INNER, NAMES_PLAIN]))


def name_class(name):
    if name[0] in '.xyz-': return 'starts with ' + name[0]
    return 'contains one of .xyz-' if any(ch in name for ch in '.xyz-') else 'plain'


def siblings_for(rng, name, p=0.6):
    """names of other crops sown in the same parent directory: the name without its leading characters from '.xyz-',
    without its first character, with a character or the directory prefix put in front / behind"""
    cands = [name.lstrip('.xyz-'), name[1:], rng.choice('xyz.-') + name, name + rng.choice('xyz'), '.xyz-' + name, 'xyz-' + name]
    cands = [x for x in dict.fromkeys(cands) if x and x != name]
    out = [x for x in cands[:2] if rng.random() < p] + [x for x in cands[2:] if rng.random() < 0.15]
    return out[:3]
VARS = {'sge': 'SGE_TASK_ID', 'pbs': 'PBS_ARRAY_INDEX', 'slurm': 'SLURM_ARRAY_TASK_ID'}
HEADER_RE = {'sge': r'^#\$ -t (\d+)-(\d+)$', 'pbs': r'^#PBS -J (\d+)-(\d+)$', 'slurm': r'^#SBATCH --array=(\d+)-(\d+)$'}
REPO = os.environ.get('XYZ_REPO', '/repo')
HARNESS = os.path.dirname(os.path.dirname(os.path.abspath(__file__)))
MAXPAR = 16

# ----------------------------------------------------------------------------- option spellings

G_TIME = [{}, {'hours': 2}, {'minutes': 30, 'seconds': 15}, {'hours': 1, 'minutes': 5, 'seconds': 7}, {'time': 3},
          {'time': {'float': '1.5'}}, {'time': '1:30:00'}, {'time': '12:05:09'}, {'seconds': 45}, {'time': {'float': '0.25'}}]
G_MEM = [{}, {'mem': 4}, {'gigabytes': 2}, {'mem_per_cpu': 2}, {'mem': '3'}, {'gigabytes': 16, 'mem_per_cpu': '500M'},
         {'mem': '3G', '_only': 'slurm'}]
G_WORK = [{'num_procs': 1}, {}, {'num_procs': 4}, {'num_procs': 2, 'num_workers': 2}, {'num_procs': 4, 'num_threads': 3},
          {'num_procs': 5, 'num_workers': 2}, {'num_procs': 2, 'num_nodes': 2}, {'num_procs': 3, 'mpi': True}]
G_EXTRA = [[], [['gpu', 1]], [['requeue', None]], [['exclusive', True], ['constraint', 'a100']],
           [['gpus', 2], ['requeue', None], ['nice', False]], [['account', 'proj-7'], ['qos', 'long']]]
G_CONDA = [{'conda_env': False}, {}, {'conda_env': 'myenv'}, {'_cde': 'base'}, {'_cde': 'base', 'shell_setup': 'conda activate other'},
           {'conda_env': False, 'shell_setup': 'export FOO=1'}, {'_cde': 'base', 'conda_env': False}]
G_MISC = [{}, {'launcher': 'python -u'}, {'setup': 'import os'}, {'temp_gigabytes': 5, 'output_directory': '@D/out dir'.replace(' ', '_')},
          {'debugging': True}, {'output_directory': '@D/out'}]
GROUPS = [G_TIME, G_MEM, G_WORK, G_EXTRA, G_CONDA, G_MISC]


def make_opts(sched, picks):
    """one option dict from one entry per group; `_cde` = value of CONDA_DEFAULT_ENV during the call"""
    o, cde = {}, None
    for g, i in zip(GROUPS, picks):
        e = g[i % len(g)]
        if isinstance(e, list):
            if e: o['extra'] = e
            continue
        e = dict(e)
        if e.pop('_only', sched) != sched: continue
        if '_cde' in e: cde = e.pop('_cde')
        o.update(e)
    return o, cde


def gen_crop(rng, B, per_batch=1):
    """a sweep with at least B settings (per_batch * B, capped at 16, when given) and a batching that gives exactly B batches"""
    while True:
        sw = crops.gen_crop_sweep(rng, max_settings=24)
        n = sweeps.n_settings(sw)
        if n >= max(B, min(per_batch * B, 16)): break
    opts = [{'nb': B}] + [{'bs': s} for s in range(1, n + 1) if -(-n // s) == B]
    if B == n: opts.append({})
    return sw, rng.choice(opts), n


def mk_case(rng, sched, mode, state, B, k=None, picks=None, spelling=None, name=None, per_batch=1, kind=None):
    """state 'none' | 'some' (k = number of missing batches) | 'explicit' (k = number of requested ids)"""
    sw, batching, n = gen_crop(rng, B, per_batch)
    ids_all = list(range(1, B + 1))
    pre, ids = [], None
    if state == 'some':
        k = k if k is not None else rng.randint(1, B - 1)
        miss = sorted(rng.sample(ids_all, k))
        pre = [i for i in ids_all if i not in miss]
    elif state == 'explicit':
        k = k if k is not None else rng.randint(1, B)
        if B > k and rng.random() < 0.5:
            pre = sorted(rng.sample(ids_all, rng.randint(0, B - k)))
        ids = rng.sample(ids_all, k)                       # any order; may include batches that already have a result
        if rng.random() < 0.4: ids.sort()
    picks = picks if picks is not None else [rng.randrange(len(g)) if rng.random() < 0.6 else 0 for g in GROUPS]
    opts, cde = make_opts(sched, picks)
    if opts.get('num_workers') and n < min(3 * B, 16):
        # several worker processes per task: batches of several settings, so that the settings of one batch can finish
        # out of submission order (the recording function staggers its run times)
        sw, batching, n = gen_crop(rng, B, per_batch=3)
    name = name if name is not None else (pick_name(rng) if rng.random() < 0.6 else 't')
    return {'name': name, 'siblings': siblings_for(rng, name, 0.35), 'sib_pre': rng.random() < 0.3,
            'sched': sched if rng.random() < 0.85 else sched.upper(), 'mode': mode, 'state': state, 'B': B, 'n': n,
            'sweep': sw, 'kind': kind or rng.choice(sweeps.KINDS_BASIC[:6]), 'batching': batching, 'pre': pre, 'ids': ids,
            'ids_spelling': spelling or rng.choice(['tuple', 'list']), 'opts': opts, 'cde': cde,
            # which method generates the script, and whether the crop was created with a relative parent directory
            'entry': rng.choice(['cluster', 'cluster', 'cluster', 'specific'] + (['qsub'] if sched in ('sge', 'pbs') else [])),
            'relparent': rng.random() < 0.15}


def mk_cli(rng, B, k, workers=None, name=None, sib=0.6):
    sw, batching, n = gen_crop(rng, B, per_batch=3 if workers else 1)
    miss = sorted(rng.sample(range(1, B + 1), k))
    name = name if name is not None else pick_name(rng)
    return {'name': name, 'siblings': siblings_for(rng, name, sib), 'sib_pre': rng.random() < 0.3,
            # a name with a leading '-' can only follow '--' on a command line; any name may
            'cli_form': 'dashdash' if name.startswith('-') or rng.random() < 0.25 else 'first',
            'cli': True, 'B': B, 'n': n, 'sweep': sw, 'kind': rng.choice(sweeps.KINDS_BASIC[:6]), 'batching': batching,
            'pre': [i for i in range(1, B + 1) if i not in miss], 'num_workers': workers, 'state': 'cli'}


def mk_invalid(rng, sched, opts):
    c = mk_case(rng, sched, 'array', 'none', 2, picks=[0] * len(GROUPS))
    c['opts'] = opts; c['invalid'] = True
    return c


def boundary(rng, offset=0):
    """36 scripts: every scheduler x mode x state twice, aimed at the places where the decision logic branches"""
    out, i = [], offset
    for sched in SCHEDS:
        for mode in MODES:
            for state, k, B in (('none', None, 1), ('none', None, rng.randint(2, 8)),
                                ('some', 1, rng.randint(2, 6)), ('some', 2, rng.randint(3, 8)),
                                ('explicit', 1, rng.randint(1, 5)), ('explicit', 2, rng.randint(3, 8))):
                picks = [(i + j * 5) if j else i for j in range(len(GROUPS))]      # walk through every spelling
                if i % 3 == 0: picks[2] = 0
                c = mk_case(rng, sched, mode, state, B, k=k, picks=picks)
                if state == 'explicit' and k == 2:
                    # requested ids are neither everything that is missing nor only missing ones
                    c['pre'] = [c['ids'][0]] if i % 2 else []
                out.append(c); i += 1
    return out


def cases(ctx):
    rng = ctx.rng
    out = boundary(rng, offset=ctx.seed * 7)
    out += [mk_cli(rng, rng.randint(2, 8), 1), mk_cli(rng, 4, 4), mk_cli(rng, rng.randint(3, 8), 2, workers=2),
            mk_cli(rng, rng.randint(1, 3), 1, workers=3)]
    # the command line on crops named with / after the characters of the directory prefix '.xyz-': one name per leading
    # character and two that only contain them, with and without a crop of the related name next to it
    lead = {}
    for nm in rng.sample(NAMES_LEAD, len(NAMES_LEAD)): lead.setdefault(nm[0], nm)
    for j, nm in enumerate(list(lead.values()) + rng.sample(NAMES_INNER, 2)):
        B = rng.randint(2, 5)
        out.append(mk_cli(rng, B, rng.randint(1, B), name=nm, sib=(0.95 if (j + ctx.seed) % 2 == 0 else 0.0)))
    # several worker processes inside one task, batches of >= 8 settings whose run times differ, results that tell the
    # settings apart: the results of a batch must be stored in the order of its settings, not in completion order
    # (array tasks hand num_workers to grow(), which runs the settings of ONE batch on the workers; the single job and the
    # command line spread whole batches over them)
    for sched in rng.sample(SCHEDS, 2):
        pk = [0] * len(GROUPS); pk[2] = rng.choice([3, 5])
        out.append(mk_case(rng, sched, 'array', rng.choice(['none', 'explicit']), rng.randint(1, 2), picks=pk, per_batch=12,
                           kind=rng.choice([{'scalar': 'int'}, {'scalar': 'num'}, {'scalar': 'str'}])))
    # nothing left to grow: the array range is empty (1-0), the single job and the CLI are no-ops
    out += [mk_case(rng, SCHEDS[ctx.seed % 3], 'array', 'some', 3, k=0), mk_case(rng, SCHEDS[(ctx.seed + 1) % 3], 'single', 'some', 2, k=0)]
    out += [mk_invalid(rng, 'slurm', {'gigabytes': 2, 'mem': 4}), mk_invalid(rng, 'pbs', {'time': 2, 'hours': 1}),
            mk_invalid(rng, 'sge', {'conda_env': None})]
    if ctx.tier == 'quick':
        for _ in range(6):
            B = rng.randint(2, 8)
            out.append(mk_case(rng, rng.choice(SCHEDS), rng.choice(MODES), rng.choice(['none', 'some', 'explicit']), B))
    else:
        i = 0
        for rep in range(2):
            for B in range(1, 9):
                for sched in SCHEDS:
                    for mode in MODES:
                        states = [('none', None)] + ([('some', rng.randint(1, B - 1))] if B > 1 else []) + \
                                 [('explicit', k) for k in range(1, B + 1)]
                        for state, k in states:
                            i += 1
                            picks = [rng.randrange(len(g)) for g in GROUPS] if rep else [i + j * 3 for j in range(len(GROUPS))]
                            out.append(mk_case(rng, sched, mode, state, B, k=k, picks=picks))
        for B in range(1, 9):
            for k in range(1, B + 1):
                out.append(mk_cli(rng, B, k, workers=(2 if (B + k) % 5 == 0 else None)))
    for c in out:
        ctx.count('kind', 'cli' if c.get('cli') else 'invalid-options' if c.get('invalid') else 'script')
        if not c.get('cli'):
            ctx.count('scheduler', c['sched'].lower()); ctx.count('mode', c['mode']); ctx.count('state', c['state'])
            ctx.count('n_ids', len(c['ids']) if c['ids'] is not None else 'auto')
            for k in c['opts']: ctx.count('option', k)
            if c['cde']: ctx.count('option', 'CONDA_DEFAULT_ENV')
        ctx.count('batches', c['B'])
        how = 'invalid-options' if c.get('invalid') else 'cli' if c.get('cli') else c.get('entry', 'cluster')
        ctx.count('crop_name', f"{how}: {name_class(c.get('name', 't'))}")
        ctx.count('sibling_crops', f"{'cli' if c.get('cli') else 'script'}: {len(c.get('siblings') or [])}")
        if c.get('cli'): ctx.count('cli_form', c.get('cli_form', 'first'))
        nw = c.get('num_workers') if c.get('cli') else c['opts'].get('num_workers')
        if nw: ctx.count('num_workers', f"{'cli' if c.get('cli') else 'script'}: {nw} workers, about {max(1, round(c['n'] / c['B']))} settings per batch")
    return out


def search_cases(ctx):
    """directed search when a proof or the correspondence breaks: small crops, default options, every branch"""
    rng = random.Random(ctx.seed + 1000)
    out = []
    for B in (1, 2, 3):
        for sched in SCHEDS:
            for mode in MODES:
                sts = [('none', None)] + ([('some', 1)] if B > 1 else []) + ([('some', 2)] if B > 2 else []) + \
                      [('explicit', k) for k in range(1, B + 1)]
                for state, k in sts:
                    out.append(mk_case(rng, sched, mode, state, B, k=k, picks=[0] * len(GROUPS)))
    return out


def nontrivial(c):
    if c.get('invalid'): return False
    if c.get('cli'): return c['B'] >= 2 and 0 < len(c['pre']) < c['B']
    if c['B'] < 2: return False
    n_ids = len(c['ids']) if c['ids'] is not None else c['B'] - len(c['pre'])
    return (c['mode'] == 'array' and n_ids >= 2) or c['state'] in ('some', 'explicit')


def shrink_candidates(c):
    if c.get('siblings'):
        yield dict(c, siblings=c['siblings'][:-1])
    if c.get('cli') or c.get('invalid'): return
    if c['opts'] != {'num_procs': 1} or c['cde']:
        yield dict(c, opts={'num_procs': 1}, cde=None)
    if c['ids'] is not None and len(c['ids']) > 2:
        yield dict(c, ids=c['ids'][:2])
    if c['state'] == 'some' and len(c['pre']) > 1:
        yield dict(c, pre=c['pre'][:1])


def finding_key(c, obs):
    if c.get('cli') or c.get('invalid') or not isinstance(obs, dict): return None
    if c['sched'].lower() == 'sge' and c['mode'] == 'array' and not obs.get('py_ok', True) \
            and 'batch_ids = ' in obs.get('python', '') and re.search(r'batch_ids = .*\)\]$', obs.get('python', ''), re.M):
        return 'D9-sge-partial-stray-bracket'
    return None


# ----------------------------------------------------------------------------- stub environment

_ENV = {}


def setup(ctx):
    root = common.fresh_dir('c16env')
    bind = os.path.join(root, 'bin'); os.makedirs(bind)
    home = os.path.join(root, 'home'); os.makedirs(home)
    with open(os.path.join(bind, 'python'), 'w') as f:
        f.write('#!/bin/sh\n# launcher used by the generated scripts: the interpreter under test with the work tree importable\n'
                f'PYTHONPATH="{REPO}:{HARNESS}" exec /venv/bin/python "$@"\n')
    with open(os.path.join(bind, 'conda'), 'w') as f:
        f.write('#!/bin/sh\necho "conda $*" >> "${XYZV_CONDALOG:-/dev/null}"\nexit 0\n')
    for p in ('python', 'conda'): os.chmod(os.path.join(bind, p), 0o755)
    _ENV.update(root=root, bin=bind, home=home)


def teardown(ctx):
    sweeps.shutdown_executors()
    if _ENV.get('root'): common.rm(_ENV['root'])
    _ENV.clear()


def child_env(extra):
    env = {'PATH': _ENV['bin'] + ':/usr/local/bin:/usr/bin:/bin', 'HOME': _ENV['home'], 'LANG': 'C.UTF-8',
           'PYTHONWARNINGS': 'ignore', 'MPLBACKEND': 'Agg', 'TQDM_DISABLE': '1',
           # staggered run times: with num_workers the cases of a batch finish out of submission order
           fns.STAGGER_ENV: '0.05', fns.STAGGER_SPREAD_ENV: '1'}
    env.update(extra)
    return env


# ----------------------------------------------------------------------------- real run

def py_kwargs(opts, d):
    kw = {}
    for k, v in opts.items():
        if k == 'extra':
            for ek, ev in v: kw[ek] = ev
        elif isinstance(v, dict) and 'float' in v: kw[k] = float(v['float'])
        elif isinstance(v, str) and v.startswith('@D'): kw[k] = d + v[2:]
        else: kw[k] = v
    return kw


def extract_program(text):
    """the here-document body handed to the launcher: lines between `... << EOM` and the line `EOM`"""
    lines = text.split('\n')
    starts = [i for i, l in enumerate(lines) if l.rstrip().endswith('<< EOM')]
    if len(starts) != 1: return None, f'{len(starts)} here-document markers'
    for j in range(starts[0] + 1, len(lines)):
        if lines[j] == 'EOM':
            return '\n'.join(lines[starts[0] + 1:j]) + '\n', None
    return '\n'.join(lines[starts[0] + 1:]), 'here-document is not terminated by an EOM line'


def batch_index(loc):
    """canonical kwargs -> batch id, from the batch files"""
    idx, sizes = {}, {}
    for f in glob.glob(os.path.join(loc, 'batches', 'xyz-batch-*.jbdmp')):
        i = int(re.findall(r'xyz-batch-(\d+)\.jbdmp$', f)[0])
        with open(f, 'rb') as fh: settings = pickle.load(fh)
        sizes[i] = len(settings)
        for kw in settings:
            idx[json.dumps(common.canon(kw), sort_keys=True)] = i
    return idx, sizes


def read_calls(path, idx):
    """batch ids whose settings a task evaluated -> how often each setting"""
    per = {}
    if os.path.exists(path):
        with open(path) as f:
            for l in f:
                if not l.strip(): continue
                key = json.dumps(common.canon(json.loads(l)), sort_keys=True)
                per.setdefault(idx.get(key, -1), []).append(key)
    return per


def summarise_calls(per, sizes):
    """{batch: 'once' | description} — 'once' = every setting of that batch was evaluated exactly once"""
    out = {}
    for b, keys in per.items():
        ok = b in sizes and len(keys) == sizes[b] and len(set(keys)) == len(keys)
        out[str(b)] = 'once' if ok else f'{len(keys)} calls on {len(set(keys))} of {sizes.get(b)} settings'
    return out


class Prep:
    pass


def prepare(c, ctx):
    """sow the crop, pre-grow, generate the script, static checks; returns the state the execution phase needs"""
    import xyzpy as xyz
    p = Prep(); p.c = c
    p.d = d = common.fresh_dir('c16')
    sw, kind = c['sweep'], c['kind']
    ssw = crops.sorted_sweep(sw)
    p.f = f = sweeps.make_rec(ssw, kind)
    os.environ.pop(fns.LOG_ENV, None)
    cwd0 = os.getcwd()
    if c.get('relparent'):
        os.chdir(os.path.dirname(d))       # (prepare runs on the main thread while no task is running)
    try:
        return _prepare(c, ctx, p, d, os.path.basename(d) if c.get('relparent') else d)
    finally:
        os.chdir(cwd0)


def _prepare(c, ctx, p, d, parent_arg):
    import xyzpy as xyz
    sw, kind = c['sweep'], c['kind']
    f = p.f
    with quiet():
        b = c['batching']
        def sown(name):
            crop = xyz.Crop(fn=f, name=name, parent_dir=parent_arg, batchsize=b.get('bs'), num_batches=b.get('nb'))
            if sw['rows'] is not None and not sw['combo_args']:
                crop.sow_cases(sw['case_args'], sweeps.py_cases(sw, 'tuple'), verbosity=0)
            else:
                crop.sow_combos(sweeps.py_combos(sw, 'dict'), cases=sweeps.py_cases(sw, 'dict'), verbosity=0)
            return crop
        p.name = c.get('name', 't')
        crop = sown(p.name)
        if c['pre']: crop.grow(list(c['pre']), verbosity=0)
        # other crops of the same function in the same parent directory, under related names: they are not the one named
        p.sibs = {}
        for sname in c.get('siblings') or []:
            sib = sown(sname)
            if c.get('sib_pre'): sib.grow([1], verbosity=0)
            p.sibs[sname] = os.path.abspath(sib.location)
    p.crop, p.loc = crop, os.path.abspath(crop.location)
    p.idx, p.sizes = batch_index(crop.location)
    obs = {'B': crop.num_batches, 'before': crops.ls(crop.location)['r'], 'parent_dir': os.path.realpath(d),
           'home': _ENV['home'], 'tasks': [], 'siblings_before': {sn: crops.ls(l)['r'] for sn, l in p.sibs.items()}}
    if len({p.loc} | set(p.sibs.values())) != 1 + len(p.sibs):
        obs['harness_exc'] = 'two crops of the case share a directory'
    p.obs = obs
    p.jobs = []
    if obs['B'] != c['B']:
        obs['harness_exc'] = f'crop has {obs["B"]} batches, case wanted {c["B"]}'
        return p
    if c.get('cli'):
        p.jobs = [('cli', None)]
        return p
    # ---- generate the script
    kw = py_kwargs(c['opts'], d)
    ids = c['ids']
    if ids is not None: ids = tuple(ids) if c['ids_spelling'] == 'tuple' else list(ids)
    old = {k: os.environ.get(k) for k in ('HOME', 'CONDA_DEFAULT_ENV')}
    os.environ['HOME'] = _ENV['home']
    if c['cde'] is None: os.environ.pop('CONDA_DEFAULT_ENV', None)
    else: os.environ['CONDA_DEFAULT_ENV'] = c['cde']
    try:
        with warnings.catch_warnings():
            warnings.simplefilter('ignore')
            entry = c.get('entry', 'cluster')
            if entry == 'specific':
                text = getattr(crop, 'gen_%s_script' % c['sched'].lower())(batch_ids=ids, mode=c['mode'], **kw)
            elif entry == 'qsub':
                text = crop.gen_qsub_script(batch_ids=ids, scheduler=c['sched'], mode=c['mode'], **kw)
            else:
                text = crop.gen_cluster_script(c['sched'], batch_ids=ids, mode=c['mode'], **kw)
    except Exception as e:
        obs['err'] = type(e).__name__; obs['msg'] = str(e)[:200]
        return p
    finally:
        for k, v in old.items():
            if v is None: os.environ.pop(k, None)
            else: os.environ[k] = v
    obs['text'] = text
    p.script = os.path.join(d, 'job.sh')
    with open(p.script, 'w') as fh: fh.write(text)
    r = subprocess.run(['bash', '-n', p.script], capture_output=True, text=True)
    obs['bash_n'] = (r.returncode == 0 and 'here-document' not in r.stderr)
    obs['bash_err'] = r.stderr[-300:]
    sched = c['sched'].lower()
    body, why = extract_program(text)
    obs['python'] = body if body is not None else ''
    if why:
        obs['py_ok'], obs['py_err'] = False, why
    else:
        try:
            ast.parse(body.replace('${%s}' % VARS[sched], '1').replace('$' + VARS[sched], '1'))
            obs['py_ok'], obs['py_err'] = True, None
        except SyntaxError as e:
            obs['py_ok'], obs['py_err'] = False, f'SyntaxError: {e.msg} (line {e.lineno}: {(e.text or "").strip()[:80]})'
    hs = [m for l in text.split('\n') for m in [re.match(HEADER_RE[sched], l)] if m]
    other = [l for l in text.split('\n') if any(re.match(HEADER_RE[s], l) for s in SCHEDS if s != sched)]
    obs['header'] = [int(hs[0].group(1)), int(hs[0].group(2))] if len(hs) == 1 else None
    obs['header_lines'] = len(hs) + len(other)
    if obs['header'] is not None:
        a, b = obs['header']
        p.jobs = [('task', t) for t in range(a, min(b, a + 63) + 1)]
    else:
        p.jobs = [('task', None)]
    return p


def run_job(p, job):
    """one execution of the script (or of the CLI) in a child process"""
    kind, t = job
    tag = 'x' if t is None else str(t)
    log = os.path.join(p.d, f'calls-{tag}.log')
    extra = {fns.LOG_ENV: log, 'XYZV_CONDALOG': os.path.join(p.d, f'conda-{tag}.log')}
    if kind == 'cli':
        cmd = [os.path.join(_ENV['bin'], 'python'), '-m', 'xyzpy.gen.xyzpy_grow_cli']
        optv = ['--parent-dir', p.d] + (['--num-workers', str(p.c['num_workers'])] if p.c.get('num_workers') else [])
        cmd += (optv + ['--', p.name]) if p.c.get('cli_form') == 'dashdash' else ([p.name] + optv)
    else:
        if t is not None: extra[VARS[p.c['sched'].lower()]] = str(t)
        cmd = ['bash', p.script]
    try:
        r = subprocess.run(cmd, env=child_env(extra), cwd=_ENV['home'], capture_output=True, text=True, timeout=300)
        rc, out = r.returncode, (r.stdout[-400:] + '\n' + r.stderr[-1200:])
    except subprocess.TimeoutExpired:
        rc, out = -9, 'timeout'
    per = read_calls(log, p.idx)
    conda = open(extra['XYZV_CONDALOG']).read().split('\n') if os.path.exists(extra['XYZV_CONDALOG']) else []
    finished = 'XYZPY script finished' in out or kind == 'cli'
    err_lines = [l for l in out.split('\n') if re.search(r'Error|Traceback|error:', l)]
    return {'t': t, 'rc': rc, 'finished': finished, 'grew': sorted(per), 'calls': summarise_calls(per, p.sizes),
            'after': crops.ls(p.loc)['r'], 'conda': [l for l in conda if l],
            'err': (err_lines[-1][:300] if err_lines else None)}


def finish(p, ctx):
    import xyzpy as xyz
    c, obs = p.c, p.obs
    try:
        if 'harness_exc' in obs or 'err' in obs: return obs
        obs['after'] = crops.ls(p.loc)['r']
        obs['siblings_after'] = {sn: crops.ls(l)['r'] for sn, l in p.sibs.items()}
        with quiet():
            crop = xyz.Crop(name=p.name, parent_dir=p.d)
            # a request for only some of the missing ids leaves the crop incomplete by design: grow the rest here so that
            # the final reap is always checked
            rest = [i for i in range(1, obs['B'] + 1) if i not in obs['after']]
            obs['completed_by_harness'] = rest
            intended = c['ids'] if c.get('ids') is not None else [i for i in range(1, obs['B'] + 1) if i not in obs['before']]
            if rest and not any(i in rest for i in intended):
                crop.grow(rest, verbosity=0)
            try:
                obs['ready'] = bool(crop.is_ready_to_reap())
                obs['reap'] = sweeps.canon_result(crop.reap()) if obs['ready'] else {'err': 'notReady'}
            except Exception as e:
                obs['reap'] = {'err': type(e).__name__, 'msg': str(e)[:200]}
            ssw = crops.sorted_sweep(c['sweep'])
            try:
                obs['direct'] = sweeps.canon_result(xyz.combo_runner(p.f, sweeps.py_combos(ssw, 'dict'),
                                                                     cases=sweeps.py_cases(ssw, 'dict'), verbosity=0))
            except Exception as e:
                obs['direct'] = {'err': type(e).__name__}
        return obs
    finally:
        common.rm(p.d)


def run_real_many(cs, ctx):
    if not _ENV: setup(ctx)
    out = [None] * len(cs)
    CH = 48
    with ThreadPoolExecutor(max_workers=MAXPAR) as pool:
        for lo in range(0, len(cs), CH):
            preps = []
            for c in cs[lo:lo + CH]:
                try:
                    preps.append(prepare(c, ctx))
                except Exception as e:
                    import traceback
                    p = Prep(); p.c = c; p.d = None; p.jobs = []
                    p.obs = {'harness_exc': f'{type(e).__name__}: {e}', 'tb': traceback.format_exc()[-1500:]}
                    preps.append(p)
            futs = [(p, pool.submit(run_job, p, job)) for p in preps for job in p.jobs]
            for p, fu in futs:
                try:
                    p.obs['tasks'].append(fu.result())
                except Exception as e:
                    p.obs['harness_exc'] = f'task execution failed: {type(e).__name__}: {e}'
            for k, p in enumerate(preps):
                if p.d is None:
                    out[lo + k] = p.obs; continue
                try:
                    out[lo + k] = finish(p, ctx)
                except Exception as e:
                    import traceback
                    out[lo + k] = {'harness_exc': f'{type(e).__name__}: {e}', 'tb': traceback.format_exc()[-1500:]}
    return out


def run_real(c, ctx):
    return run_real_many([c], ctx)[0]


# ----------------------------------------------------------------------------- model

def model_request(c, obs):
    if 'harness_exc' in obs: return None
    if c.get('cli'):
        return {'op': 'script_cli', 'num_batches': c['B'], 'done': obs['before']}
    opts = {}
    for k, v in c['opts'].items():
        opts[k] = (obs['parent_dir'] + v[2:]) if isinstance(v, str) and v.startswith('@D') else v
    return {'op': 'script', 'scheduler': c['sched'], 'mode': c['mode'], 'batch_ids': c['ids'], 'num_batches': c['B'],
            'done': obs['before'], 'opts': opts,
            'env': {'home': obs['home'], 'conda_default_env': c['cde'], 'name': c.get('name', 't'), 'parent_dir': obs['parent_dir']}}


def _first_diff(a, b):
    for i, (x, y) in enumerate(zip(a, b)):
        if x != y: break
    else:
        i = min(len(a), len(b))
    return f'at offset {i}: real {a[max(0, i - 30):i + 40]!r} model {b[max(0, i - 30):i + 40]!r}'


def compare(c, obs, rep):
    if 'harness_exc' in obs: return None
    if c.get('cli'):
        grew = sorted({b for t in obs['tasks'] for b in t['grew']})
        return None if grew == rep.get('ids') else f'xyzpy-grow grew {grew}, model {rep.get("ids")}'
    if 'err' in obs or 'err' in rep:
        if ('err' in obs) == ('err' in rep) and 'gen_err' in rep and not rep['gen_err']:
            return f'error mismatch: real {obs.get("err")} {obs.get("msg", "")}, the translated body does not raise'
        return None if ('err' in obs) == ('err' in rep) else \
            f'error mismatch: real {obs.get("err")} {obs.get("msg", "")} model {rep.get("err")}'
    if obs['text'] != rep['text']:
        return 'script text differs from the model rendering ' + _first_diff(obs['text'], rep['text'])
    if 'text_gen' in rep and obs['text'] != rep['text_gen']:
        # the text computed by the TRANSLATED body of gen_cluster_script (Gen.gcsOpts / Gen.gcsTail) — checks the translator
        return 'script text differs from the rendering of the translated body ' + \
            (_first_diff(obs['text'], rep['text_gen']) if rep['text_gen'] is not None else '(the translated body raised)')
    if obs['python'] != rep['python']:
        return 'embedded program differs from the model ' + _first_diff(obs['python'], rep['python'])
    if c['mode'] == 'array':
        want = None if rep['rewritten'] else rep['run']
        if obs['header'] != want and not (want is not None and obs['header'] is None and want[1] < want[0]):
            return f'header range {obs["header"]} vs model run range {want} (rewritten={rep["rewritten"]})'
        mt = {t: b for t, b in rep['tasks']}
        for t in obs['tasks']:
            tt = t['t'] if t['t'] is not None else 1
            if t['grew'] != ([mt[tt]] if mt.get(tt) is not None else []):
                return f'task {t["t"]} grew batches {t["grew"]}, model taskBatch = {mt.get(tt)} ({t["err"]})'
    else:
        if obs['header'] is not None: return f'single-mode script with an array header {obs["header"]}'
        grew = sorted({b for t in obs['tasks'] for b in t['grew']})
        if grew != sorted(rep['single_ids']):
            return f'single job grew {grew}, model singleIds = {rep["single_ids"]}'
    return None


# ----------------------------------------------------------------------------- the property itself

def oracle(c, obs):
    if 'harness_exc' in obs: return None
    B = obs['B']
    before = obs['before']
    missing = [i for i in range(1, B + 1) if i not in before]
    if c.get('invalid'):
        return None                                     # contradictory options: outside the property's quantifier
    if 'err' in obs:
        return f'gen_cluster_script raised {obs["err"]}: {obs.get("msg")} for valid options'
    tasks = obs['tasks']
    if c.get('cli'):
        intended = missing
        t = tasks[0]
        if t['rc'] != 0: return f'xyzpy-grow on crop {c.get("name", "t")!r} exited with {t["rc"]}: {t["err"]}'
    else:
        intended = list(c['ids']) if c['ids'] is not None else missing
        if not obs['bash_n']: return f'bash -n rejects the script: {obs["bash_err"]}'
        if not obs['py_ok']: return f'embedded Python program is not valid: {obs["py_err"]}'
        if c['mode'] == 'array':
            if obs['header_lines'] > 1: return 'more than one array-range header line'
            if obs['header'] is not None:
                if obs['header'] != [1, len(intended)]:
                    return f'array range {obs["header"][0]}-{obs["header"][1]} but {len(intended)} batches are to be grown ({intended})'
            elif len(intended) != 1:
                return f'no array range in the header but {len(intended)} batches are to be grown ({intended})'
            if len(tasks) != len(intended): return f'{len(tasks)} tasks for {len(intended)} intended batches'
            for t in tasks:
                if t['rc'] != 0 or not t['finished'] or t['err']:
                    return f'task {t["t"]} failed (rc {t["rc"]}): {t["err"]}'
                if len(t['grew']) != 1 or t['grew'][0] not in intended:
                    return f'task {t["t"]} grew batches {t["grew"]}; intended ids {intended}'
                if t['calls'][str(t['grew'][0])] != 'once':
                    return f'task {t["t"]}, batch {t["grew"][0]}: {t["calls"][str(t["grew"][0])]}'
                if t['grew'][0] not in t['after']: return f'task {t["t"]} left no result file for batch {t["grew"][0]}'
            grown = [t['grew'][0] for t in tasks]
            if sorted(grown) != sorted(intended):
                return f'tasks grew {sorted(grown)}, intended {sorted(intended)} (each exactly once)'
        else:
            if obs['header'] is not None or obs['header_lines']: return 'single-mode script carries an array range'
            t = tasks[0]
            if t['rc'] != 0 or not t['finished'] or t['err']: return f'single job failed (rc {t["rc"]}): {t["err"]}'
    if not c.get('cli') and c['mode'] == 'array':
        pass
    else:
        t = tasks[0]
        if sorted(t['grew']) != sorted(intended): return f'job grew batches {t["grew"]}, intended {sorted(intended)}'
        bad = {b: v for b, v in t['calls'].items() if v != 'once'}
        if bad: return f'batches not evaluated exactly once: {bad}'
    if obs.get('siblings_after') != obs.get('siblings_before'):
        return (f'a crop other than the named one ({c.get("name", "t")!r}) was grown: results of the crops next to it were '
                f'{obs.get("siblings_before")}, now {obs.get("siblings_after")}')
    want_after = sorted(set(before) | set(intended))
    if obs['after'] != want_after:
        return f'result files of crop {c.get("name", "t")!r} after all tasks {obs["after"]}, expected previous ∪ intended = {want_after}'
    if not obs.get('ready'): return f'crop not ready to reap after all batches were grown (results {obs["after"]}, completed by harness {obs["completed_by_harness"]})'
    if obs['reap'] != obs['direct']: return 'reaped results differ from the direct run'
    # conda activation requested => conda was invoked with that environment before python ran
    if not c.get('cli'):
        want = c['opts'].get('conda_env', True)
        env = want if isinstance(want, str) else (c['cde'] if want is True and c['cde'] and 'activate' not in c['opts'].get('shell_setup', '') else None)
        for t in tasks:
            got = [l for l in t['conda'] if l.startswith('conda activate')]
            if env and f'conda activate {env}' not in got: return f'conda activate {env} was not run (saw {got})'
    return None
