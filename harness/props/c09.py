"""C09 — a partial reap shows finished batches exactly and everything else as missing."""
import os, json, itertools
import common, fns, sweeps, crops
from common import canon

PROP = 'C09'
LEAN_MODULES = ['XyzProofs.Props.C09', 'XyzProofs.Refine.Reap', 'XyzProofs.Props.C12Skel',
                'XyzProofs.Refine.Reaper', 'XyzProofs.Props.C09Reaper']
THEOREMS = ['Crop.c09_stream_partial', 'Crop.c09_unshuffle_positions', 'Crop.c09_partial_linear', 'Crop.c09_refused',
            'Crop.c09_no_delete_by_default', 'Crop.c09_explicit_clean_up', 'Crop.c09_needs_one_finished', 'Crop.reapRaw_dir',
            'Crop.partialStream_eq_tagged', 'Crop.c09_partial_positions', 'Crop.nested_of_linear', 'Crop.c09_partial_exact',
            'Refine.calcCleanUp_refines', 'Refine.checkReady_refines', 'Refine.reaperUseDefault_spec',
            'Skel.reapCombos_deletes_iff', 'Skel.reapHarvest_deletes_iff', 'Skel.reapSamples_deletes_iff',
            # the Reaper translated from the source (anchors_reaper.py): hand-written stream = translated Reaper
            'Reaper.reaperFiles_eq', 'Reaper.reapStep_refines', 'Reaper.reapStream_refines', 'Reaper.session_eq',
            'Reaper.session_refines', 'Reaper.reaper_kth_call', 'Reaper.reaper_exit_iff', 'Reaper.reaperLoad_missing_default',
            'Reaper.reaperLoadFn_present', 'Reaper.reaperStream_default_total', 'Reaper.reapCombos_reaper_args',
            'Reaper.reaperLoadFn_missing_default', 'Reaper.reaperLoad_none', 'Reaper.reaperLoad_empty',
            'Crop.c09_stream_partial_src', 'Crop.c09_session_partial_src', 'Crop.c09_call_partial_src']
ANCHORS = ['isReady', 'cleanUpDefault', 'sowerGetsExtra', 'sowerFlush', 'nbFromBs', 'capNb', 'bsOfNb', 'remOfNb',
           'calcCleanUp', 'checkReady', 'reaperUseDefault',
           'reapCombosSk', 'reapCombosToDsSk', 'reapRunnerSk', 'reapHarvestSk', 'reapSamplesSk',
           'reaperFiles', 'reaperLoad', 'reaperWaitToLoad', 'reaperLoadFn', 'reaperCall', 'reaperExit', 'reapCombosReaper']
RULE = ("for every crop configuration of a list of (N, batchsize | num_batches) with and without remainder (incl. a short "
        "last batch), x shuffle off/seed x result kind (number, array, bool, str, tuple, Dataset with int/bool data) x grid/case list: ALL non-empty "
        "proper subsets S of the batches (B<=5 quick, B<=7 thorough) are grown, then reap(allow_incomplete=True), directory "
        "listing, grow_missing, full reap; plus refused reaps (no allow_incomplete) and explicit clean_up values; "
        "non-trivial = every case (S is a non-empty proper subset); distinct by (configuration, S, options)")
EXHAUSTIVE = {'quick': True, 'thorough': True}
TRUSTED = ["glob order of result files does not matter for the placeholder (all results of one crop have one kind)"]

CONFIGS = [  # (n, batching)
    (2, {'bs': 1}), (3, {'nb': 2}), (4, {'bs': 2}), (5, {'bs': 2}), (5, {'nb': 3}), (6, {'nb': 4}), (6, {'bs': 4}),
    (7, {'nb': 3}), (7, {'bs': 3}), (8, {'nb': 5}), (9, {'bs': 2}), (10, {'nb': 4}), (4, {}), (5, {'nb': 5}),
]
CONFIGS_T = CONFIGS + [(11, {'nb': 6}), (12, {'bs': 2}), (13, {'nb': 7}), (13, {'bs': 2}), (7, {'nb': 7}), (11, {'nb': 7}), (9, {'nb': 6})]
KINDS = [{'scalar': 'num'}, {'scalar': 'bool'}, {'scalar': 'str'}, {'arr': [[2], 'num']},
         {'tuple': [[[], 'num'], [[2], 'num']]}, {'scalar': 'int'},
         {'ds': [['u', [], 'int'], ['v', [2], 'bool']]},      # the function returns a Dataset with integer and boolean data
         # numpy arrays of integer / boolean / string dtype (the stand-in must still be all-missing, whatever the dtype)
         {'arr': [[2], 'int'], 'np': True}, {'arr': [[2, 2], 'int'], 'np': True}, {'arr': [[3], 'bool'], 'np': True},
         {'arr': [[2], 'str'], 'np': True}, {'arr': [[2], 'num'], 'np': True}]


def nontrivial(h): return True


def _sweep(rng, n, cases):
    import random
    if cases:
        sw = {'case_args': ['y', 'x'], 'combo_args': [], 'values': {}, 'combo_order': {}, 'consts': {}}
        box = [(i, j) for i in range(n) for j in range(3)]
        rows = rng.sample(box, n)
        for j, a in enumerate(sw['case_args']):
            used = sorted({r[j] for r in rows})
            sw['values'][a] = sweeps.gen_values(rng, len(used))
            rows = [tuple(used.index(v) if jj == j else v for jj, v in enumerate(r)) for r in rows]
        sw['rows'] = [list(r) for r in rows]
        return sw
    shape = common.factor_shape(n, rng, maxdims=2)
    names = rng.sample(common.ARG_NAMES, len(shape))
    sw = {'case_args': [], 'combo_args': names, 'values': {}, 'combo_order': {}, 'rows': None, 'consts': {}}
    for a, k in zip(names, shape):
        sw['values'][a] = sweeps.gen_values(rng, k)
        o = list(range(k)); rng.shuffle(o); sw['combo_order'][a] = o
    return sw


def _history(rng, n, b, S, shuffle, kind, cases, variant):
    sw = _sweep(rng, n, cases)
    new = {'op': 'new', 'shuffle': shuffle if cases else 0}
    new.update(b)
    sow = {'op': 'sow', 'cases': cases}
    if not cases:
        sow['shuffle'] = shuffle
        # the constructor may carry its own setting, and the call may leave `shuffle` out or pass None
        new['shuffle'] = rng.choice([0, 0, 11])
        crops.vary_sow_call(rng, sow)
    else: sow['spelling'] = 'tuple'
    ids = list(S); rng.shuffle(ids)
    ops = [new, sow, {'op': 'grow', 'ids': ids, 'via': 'crop'}]
    if variant == 'refused':
        ops += [{'op': 'reap'}, {'op': 'query'}]
    elif variant == 'clean_true':
        ops += [{'op': 'reap', 'allow_incomplete': True, 'clean_up': True}]
    else:
        ops += [{'op': 'reap', 'allow_incomplete': True}]
        if variant == 'reload': ops.append({'op': 'reload'})
        ops += [{'op': 'query'}, {'op': 'growmissing'}, {'op': 'reap'}]
    np_ = bool(kind.get('np'))
    kind = {k: v for k, v in kind.items() if k != 'np'}
    return {'sweep': sw, 'kind': kind, 'np': np_, 'ops': ops, 'S': sorted(S), 'B': crops.num_batches_for(n, b), 'variant': variant}


def cases(ctx):
    rng = ctx.rng
    out = []
    maxB = 6 if ctx.tier == 'quick' else 7
    reps = 1 if ctx.tier == 'quick' else 4
    i = 0
    for n, b in CONFIGS_T:
        B = crops.num_batches_for(n, b)
        if B > maxB or B < 2: continue
        for mask in range(1, 2 ** B - 1):
            S = [j + 1 for j in range(B) if mask >> j & 1]
            for _ in range(reps):
                i += 1
                kind = KINDS[(i + ctx.seed) % len(KINDS)]
                shuffle = [0, 3, 0, 11][(i // 2) % 4]
                variant = ['plain', 'plain', 'reload', 'refused', 'plain', 'clean_true', 'plain'][i % 7]
                out.append(_history(rng, n, b, S, shuffle, kind, cases=(i % 3 == 0), variant=variant))
    for h in out:
        ctx.count('B', h['B']); ctx.count('kind', json.dumps(h['kind']) + (' (numpy)' if h.get('np') else '')); ctx.count('variant', h['variant'])
        ctx.count('shuffle', bool(h['ops'][0].get('shuffle') or h['ops'][1].get('shuffle')))
    # partial reaps into a Harvester / Sampler during whose sync another worker finishes the outstanding batch
    # ("by default deletes nothing so growing can continue"): the scenario runner is C12's
    for kind in ('harvester', 'sampler'):
        for cu in (None, False, True):
            for n, bs in ((5, 2), (6, 4)):
                out.append({'fam': 'farmer', 'c': {'kind': kind, 'stage': 'finishing', 'clean_up': cu, 'allow_incomplete': True,
                                                   'wait': False, 'n': n, 'bs': bs, 'shuffle': 0 if n == 5 else 5,
                                                   'engine': 'joblib' if kind == 'harvester' else 'pickle'}})
                ctx.count('variant', 'farmer-finishing')
    return out


search_cases = cases


def run_real(h, ctx):
    if h.get('fam') == 'farmer':
        from props import c12
        return c12.run_real(h['c'], ctx)
    return {'obs': crops.run_history(h, ctx)}


def model_request(h, obs):
    if h.get('fam') == 'farmer':
        from props import c12
        return c12.model_request(h['c'], obs)
    return crops.history_request(h)


def compare(h, obs, rep):
    if h.get('fam') == 'farmer':
        from props import c12
        return c12.compare(h['c'], obs, rep)
    return crops.compare_history(h, obs['obs'], rep)


def _missing(x):
    """is this canonical value an all-missing placeholder?"""
    if x is None or x == 'nan': return True
    if isinstance(x, list): return len(x) > 0 and all(_missing(v) for v in x)
    if isinstance(x, dict): return len(x) > 0 and all(_missing(v) for v in x.values())
    return False


def oracle(h, obs):
    if 'harness_exc' in obs: return None
    if h.get('fam') == 'farmer':
        from props import c12
        return c12.oracle(h['c'], obs)
    o = obs['obs']
    ops = h['ops']
    for j in range(3):
        if isinstance(o[j]['o'], dict) and 'err' in o[j]['o']:
            return f'op {j} {ops[j]} raised {o[j]["o"].get("exc")}: {o[j]["o"].get("msg")}'
    batches = o[1].get('batches') or {}
    sw = crops.sorted_sweep(h['sweep']); sz = sweeps.sizes(sw)
    S = set(h['S'])
    batch_of = {tuple(loc): i for i, b in batches.items() for loc in b}
    ls_after_grow = o[2]['ls']
    r = o[3]['o']
    if h['variant'] == 'refused':
        if not (isinstance(r, dict) and r.get('err') == 'notReady'):
            return f'an incomplete crop was not refused without allow_incomplete: {json.dumps(r, default=str)[:200]}'
        if o[3]['ls'] != ls_after_grow: return 'a refused reap changed the crop directory'
        return None
    if not isinstance(r, dict) or 'ok' not in r:
        return f'partial reap of finished batches {sorted(S)} of {h["B"]} failed: {r.get("exc")}: {r.get("msg")}'
    # walk the nested output: every slot
    args = sweeps.fn_args(sw)
    nca = len(sw['case_args'])
    axes = [list(range(len(sw['values'][a]))) for a in sw['case_args']] + [sw['combo_order'][a] for a in sw['combo_args']]
    rows = {tuple(x) for x in sw['rows']} if sw['rows'] is not None else None

    def walk(node, prefix):
        if len(prefix) == len(axes):
            loc = tuple(prefix)
            if rows is not None and loc[:nca] not in rows:
                return None if _missing(node) else f'slot {loc} was never requested but is not missing'
            bid = batch_of.get(loc)
            if bid in S:
                want = canon(fns.render(h['kind'], fns.code_of_ranks(list(loc), sz)))
                return None if node == want else f'slot {loc} (batch {bid}, finished) holds {node!r}, not its result {want!r}'
            return None if _missing(node) else f'slot {loc} (batch {bid}, not finished) is not the missing placeholder: {node!r}'
        if not isinstance(node, list) or len(node) != len(axes[len(prefix)]): return f'wrong shape at {prefix}'
        for v, sub in zip(axes[len(prefix)], node):
            e = walk(sub, prefix + [v])
            if e: return e
        return None
    e = walk(r['ok'], [])
    if e: return e
    if h['variant'] == 'clean_true':
        return None if o[3]['ls'] is None else 'clean_up=True was not honoured'
    if o[3]['ls'] != ls_after_grow: return 'a partial reap (default clean_up) changed the crop directory'
    last = o[-1]['o']
    if not isinstance(last, dict) or 'ok' not in last: return f'full reap after growing the rest failed: {last}'

    def walk2(node, prefix):
        if len(prefix) == len(axes):
            loc = tuple(prefix)
            if rows is not None and loc[:nca] not in rows: return None if _missing(node) else 'non-requested slot not missing'
            want = canon(fns.render(h['kind'], fns.code_of_ranks(list(loc), sz)))
            return None if node == want else f'after growing the rest, slot {loc} holds {node!r} not {want!r}'
        for v, sub in zip(axes[len(prefix)], node):
            e = walk2(sub, prefix + [v])
            if e: return e
        return None
    e = walk2(last['ok'], [])
    if e: return e
    if o[-1]['ls'] is not None: return 'the final complete reap did not clean up'
    return None
