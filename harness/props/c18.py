"""C18 — infiniplot draws each data slice once, correctly styled and correctly placed (partial: see PARTIAL/TRUSTED)."""
import itertools, json, math, copy
from fractions import Fraction
import numpy as np
import common, plotds
from plotds import DS, NAN, tok_out, label

PROP = 'C18'
LEAN_MODULES = ['XyzProofs.Props.C18', 'XyzProofs.Refine.Infini', 'XyzProofs.Props.C18Src']
THEOREMS = ['Infini.c18_each_slice_once', 'Infini.c18_panel', 'Infini.c18_data', 'Infini.c18_style_function',
            'Infini.c18_style_injective', 'Infini.c18_hist_counts', 'Infini.c18_hist_total', 'Infini.c18_heatmap_cells',
            'Infini.c18_pure',
            # the same, stated on the functions translated from infiniplot.py (harness/anchors_infini.py)
            'Infini.infInitMapped_spec', 'Infini.initMappedDim_refines', 'Infini.choices_refines', 'Infini.lineIdx_panel',
            'Infini.lineIdx_style', 'Infini.lineIdx_hue', 'Infini.propIdx_refines', 'Infini.histCall_refines',
            'Infini.c18_init_order_src', 'Infini.c18_each_slice_once_src', 'Infini.c18_panel_src', 'Infini.c18_style_src',
            'Infini.c18_hist_src', 'Infini.initOrder_refines', 'Infini.initAll_refines', 'Infini.styleDefaults_refines',
            'Infini.c18_style_defaults_src']
ANCHORS = ['markersDefault', 'linestylesDefault', 'infMaskBothNotNull',
           'infInitMapped', 'infIter', 'infRanges', 'infLineIdx', 'infHistCall', 'infInitCalls']
RULE = ("each case = (explicit dataset with 2-5 dims of size 1-4, numeric/str coordinates, one variable with shuffled "
        "dimension order, cells = distinct dyadic floats / NaN incl. all-NaN coordinates and all-NaN lines; an injective "
        "assignment of up to 4 dimensions (single or fused pairs, optionally with an explicit order / sub-selection) to "
        "colour, hue, marker, line style, line width, marker size, row, column; remaining dimensions aggregated "
        "(median/mean, each error-range option) or left as extra lines; join_across_missing, palette on/off; line, "
        "histogram (bins None/int/array, density/counts) and heat-map mode). infiniplot is called on the Agg backend, every "
        "Line2D / QuadMesh is read back, drawn floats decoded by bit pattern (aggregates/histograms compared with numpy "
        "within 1e-9); compared with the Lean model and with an independent pure-python oracle. non-trivial = at least "
        "two mapped coordinates combinations or a NaN cell; distinct by full case description")
TRUSTED = ["matplotlib (Agg): Line2D / QuadMesh hold what they were given; colour generation (auto_colors, cimple, palettes) "
           "is evaluated by the library/matplotlib in the harness, the model only says which index/colour-map position",
           "xarray stack/sel/dropna/isel (modelled as index arithmetic) and its median/mean/quantile/std numerics "
           "(aggregates are compared with numpy's nan-reductions of the same cells)",
           "np.histogram / np.linspace numerics: the model counts exactly on the rational values of the float bin edges "
           "the harness computes with np.linspace"]
ASSUMPTIONS = ["values pairwise distinct, coordinates unique per dimension", "a skipna reduction is NaN iff every reduced cell is NaN"]
PARTIAL = {
    'C18 (whole property)': "partial claim: fusion, explicit orders, dropping of all-NaN coordinates, iteration over the "
                            "remaining dimensions, panel choice, style lookup, masking / join_across_missing, exact "
                            "histogram counts and heat-map cell selection are proved on the Lean model; matplotlib, "
                            "xarray's aggregation numerics and colour generation are validated by execution only",
    'c18_style_injective': "distinctness is proved for markers (N <= 15), line styles (N <= 6) and the linspace-type "
                           "sizes/widths (all N, over Rat); distinctness of generated colours is only checked by execution "
                           "for N < 7 default colours and for palettes",
    'c18_pure': "the model never changes the dataset it was given (theorem on the state machine); on the real code purity "
                "is observed (ds.identical(copy) after every call), not proved",
}

PROPS = ['hue', 'color', 'marker', 'markersize', 'markeredgecolor', 'linestyle', 'linewidth', 'col', 'row']   # init order
STYLE = ['color', 'hue', 'marker', 'linestyle', 'linewidth', 'markersize']
SEP = '\x1f'


def nontrivial(c):
    cells = c['ds']['vars'][0]['cells']
    n = 1
    sizes = {d['name']: len(d['coords']) for d in c['ds']['dims']}
    for m in c['maps'].values():
        for d in m['dims']: n *= sizes[d]
    return n >= 2 or any(x < 0 for x in cells)


# ====================================================================== generator

class Ids:
    def __init__(self): self.n = 0
    def __iter__(self): return self
    def __next__(self):
        self.n += 1
        return self.n - 1


def gen_case(rng, mode=None, force=None):
    """a case that leaves something to draw (an empty selection / a single histogram value is out of scope)"""
    for _ in range(200):
        c = _gen_case(rng, mode, force)
        n = 1
        for d in c['ds']['dims']: n *= len(d['coords'])
        if n > 480: continue                      # value tokens must stay distinct
        R = Ref(c)
        if any(not md['entries'] for md in R.prop_md.values()): continue
        if c['mode'] == 'hist':
            e = hist_edges(R)
            if e is None or not (e[0] < e[-1]): continue
        return c
    raise RuntimeError('generator could not produce a valid case')


def _gen_case(rng, mode=None, force=None):
    force = force or {}
    mode = mode or rng.choice(['lines'] * 6 + ['hist'] * 2 + ['heat'] * 2)
    ids = Ids()
    nother = rng.choice([1, 2, 2, 3, 3, 4, 4]) if mode != 'heat' else rng.choice([0, 1, 2, 2, 3])
    names = ['a', 'b', 'c', 'd'][:nother]
    dims = []
    if mode == 'lines': dims.append(('x', rng.choice([2, 3, 4, 5])))
    if mode == 'heat': dims += [('x', rng.choice([2, 3, 4])), ('y', rng.choice([2, 3, 4]))]
    for n in names: dims.append((n, rng.choice([1, 2, 2, 3, 3, 4])))
    if mode == 'hist' and not names: names = ['a']; dims.append(('a', 3))
    sizes = dict(dims)
    dd = []
    for bi, (d, n) in enumerate(dims):
        kind = 'uniform' if (mode == 'heat' and d in ('x', 'y')) else rng.choice(['int', 'float']) if d == 'x' else rng.choice(['int', 'float', 'str'])
        cs = plotds.gen_coords(rng, n, kind, bi)
        if d in ('x', 'y') and kind != 'uniform': cs = sorted(cs)
        dd.append({'name': d, 'coords': cs})
    vd = [d for d, _ in dims]; rng.shuffle(vd)
    ncell = 1
    for d in vd: ncell *= sizes[d]
    pat = rng.choice(['full', 'nan', 'nan'])
    vname = {'lines': 'y', 'hist': 'v', 'heat': 'h'}[mode]
    var = {'name': vname, 'dims': vd, 'cells': plotds.gen_cells(rng, ncell, ids, pat)}
    desc = {'dims': dd, 'vars': [var], 'off': rng.randrange(509)}
    # an all-NaN coordinate of some dimension / an all-NaN line
    if names and rng.random() < 0.3:
        d = rng.choice(names)
        if sizes[d] > 1: plotds.blank_slice(desc, vname, d, rng.randrange(sizes[d]))
    if mode == 'lines' and len(names) >= 2 and rng.random() < 0.3:
        # blank one combination of two dims -> a line without data
        d1, d2 = rng.sample(names, 2)
        k1, k2 = rng.randrange(sizes[d1]), rng.randrange(sizes[d2])
        shape = [sizes[d] for d in vd]
        for fi, p in enumerate(itertools.product(*(range(s) for s in shape))):
            if p[vd.index(d1)] == k1 and p[vd.index(d2)] == k2: var['cells'][fi] = NAN
    # mapping
    avail = ['row', 'col'] if mode == 'heat' else ['color', 'hue', 'marker', 'linestyle', 'linewidth', 'markersize', 'row', 'col']
    pool = list(names); rng.shuffle(pool)
    maps = {}
    nmap = min(len(pool), rng.choice([0, 1, 1, 2, 2, 2, 3, 3, 4, 4]) if mode != 'lines' else rng.choice([1, 1, 2, 2, 2, 3, 3, 4, 4]))
    props = rng.sample(avail, min(len(avail), nmap))
    for p in props:
        if not pool: break
        if len(pool) >= 2 and rng.random() < 0.2 and p not in ():
            ds_ = [pool.pop(), pool.pop()]
        else:
            ds_ = [pool.pop()]
        m = {'dims': ds_, 'order': None}
        if rng.random() < 0.25:
            ent = list(itertools.product(*(range(sizes[d]) for d in ds_)))
            k = rng.randint(1, len(ent))
            m['order'] = [list(e) for e in rng.sample(ent, k)]
        maps[p] = m
    unm = sorted(pool)
    c = {'mode': mode, 'ds': desc, 'x': 'x' if mode != 'hist' else 'v', 'y': {'lines': 'y', 'hist': None, 'heat': 'y'}[mode],
         'z': 'h' if mode == 'heat' else None, 'maps': maps, 'aggregate': None, 'agg_method': 'median', 'agg_err': 0.5,
         'join': False, 'palette': None, 'bins': None, 'density': True}
    if mode == 'lines':
        r = rng.random()
        if unm and r < 0.6: c['aggregate'] = True
        elif unm and r < 0.75: c['aggregate'] = [rng.choice(unm)]
        if c['aggregate']:
            c['agg_method'] = rng.choice(['median', 'median', 'mean'])
            c['agg_err'] = rng.choice([0.5, 0.5, 'std', 'stderr', 0.0, 1.0])
        c['join'] = rng.random() < 0.35
        if 'color' in maps and 'hue' not in maps and rng.random() < 0.35: c['palette'] = rng.choice(['viridis', 'plasma'])
        if 'hue' in maps and 'color' not in maps and rng.random() < 0.3: c['palette'] = 'viridis'
    elif mode == 'hist':
        if not unm:
            # histogram mode bins over the unmapped dimensions: keep at least one
            p = next(iter(maps)); dd_ = maps.pop(p)
        c['bins'] = rng.choice([None, None, 3, 4, 'arr'])
        if c['bins'] == 'arr':
            c['bins'] = sorted(rng.sample([0.0, 5.03125, 10.5, 20.25, 33.0, 47.53125, 66.0], rng.choice([3, 4, 5])))
        c['density'] = rng.random() < 0.6
    else:
        c['aggregate'] = True if (unm or rng.random() < 0.3) else None
        c['agg_method'] = rng.choice(['median', 'mean'])
        c['palette'] = rng.choice([None, 'viridis', 'viridis', 'plasma'])
    c.update(force)
    return c


def boundary(rng):
    out = []
    for bins in (None, 3, [0.0, 10.5, 20.25, 66.0]):
        for dens in (True, False):
            out.append(gen_case(rng, 'hist', {'bins': bins, 'density': dens}))
    for _ in range(4):
        out.append(gen_case(rng, 'heat'))
    for j in (True, False):
        for _ in range(3):
            out.append(gen_case(rng, 'lines', {'join': j}))
    # square row x col grids (a transposed panel choice stays inside the grid)
    k = 0
    while k < 8:
        c = gen_case(rng, rng.choice(['lines', 'lines', 'heat']))
        pool = [d['name'] for d in c['ds']['dims'] if d['name'] not in ('x', 'y')]
        if len(pool) < 2: continue
        c['maps'] = {'row': {'dims': [pool[0]], 'order': None}, 'col': {'dims': [pool[1]], 'order': None}}
        if c['mode'] == 'lines' and len(pool) > 2:
            c['maps']['color'] = {'dims': [pool[2]], 'order': None}
        c['aggregate'] = True if len(pool) > (3 if c['mode'] == 'lines' else 2) else None
        sh = Ref(c).shape()
        if sh[0] != sh[1] or sh[0] < 2: continue
        out.append(c); k += 1
    return out


def cases(ctx):
    rng = ctx.rng
    out = boundary(rng)
    n = 420 if ctx.tier == 'quick' else 4200
    for _ in range(n):
        out.append(gen_case(rng))
    for c in out:
        ctx.count('mode', c['mode']); ctx.count('ndims', len(c['ds']['dims'])); ctx.count('nmapped', len(c['maps']))
        ctx.count('fused', any(len(m['dims']) > 1 for m in c['maps'].values()))
        ctx.count('order', any(m['order'] is not None for m in c['maps'].values()))
        ctx.count('aggregate', 'list' if isinstance(c['aggregate'], list) else str(c['aggregate']))
        if c['aggregate']: ctx.count('agg_err', c['agg_err'])
        ctx.count('join', c['join']); ctx.count('palette', c['palette'])
        if c['mode'] == 'hist': ctx.count('bins', 'array' if isinstance(c['bins'], list) else str(c['bins']))
        for p in c['maps']: ctx.count('prop', p)
    return out


def search_cases(ctx):
    return cases(ctx)


def shrink_candidates(c):
    for k in ('palette', 'join'):
        if c.get(k):
            d = copy.deepcopy(c); d[k] = None if k == 'palette' else False; yield d
    for p in list(c['maps']):
        if c['maps'][p]['order'] is not None:
            d = copy.deepcopy(c); d['maps'][p]['order'] = None; yield d


# ====================================================================== real run

def _fl(v):
    v = float(v)
    return 'nan' if math.isnan(v) else ('inf' if v > 0 else '-inf') if math.isinf(v) else v


def _coord_val(D, d, k):
    v = D.coords[d][k]
    return v


def _kwargs(c, D):
    kw = {}
    for p, m in c['maps'].items():
        kw[p] = m['dims'][0] if len(m['dims']) == 1 else tuple(m['dims'])
        if m['order'] is not None:
            if len(m['dims']) == 1:
                kw[p + '_order'] = [_coord_val(D, m['dims'][0], e[0]) for e in m['order']]
            else:
                kw[p + '_order'] = [tuple(_coord_val(D, d, k) for d, k in zip(m['dims'], e)) for e in m['order']]
    if c['aggregate'] is not None:
        kw['aggregate'] = c['aggregate']
        kw['aggregate_method'] = c['agg_method']
        kw['aggregate_err_range'] = c['agg_err']
    if c['join']: kw['join_across_missing'] = True
    if c['palette']: kw['palette'] = c['palette']
    if c['mode'] == 'hist':
        if c['bins'] is not None: kw['bins'] = c['bins']
        kw['bins_density'] = c['density']
    return kw


def _dash(ln):
    off, seq = ln._unscaled_dash_pattern
    return [float(off), None if seq is None else [float(v) for v in seq]]


def run_real(c, ctx):
    import warnings, logging
    import matplotlib
    import matplotlib.pyplot as plt
    from matplotlib.collections import QuadMesh
    import xyzpy as xyz
    logging.getLogger('matplotlib.font_manager').setLevel(logging.ERROR)
    D = DS(c['ds'])
    ds = D.to_xarray()
    before = ds.copy(deep=True)
    kw = _kwargs(c, D)
    plt.close('all')
    matplotlib.rcdefaults()
    try:
        try:
            with warnings.catch_warnings():
                warnings.simplefilter('ignore')
                with np.errstate(all='ignore'):
                    fig, axs = xyz.infiniplot(ds, c['x'], c['y'], c['z'], **kw)
        except Exception as e:
            return {'err': type(e).__name__, 'msg': str(e)[:160]}
        obs = {'shape': list(axs.shape), 'panels': []}
        for (i, j), ax in np.ndenumerate(axs):
            p = {'pos': [i, j], 'texts': [t.get_text() for t in ax.texts], 'lines': [], 'meshes': []}
            for ln in ax.get_lines():
                lab = ln.get_label()
                if lab == '_nolegend_': continue            # error-bar caps
                if isinstance(lab, str) and lab.startswith('_child'): lab = ''
                xs = np.asarray(ln.get_xdata(orig=True), float); ys = np.asarray(ln.get_ydata(orig=True), float)
                p['lines'].append({'label': str(lab), 'x': D.decode_arr(xs), 'y': D.decode_arr(ys),
                                   'xf': [_fl(v) for v in xs], 'yf': [_fl(v) for v in ys],
                                   'color': plotds.rgba(ln.get_color()), 'marker': str(ln.get_marker()), 'dash': _dash(ln),
                                   'lw': float(ln.get_linewidth()), 'ms': float(ln.get_markersize())})
            for q in ax.collections:
                if not isinstance(q, QuadMesh): continue
                a = q.get_array()
                co = np.asarray(q.get_coordinates(), float)
                m = {'shape': list(np.shape(a)), 'xe': [float(v) for v in co[0, :, 0]], 'ye': [float(v) for v in co[:, 0, 1]]}
                if a is not None and np.ndim(a) == 2:
                    mask = np.ma.getmaskarray(a).ravel().tolist()
                    data = np.ma.getdata(a).astype(float).ravel()
                    m['cells'] = ['m' if mk else D.decode(v) for mk, v in zip(mask, data)]
                    m['vals'] = ['m' if mk else _fl(v) for mk, v in zip(mask, data)]
                else:
                    m['rgba'] = np.round(np.asarray(a, float).reshape(-1, 4), 9).tolist()
                p['meshes'].append(m)
            obs['panels'].append(p)
        obs['identical'] = bool(ds.identical(before))
        return obs
    finally:
        plt.close('all')


# ====================================================================== reference evaluator (independent oracle)

def _entry_label(D, src, e):
    return SEP.join(label(D.coords[d][k]) for d, k in zip(src, e))


class Ref:
    """pure-python statement of what infiniplot has to draw, by index loops over the dataset description"""

    def __init__(self, c):
        self.c = c
        self.D = D = DS(c['ds'])
        mode = c['mode']
        self.var = {'lines': 'y', 'hist': 'v', 'heat': 'h'}[mode]
        self.core = {'lines': ['x'], 'hist': [], 'heat': ['x', 'y']}[mode]
        self.mds = [{'name': d, 'src': [d], 'entries': [(k,) for k in range(D.size[d])]} for d in D.dims if d not in self.core]
        self.prop_md = {}
        maps = dict(c['maps'])
        if 'hue' in maps and 'color' not in maps:      # "if only one is specified allow it to be either"
            maps['color'] = maps.pop('hue')
        self.maps = maps
        for p in PROPS:
            m = maps.get(p)
            if m is None: continue
            if len(m['dims']) > 1:
                parts = [self._md(d) for d in m['dims']]
                self.mds = [x for x in self.mds if x not in parts]
                md = {'name': ', '.join(m['dims']), 'src': list(m['dims']),
                      'entries': [tuple(itertools.chain(*e)) for e in itertools.product(*(x['entries'] for x in parts))]}
                self.mds.append(md)
            else:
                md = self._md(m['dims'][0])
            if m['order'] is not None:
                md['entries'] = [tuple(e) for e in m['order'] if tuple(e) in md['entries']]
            md['entries'] = [e for e in md['entries'] if self._has_data(md, e)]
            self.prop_md[p] = md
        mapped = set(md['name'] for md in self.prop_md.values())
        self.unmapped = sorted(md['name'] for md in self.mds if md['name'] not in mapped)
        agg = c['aggregate']
        if mode == 'hist': self.agg = list(self.unmapped)
        elif mode == 'heat' and self.unmapped: self.agg = list(self.unmapped)
        elif agg is True: self.agg = list(self.unmapped)
        elif isinstance(agg, list): self.agg = list(agg)
        else: self.agg = []
        self.remaining = [md for md in self.mds if md['name'] not in self.agg]
        self.aggmds = [md for md in self.mds if md['name'] in self.agg]

    def _md(self, d):
        return next(x for x in self.mds if x['name'] == d)

    def _envs(self, mds, fixed=None):
        """all index assignments over the given mdims (current entries)"""
        for combo in itertools.product(*(md['entries'] for md in mds)):
            env = dict(fixed or {})
            for md, e in zip(mds, combo):
                env.update(zip(md['src'], e))
            yield env

    def _has_data(self, md, e):
        others = [x for x in self.mds if x is not md]
        fixed = dict(zip(md['src'], e))
        for env in self._envs(others, fixed):
            for core in itertools.product(*(range(self.D.size[d]) for d in self.core)):
                env2 = dict(env); env2.update(zip(self.core, core))
                if self.D.at(self.var, env2) != NAN: return True
        return False

    def shape(self):
        nr = len(self.prop_md['row']['entries']) if 'row' in self.prop_md else 1
        nc = len(self.prop_md['col']['entries']) if 'col' in self.prop_md else 1
        return [nr, nc]

    def cells_at(self, env, extra):
        """the cells reduced into one drawn value: over the aggregated dims"""
        out = []
        for aenv in self._envs(self.aggmds):
            e = dict(env); e.update(aenv); e.update(extra)
            out.append(self.D.at(self.var, e))
        return out

    def slices(self):
        """one record per combination of the remaining dims: panel, style indices, loc"""
        for combo in itertools.product(*(range(len(md['entries'])) for md in self.remaining)):
            env, loc = {}, {}
            for md, k in zip(self.remaining, combo):
                env.update(zip(md['src'], md['entries'][k])); loc[md['name']] = k
            i = loc[self.prop_md['row']['name']] if 'row' in self.prop_md else 0
            j = loc[self.prop_md['col']['name']] if 'col' in self.prop_md else 0
            style = {p: loc[md['name']] for p, md in self.prop_md.items() if p not in ('row', 'col')}
            yield env, loc, i, j, style

    def line_label(self, loc):
        """the legend label infiniplot gives a line: the coordinates of its style-mapped dimensions"""
        parts, seen = [], set()
        for p in ('hue', 'color', 'marker', 'markersize', 'markeredgecolor', 'linewidth', 'linestyle'):
            md = self.prop_md.get(p)
            if md is None or md['name'] in seen: continue
            seen.add(md['name'])
            e = md['entries'][loc[md['name']]]
            vals = [self.D.coords[d][k] for d, k in zip(md['src'], e)]
            parts.append(label(vals[0]) if len(vals) == 1 else '(' + ', '.join(repr(v) for v in vals) + ')')
        return ', '.join(parts)


def _agg_value(vals, method):
    a = np.array(vals, float)
    if np.all(np.isnan(a)): return math.nan
    return float(np.nanmedian(a) if method == 'median' else np.nanmean(a))


def _close(a, b):
    if isinstance(a, str) or isinstance(b, str): return a == b
    return abs(a - b) <= 1e-9 * max(1.0, abs(a), abs(b))


def hist_edges(R):
    """bin edges infiniplot is documented to use: given, or nbins equal bins between min and max of the data"""
    c, D = R.c, R.D
    if isinstance(c['bins'], list): return [float(b) for b in c['bins']]
    vals = []
    for env in R._envs(R.mds):
        t = D.at(R.var, env)
        if t >= 0: vals.append(plotds.val(t, D.off))
    if c['bins'] is None:
        n = 1
        for md in R.aggmds: n *= len(md['entries'])
        nb = min(max(3, int(n ** 0.5)), 50)
    else:
        nb = c['bins']
    if not vals: return None
    return [float(v) for v in np.linspace(min(vals), max(vals), nb + 1)]


def expected(c):
    """{'shape': [nr, nc], 'lines': [...], 'meshes': [...]} straight from the dataset"""
    R = Ref(c)
    D = R.D
    out = {'shape': R.shape(), 'lines': [], 'meshes': [], 'R': R}
    mode = c['mode']
    if mode == 'lines':
        nx = D.size['x']
        for env, loc, i, j, style in R.slices():
            if R.agg:
                ys = [_agg_value([plotds.cell_float(t, D.off) for t in R.cells_at(env, {'x': k})], c['agg_method']) for k in range(nx)]
                ys = ['nan' if math.isnan(v) else v for v in ys]
            else:
                ys = [tok_out(D.at('y', {**env, 'x': k})) for k in range(nx)]
            xs = [plotds.coord_token(D.dims.index('x'), k) for k in range(nx)]
            keep = [k for k in range(nx) if ys[k] != 'nan']
            if not keep: continue
            if c['join']:
                xs, ys = [xs[k] for k in keep], [ys[k] for k in keep]
            out['lines'].append({'pos': [i, j], 'x': xs, 'y': ys, 'style': style, 'loc': loc, 'label': R.line_label(loc)})
    elif mode == 'hist':
        edges = hist_edges(R)
        out['edges'] = edges
        if edges is None: return out
        cen = [(edges[k] + edges[k + 1]) / 2 for k in range(len(edges) - 1)]
        for env, loc, i, j, style in R.slices():
            vals = [plotds.val(t, D.off) for t in R.cells_at(env, {}) if t >= 0]
            cnt = []
            for b in range(len(edges) - 1):
                last = b == len(edges) - 2
                cnt.append(sum(1 for v in vals if (edges[b] <= v < edges[b + 1]) or (last and v == edges[b + 1])))
            tot = sum(cnt)
            if c['density']:
                if tot == 0: continue               # undefined density: nothing to draw
                ys = [cnt[b] / (tot * (edges[b + 1] - edges[b])) for b in range(len(cnt))]
            else:
                ys = [float(v) for v in cnt]
            out['lines'].append({'pos': [i, j], 'x': cen, 'y': ys, 'style': style, 'loc': loc, 'label': R.line_label(loc)})
    else:
        nx, ny = D.size['x'], D.size['y']
        for env, loc, i, j, style in R.slices():
            rows = []
            for jj in range(ny):
                row = []
                for ii in range(nx):
                    cells = R.cells_at(env, {'x': ii, 'y': jj})
                    if R.agg:
                        v = _agg_value([plotds.cell_float(t, D.off) for t in cells], c['agg_method'])
                        row.append('m' if math.isnan(v) else v)
                    else:
                        row.append('m' if cells[0] == NAN else tok_out(cells[0]))
                rows.append(row)
            out['meshes'].append({'pos': [i, j], 'cells': rows})
    return out


def _vec_match(got, want, D):
    """does the drawn vector (tokens + floats) equal the expected one (tokens, or floats within 1e-9)?"""
    if len(got['y']) != len(want['y']) or len(got['x']) != len(want['x']): return False
    for k, w in enumerate(want['y']):
        if isinstance(w, float):
            g = got['yf'][k]
            if isinstance(g, str) or not _close(float(g), w): return False
        elif got['y'][k] != w: return False
    for k, w in enumerate(want['x']):
        if isinstance(w, float):
            g = got['xf'][k]
            if isinstance(g, str) or not _close(float(g), w): return False
        elif got['x'][k] != w: return False
    return True


def match_lines(obs, want_lines, D, prefer=None):
    """pair every expected line with a distinct drawn line of the same panel; returns (pairs, error).
    Lines carrying identical data are interchangeable: `prefer(w, g)` breaks such ties."""
    pairs = []
    for p in obs['panels']:
        pos = p['pos']
        want = [w for w in want_lines if w['pos'] == pos]
        free = list(p['lines'])
        for w in want:
            cands = [g for g in free if _vec_match(g, w, D)]
            hit = next((g for g in cands if prefer is not None and prefer(w, g)), cands[0] if cands else None)
            if hit is None:
                elsewhere = [q['pos'] for q in obs['panels'] for g in q['lines'] if q['pos'] != pos and _vec_match(g, w, D)]
                if elsewhere:
                    return pairs, f'the slice {w["loc"]} belongs in panel {pos} but is drawn in panel {elsewhere[0]}'
                return pairs, (f'panel {pos}: no drawn line carries the data of slice {w["loc"]}: x={w["x"]} y={w["y"]}; '
                               f'drawn: {[(g["x"], g["y"] if "?" not in g["y"] else g["yf"]) for g in p["lines"]][:4]}')
            free.remove(hit); pairs.append((w, hit))
        if free:
            g = free[0]
            return pairs, (f'panel {pos}: {len(free)} drawn line(s) correspond to no slice with data (or draw one twice): '
                           f'x={g["x"]} y={g["y"] if "?" not in g["y"] else g["yf"]} label={g["label"]!r}')
    return pairs, None


def _style_of(g):
    return {'color': tuple(g['color']) if isinstance(g['color'], list) else g['color'], 'marker': g['marker'],
            'linestyle': json.dumps(g['dash']), 'linewidth': round(g['lw'], 9), 'markersize': round(g['ms'], 9)}


def oracle(c, obs):
    if 'harness_exc' in obs: return None
    if 'err' in obs: return f'infiniplot ({c["mode"]} mode) raised {obs["err"]}: {obs.get("msg")} for a valid call'
    if not obs['identical']: return 'the dataset passed in was modified by infiniplot'
    want = expected(c)
    R, D = want['R'], want['R'].D
    if obs['shape'] != want['shape']: return f'grid of axes {obs["shape"]}, the row/col coordinates with data give {want["shape"]}'
    # panel titles name the row / col coordinate
    for p in obs['panels']:
        i, j = p['pos']
        for prop, k in (('col', j), ('row', i)):
            if prop in R.prop_md:
                md = R.prop_md[prop]
                if len(md['src']) == 1:
                    v = label(D.coords[md['src'][0]][md['entries'][k][0]])
                    if not any(('=' + v) in t for t in p['texts']):
                        return f'panel {p["pos"]}: no title naming {prop} coordinate {v!r}: {p["texts"]}'
    if c['mode'] == 'heat':
        for w in want['meshes']:
            p = next(q for q in obs['panels'] if q['pos'] == w['pos'])
            if len(p['meshes']) != 1: return f'panel {w["pos"]}: {len(p["meshes"])} meshes drawn'
            m = p['meshes'][0]
            ny, nx = len(w['cells']), len(w['cells'][0])
            flat = [t for r in w['cells'] for t in r]
            if c['palette']:
                if m['shape'] != [ny, nx]: return f'panel {w["pos"]}: mesh shape {m["shape"]}, data is {ny} (y) x {nx} (x)'
                for k, t in enumerate(flat):
                    g = m['cells'][k] if not isinstance(t, float) else m['vals'][k]
                    ok = (g == t) if not isinstance(t, float) else (not isinstance(g, str) and _close(float(g), t))
                    if not ok: return f'panel {w["pos"]}: mesh cell {divmod(k, nx)} shows {m["cells"][k] if m["cells"][k] != "?" else m["vals"][k]}, z there is {t}'
            else:
                if m['shape'][:2] != [ny, nx]: return f'panel {w["pos"]}: mesh shape {m["shape"]}, data is {ny} (y) x {nx} (x)'
                from xyzpy.plot.plotter_matplotlib import to_colors
                allv = [plotds.cell_float(t, D.off) for t in D.vars['h']['cells'] if t >= 0] if not R.agg else None
                vals = np.array([math.nan if t == 'm' else (t if isinstance(t, float) else D.tokval[t]) for t in flat], float)
                fin = np.isfinite(vals)
                # colours of the drawn cells must be the library's colour function of exactly these values
                # (max_mag is a global scale: recover it from the data that is drawn)
                if R.agg:
                    tot = [v for mm in want['meshes'] for r in mm['cells'] for v in r if v != 'm']
                    tot = [v if isinstance(v, float) else D.tokval[v] for v in tot]
                else:
                    kept = set()
                    for env in R._envs(R.mds):
                        for core in itertools.product(range(D.size['x']), range(D.size['y'])):
                            t = D.at('h', {**env, 'x': core[0], 'y': core[1]})
                            if t >= 0: kept.add(t)
                    tot = [D.tokval[t] for t in kept]
                if tot:
                    mx = max(abs(max(tot)), abs(min(tot)))
                    exp = np.empty((len(vals), 4)); exp[~fin] = (0.5, 0.5, 0.5, 0.5)
                    if fin.any(): exp[fin] = to_colors(vals[fin], alpha_pow=0.0, max_mag=mx)[0]
                    got = np.array(m['rgba'], float)
                    if got.shape != exp.shape or not np.allclose(got, exp, atol=1e-6):
                        bad = int(np.argmax(np.abs(got - exp).max(axis=1))) if got.shape == exp.shape else 0
                        return f'panel {w["pos"]}: mesh cell {divmod(bad, nx)} is not coloured by the z value there ({flat[bad]})'
            for edges, dim in ((m['xe'], 'x'), (m['ye'], 'y')):
                cs = [float(v) for v in D.coords[dim]]
                if len(edges) != len(cs) + 1: return f'panel {w["pos"]}: {len(edges)} mesh edges along {dim} for {len(cs)} coordinates'
                mids = [(edges[k] + edges[k + 1]) / 2 for k in range(len(cs))]
                if any(abs(a - b) > 1e-9 * max(1, abs(b)) for a, b in zip(mids, cs)):
                    return f'panel {w["pos"]}: cells along {dim} centred at {mids}, coordinates are {cs}'
        for p in obs['panels']:
            if p['meshes'] and not any(w['pos'] == p['pos'] for w in want['meshes']): return f'panel {p["pos"]}: unexpected mesh'
        return None
    pairs, err = match_lines(obs, want['lines'], D, prefer=lambda w, g: g['label'] == w.get('label'))
    if err: return err
    # style: equal mapped coordinate => same style value; different => different while distinct defaults remain
    for prop, md in R.prop_md.items():
        if prop in ('row', 'col', 'hue'): continue
        n = len(md['entries'])
        seen = {}
        for w, g in pairs:
            k = w['style'][prop]
            if prop == 'color' and 'hue' in R.prop_md:
                k = (w['style']['hue'], k)
            v = _style_of(g)[prop]
            if k in seen and seen[k] != v:
                return f'{prop}: two lines with the same {md["name"]} coordinate (index {k}) are drawn with different {prop}: {seen[k]} vs {v}'
            seen.setdefault(k, v)
        limit = {'marker': 15, 'linestyle': 6}.get(prop)
        distinct_expected = (limit is None or n <= limit)
        if prop == 'color':
            if 'hue' in R.prop_md:
                # hue picks the colour map, color the position in it: while few of each are asked for, every
                # (hue, color) combination has its own colour
                distinct_expected = c['palette'] is None and len(R.prop_md['hue']['entries']) <= 5 and n <= 5
            else:
                distinct_expected = n < 7 or (c['palette'] is not None and n <= 64)
        if distinct_expected:
            inv = {}
            for k, v in seen.items():
                if v in inv and inv[v] != k:
                    return f'{prop}: different {md["name"]} coordinates (indices {inv[v]} and {k}) are drawn with the same {prop} {v}'
                inv[v] = k
    return None


# ====================================================================== Lean model

def _q(x):
    f = Fraction(float(x))
    return [f.numerator, f.denominator]


def model_request(c, obs):
    R = Ref(c)      # only used for the histogram edges (np.linspace numerics are not modelled)
    D = R.D
    rq = {'op': 'infiniplot'}
    rq.update(D.request())
    rq['x'] = c['x']; rq['y'] = c['y']; rq['z'] = c['z']; rq['err'] = None
    rq['mode'] = c['mode']
    rq['map'] = {}
    for p, m in c['maps'].items():
        e = {'dims': m['dims']}
        if m['order'] is not None: e['order'] = [_entry_label(D, m['dims'], o) for o in m['order']]
        rq['map'][p] = e
    if isinstance(c['aggregate'], list): rq['aggregate'] = c['aggregate']
    else: rq['aggregate'] = bool(c['aggregate'])
    rq['join'] = bool(c['join']); rq['density'] = bool(c['density'])
    if c['mode'] == 'hist':
        edges = hist_edges(R)
        rq['edges'] = [_q(e) for e in (edges or [])]
        rq['values'] = [[t, _q(plotds.val(t, D.off))] for t in sorted(set(x for x in D.vars['v']['cells'] if x >= 0))]
    return rq


def _rat(p):
    return p[0] / p[1]


def _model_lines(c, rep, D):
    out = []
    for l in rep['lines']:
        ys = []
        for y in l['y']:
            if isinstance(y, int): ys.append(tok_out(y))
            elif isinstance(y, dict) and 'agg' in y:
                v = _agg_value([plotds.cell_float(t, D.off) for t in y['agg']], c['agg_method'])
                ys.append('nan' if math.isnan(v) else v)
            elif isinstance(y, dict) and 'count' in y: ys.append(float(y['count']))
            elif isinstance(y, dict) and 'dens' in y: ys.append(_rat(y['dens']))
            else: ys.append('nan')
        xs = [tok_out(t) for t in l['x']] if c['mode'] != 'hist' else [_rat(r) for r in l['xc']]
        out.append({'pos': [l['i'], l['j']], 'x': xs, 'y': ys, 'style': l['style'], 'loc': l['loc']})
    return out


def _expected_style(c, st, D, R):
    """the concrete style values the model's indices stand for (library defaults / matplotlib evaluated here)"""
    from xyzpy.plot import infiniplot as ip
    import matplotlib
    out = {}
    if st.get('marker') is not None: out['marker'] = ip._MARKERS_DEFAULT[st['marker'] % len(ip._MARKERS_DEFAULT)]
    if st.get('linestyle') is not None:
        ls = ip._LINESTYLES_DEFAULT[st['linestyle'] % len(ip._LINESTYLES_DEFAULT)]
        out['dash'] = [0.0, None] if ls == 'solid' else [float(ls[0]), [float(v) for v in ls[1]]]
    if st.get('markersize') is not None: out['ms'] = _rat(st['markersize'])
    if st.get('linewidth') is not None: out['lw'] = _rat(st['linewidth'])
    if st.get('color') is not None and st.get('hue') is None and c['palette']:
        # a palette is a documented scale: position linspace(colormap_start, colormap_stop, N)[index]; which default /
        # auto-generated colour a coordinate gets is not constrained (only same / different, see the oracle)
        n = st['ncolor']
        out['color'] = plotds.rgba(matplotlib.colormaps[c['palette']](float(np.linspace(0.0, 1.0, n)[st['color']])))
    return out


def compare(c, obs, rep):
    if 'harness_exc' in obs: return None
    if 'err' in obs or 'err' in rep:
        return None if ('err' in obs) == ('err' in rep) else f'error mismatch: real {obs.get("err")} model {rep.get("err")}'
    if obs['shape'] != [rep['nrows'], rep['ncols']]: return f'grid shape real {obs["shape"]} model {[rep["nrows"], rep["ncols"]]}'
    R = Ref(c); D = R.D
    if c['mode'] == 'heat':
        for m in rep['meshes']:
            p = next(q for q in obs['panels'] if q['pos'] == [m['i'], m['j']])
            if len(p['meshes']) != 1: return f'panel {[m["i"], m["j"]]}: {len(p["meshes"])} meshes'
            if not c['palette']: continue      # colours only: left to the oracle
            g = p['meshes'][0]
            flat = []
            for r in m['cells']:
                for y in r:
                    if isinstance(y, int): flat.append('m' if y == NAN else tok_out(y))
                    else:
                        v = _agg_value([plotds.cell_float(t, D.off) for t in y['agg']], c['agg_method'])
                        flat.append('m' if math.isnan(v) else v)
            if len(flat) != len(g['cells']): return f'panel {[m["i"], m["j"]]}: mesh size real {g["shape"]} model {len(flat)}'
            for k, t in enumerate(flat):
                gv = g['cells'][k] if not isinstance(t, float) else g['vals'][k]
                ok = (gv == t) if not isinstance(t, float) else (not isinstance(gv, str) and _close(float(gv), t))
                if not ok: return f'panel {[m["i"], m["j"]]}: mesh cell {k}: real {gv} model {t}'
        nmesh = sum(len(p['meshes']) for p in obs['panels'])
        if nmesh != len(rep['meshes']): return f'{nmesh} meshes drawn, model {len(rep["meshes"])}'
        return None
    ml = _model_lines(c, rep, D)

    def same_style(w, g):
        for k, v in _expected_style(c, w['style'], D, R).items():
            if not (plotds.same_rgba(g[k], v) if k == 'color' else (abs(g[k] - v) < 1e-9 if isinstance(v, float) else g[k] == v)):
                return False
        return True
    pairs, err = match_lines(obs, ml, D, prefer=same_style)
    if err: return 'model vs real: ' + err
    for w, g in pairs:
        exp = _expected_style(c, w['style'], D, R)
        for k, v in exp.items():
            have = g[k]
            ok = plotds.same_rgba(have, v) if k == 'color' else (abs(have - v) < 1e-9 if isinstance(v, float) else have == v)
            if not ok: return f'slice {w["loc"]}: {k} real {have} model {v} (style indices {w["style"]})'
    return None


def finding_key(c, obs):
    if 'err' in obs and c['mode'] == 'hist' and not isinstance(c['bins'], list): return 'D12-hist-bins-linspace'
    return None
