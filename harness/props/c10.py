"""C10 — killing a worker at any instant never corrupts what is later reaped."""
import os, json, re, shutil, tempfile
from concurrent.futures import ThreadPoolExecutor
import common, crashlab

PROP = 'C10'
LEAN_MODULES = ['XyzProofs.Props.C10', 'XyzProofs.Refine.Harvest', 'XyzProofs.Refine.SamplerSt', 'XyzProofs.Props.C08Grow',
                'XyzProofs.Props.C10Write']
THEOREMS = ['FS.c10_atomic_trace_safe', 'FS.okEv_safe', 'FS.okEv_agree', 'Conc.c10_reachable_inv', 'Conc.c10_harvest_survives',
            'Conc.c10_direct_mode_counterexamples', 'Crop.c10_reap_error_or_exact', 'Crop.c10_recovery_exact',
            'Crop.reapStream_ok_none', 'Conc.c10_reachable_inv_source', 'Conc.c11_source_mode',
            'Harvest.hvSaveFull_error_keeps_mem', 'Harvest.hvSaveFull_refines', 'Sampler.smSaveFull_error_keeps_mem',
            'Sampler.smSaveFull_spec',
            'GrowSk.c08_grow_error_no_write', 'GrowSk.c08_grow_one_write',
            # on the state skeleton of write_to_disk / read_from_disk, translated on every run (anchors_checkbad.py)
            'WriteSk.writeToDisk_eq_spec', 'WriteSk.wtd_final_only_replaced', 'WriteSk.wtd_replace_after_close', 'WriteSk.wtd_ok_iff',
            'WriteSk.wtd_failure_reraised', 'WriteSk.wtd_failure_cleans_up', 'WriteSk.wtd_remove_only_after_failure',
            'WriteSk.readFromDisk_eq_spec', 'WriteSk.readFromDisk_reads_only',
            'FS.c10_write_to_disk_atomic', 'FS.c10_write_to_disk_kill_safe',
            'Conc.c10_publish_agrees', 'Conc.c11_source_mode_sk', 'Conc.c10_reachable_inv_source_sk']
ANCHORS = ['harvestDefersCleanup', 'samplesDefersCleanup', 'isReady', 'publishViaRename', 'tmpNamePrivate', 'tmpNameHidden',
           'hvSaveFull', 'smSaveFull', 'growSk', 'writeToDisk', 'readFromDisk']
RULE = ("for each scenario (raw / Runner / Harvester / Sampler crop: sow, grow_missing, reap-and-sync in one process, with data "
        "already in the farmer's file) the real process is run under an LD_PRELOAD shim that numbers every write-side file "
        "operation (create, write, pwrite, close, rename, unlink, rmdir, mkdir; HDF5 included); one run is traced in full and "
        "its trace is judged by the Lean protocol predicate; then the process is KILLED before operation k for EVERY k; the "
        "crashed directory is compared with the Lean replay of the same trace prefix, reaped by a fresh process (must be "
        "error or exact) and recovered by another fresh process with the documented recovery (must be exact; harvester data "
        "must survive); thorough adds a second kill during recovery and more shapes; every kill point is non-trivial; "
        "distinct by (scenario, k)")
EXHAUSTIVE = {'quick': True, 'thorough': True}
TRUSTED = ["rename(2) is atomic and a closed file holds what was written (no power loss / page-cache reordering; no fsync is modelled or issued)",
           "the shim sees every libc-level write-side call of the process (validated against the directory listing after each kill)"]
PARTIAL = {'runtime': "power loss, network file systems and partial HDF5 pages beyond what a kill between calls produces are not covered",
           'F2 (known finding)': "Sampler crop: a kill between saving the table and removing the crop makes the recovery append the same rows again"}

SCEN_QUICK = [{'kind': 'raw', 'n': 5, 'bs': 2, 'shuffle': 0},
              {'kind': 'harvester', 'n': 5, 'bs': 2, 'engine': 'joblib', 'shuffle': 3},
              {'kind': 'sampler', 'n': 4, 'bs': 2, 'engine': 'pickle', 'shuffle': 0},
              # the very first save of a harvester (no data file yet)
              {'kind': 'harvester', 'n': 4, 'bs': 2, 'engine': 'joblib', 'shuffle': 0, 'init': False}]
SCEN_THOROUGH = SCEN_QUICK + [{'kind': 'harvester', 'n': 5, 'bs': 2, 'engine': 'h5netcdf', 'shuffle': 0},
                              {'kind': 'runner', 'n': 6, 'bs': 4, 'shuffle': 5},
                              {'kind': 'raw', 'n': 7, 'bs': 3, 'shuffle': 2},
                              {'kind': 'sampler', 'n': 5, 'bs': 5, 'engine': 'csv', 'shuffle': 0},
                              {'kind': 'harvester', 'n': 4, 'bs': 2, 'engine': 'h5netcdf', 'shuffle': 0, 'init': False}]


def nontrivial(c): return True


def _traced_run(sc):
    base = tempfile.mkdtemp(prefix='xvc', dir=common.scratch_root())
    root = os.path.join(base, 'w'); os.makedirs(root)
    try:
        if sc['kind'] in ('harvester', 'sampler') and sc.get('init', True): crashlab.child(root, 'setup', sc)
        log = os.path.join(base, 'log.txt')
        rc, res, err = crashlab.child(root, 'run', sc, log=log)
        return rc, res, crashlab.read_log(log, root), err
    finally:
        shutil.rmtree(base, ignore_errors=True)


def cases(ctx):
    crashlab.ensure_shim()
    out = []
    scen = SCEN_QUICK if ctx.tier == 'quick' else SCEN_THOROUGH
    with ThreadPoolExecutor(8) as ex:
        traced = list(ex.map(_traced_run, scen))
    for sc, (rc, res, ev, err) in zip(scen, traced):
        out.append({'sc': sc, 'k': 0, 'trace': ev, 'rc': rc, 'res': res})
        for k in range(1, len(ev) + 1):
            out.append({'sc': sc, 'k': k})
            ctx.count('op_killed_before', ev[k - 1]['op'])
        if ctx.tier == 'thorough':
            for k in range(1, len(ev) + 1, 5):
                for k2 in (3, 9, 17):
                    out.append({'sc': sc, 'k': k, 'k2': k2})
        ctx.count('scenario', sc['kind'] + '/' + sc.get('engine', '-') + ('' if sc.get('init', True) else '/first-save'))
    return out


search_cases = cases


def _norm(path, table):
    """temporary names carry a random uuid: rename them by order of first appearance"""
    def sub(m):
        return '.tmp-#%d-' % table.setdefault(m.group(0), len(table))
    return re.sub(r'\.tmp-(?:[0-9a-f]{32}|\d+)-', sub, path)


def _events(ev, existing=()):
    """shim log -> model events.  The shim logs an operation BEFORE performing it, so an open without O_CREAT of a path
    that does not exist (HDF5 probes that way before creating) is a failed call and is passed on as a no-op."""
    table, out = {}, []
    exists = set(existing)
    for e in ev:
        op = e['op']
        p = _norm(e['p'], table)
        if op.startswith('open'):
            creat = bool(e['n'] & 0o100)
            if not creat and p not in exists:
                o = {'op': 'other'}
            else:
                o = {'op': 'openw', 'trunc': e['q'] == 'trunc' or bool(e['n'] & 0o1000)}
                exists.add(p)
        elif op in ('write', 'pwrite'): o = {'op': 'write', 'n': e['n'], 'pw': op == 'pwrite'}
        elif op == 'close': o = {'op': 'close'}
        elif op == 'rename':
            o = {'op': 'rename', 'q': _norm(e['q'], table)}
            if p in exists: exists.discard(p); exists.add(o['q'])
        elif op in ('unlink', 'unlinkat') and not (op == 'unlinkat' and e['n'] == 512):
            o = {'op': 'unlink'}; exists.discard(p)
        else: o = {'op': 'other'}
        o['pid'] = 1
        o['p'] = p
        out.append(o)
    return out, table


def _one(c):
    sc = c['sc']
    if c['k'] == 0:
        return {'trace_rc': c['rc'], 'trace_res': c['res'], 'n_ops': len(c['trace'])}
    base = tempfile.mkdtemp(prefix='xvc', dir=common.scratch_root())
    root = os.path.join(base, 'w'); os.makedirs(root)
    try:
        init = None
        if sc['kind'] in ('harvester', 'sampler') and sc.get('init', True):
            init = crashlab.child(root, 'setup', sc)[1]
        log = os.path.join(base, 'log.txt')
        rc, res, err = crashlab.child(root, 'run', sc, crash_at=c['k'], log=log)
        ev = crashlab.read_log(log, root)
        obs = {'killed': rc == 137, 'events': ev[:c['k'] - 1], 'listing': crashlab.listing(root)}
        root2 = os.path.join(base, 'w2')
        shutil.copytree(root, root2)
        # the copy lives at another path: the crop stores no absolute paths, the farmer's data_name does
        rc2, res2, err2 = crashlab.child(root, 'reap', sc) if sc['kind'] == 'raw' else (None, None, None)
        if sc['kind'] == 'raw':
            # later reap must not disturb the recovery: run it on the copy instead and restore
            shutil.rmtree(root); shutil.copytree(root2, root)
        obs['later'] = res2 if sc['kind'] == 'raw' else 'skipped (a later reap of a farmer crop writes the data file)'
        if c.get('k2'):
            crashlab.child(root, 'recover', sc, crash_at=c['k2'], log=os.path.join(base, 'log2.txt'))
        rc3, res3, err3 = crashlab.child(root, 'recover', sc)
        obs['recover'] = res3 if res3 is not None else {'err': 'no result', 'stderr': err3}
        return obs
    finally:
        shutil.rmtree(base, ignore_errors=True)


def run_real_many(cases_, ctx):
    with ThreadPoolExecutor(16) as ex:
        return list(ex.map(_one, cases_))


def model_request(c, obs):
    sc = c['sc']
    ev = c['trace'] if c['k'] == 0 else obs['events']
    ext = {'joblib': '.dmp', 'h5netcdf': '.h5', 'pickle': '.pkl', 'csv': '.csv'}.get(sc.get('engine'), '')
    pre = ['data' + ext] if sc['kind'] in ('harvester', 'sampler') and sc.get('init', True) else []
    events, table = _events(ev, pre)
    return {'op': 'fstrace', 'events': events, 'data_files': ['data' + ext]}


def compare(c, obs, rep):
    if c['k'] == 0:
        if not rep['atomic']:
            e = c['trace'][rep['first_bad']]
            return f'the traced run does not follow the atomic-publication protocol: event {rep["first_bad"]} {e["op"]} {e["p"]} {e["q"]}'
        return None
    # state correspondence: the crashed directory is the model's state after the same prefix
    sc = c['sc']
    ext = {'joblib': '.dmp', 'h5netcdf': '.h5', 'pickle': '.pkl', 'csv': '.csv'}.get(sc.get('engine'), '')
    pre = ['data' + ext] if sc['kind'] in ('harvester', 'sampler') and sc.get('init', True) else []
    _, table = _events(obs['events'], pre)
    real = {}
    for p, size in obs['listing'].items():
        real[_norm(p, table)] = size
    pw = set()          # files written with pwrite (HDF5): sizes are not modelled, also after they were renamed
    for o in _events(obs['events'], pre)[0]:
        if o.get('pw'): pw.add(o['p'])
        if o['op'] == 'rename' and o['p'] in pw: pw.add(o['q'])
    model = {p: f['size'] for p, f in rep['files'].items()}
    pre_existing = {p for p in real if p.startswith('data')}      # the farmer's file existed before the traced run
    for p in set(real) | set(model):
        if p in pw: continue
        if p in pre_existing and p not in model: continue
        if real.get(p) != model.get(p):
            if p in pre_existing and model.get(p) is None: continue
            return f'crash state differs from the model replay at {p}: real {real.get(p)} model {model.get(p)}'
    return None


def oracle(c, obs):
    if 'harness_exc' in obs: return None
    sc = c['sc']
    vals, new = crashlab.expected(sc)
    if c['k'] == 0:
        if obs['trace_rc'] != 0 or not obs['trace_res']: return 'the uninterrupted run failed'
        return None
    if not obs['killed']: return None          # k beyond the last operation of this run
    exact_raw = {'raw': new}
    later = obs.get('later')
    if isinstance(later, dict) and 'err' not in later and later.get('res') is not None:
        if later['res'] != exact_raw: return f'a later reap after a kill before operation {c["k"]} returned wrong data as if complete: {later["res"]}'
    rec = obs['recover']
    if 'err' in rec: return f'recovery after a kill before operation {c["k"]} failed: {rec.get("err")}: {rec.get("msg", rec.get("stderr", ""))[:200]}'
    res = rec['res']
    if sc['kind'] == 'raw' and res != exact_raw: return f'recovery returned {res}'
    if sc['kind'] in ('runner', 'harvester') and (res.get('a') != [float(v) for v in vals] or res.get('x') != new): return f'recovery returned {res}'
    if sc['kind'] == 'sampler' and res.get('rows') != sorted([float(a), x] for a, x in zip(vals, new)): return f'recovery returned {res}'
    st = rec.get('store')
    if sc['kind'] == 'harvester':
        want_a = [float(v) for v in vals] + ([101.0, 102.0] if sc.get('init', True) else [])
        want_x = new + ([101.5, 102.5] if sc.get('init', True) else [])
        if not st or st.get('a') != want_a or st.get('x') != want_x:
            return f'after a kill before operation {c["k"]} and recovery the harvester file holds {st}, expected the earlier data and the new results'
    if sc['kind'] == 'sampler':
        want = sorted([[float(a), x] for a, x in zip(vals, new)] + [[101.0, 101.5], [102.0, 102.5]])
        if not st or st.get('rows') != want:
            return f'after a kill before operation {c["k"]} and recovery the sampler table holds {st and st.get("rows")}, expected the earlier rows and the new rows once'
    return None


def finding_key(c, obs):
    sc = c['sc']
    if sc['kind'] == 'sampler' and c['k'] and isinstance(obs, dict) and isinstance(obs.get('recover'), dict):
        st = (obs['recover'].get('store') or {}).get('rows') or []
        vals, new = crashlab.expected(sc)
        if len(st) == 2 * len(vals) + 2 and [101.0, 101.5] in st:
            return 'F2-sampler-crash-window'
    return None
