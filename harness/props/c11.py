"""C11 — concurrent growers and a waiting reaper always agree, under every interleaving."""
import os, json, random
import common, sched

PROP = 'C11'
LEAN_MODULES = ['XyzProofs.Props.C11', 'XyzProofs.Props.C08Grow', 'XyzProofs.Refine.Progress', 'XyzProofs.Refine.Reaper', 'XyzProofs.Props.C10Write']
THEOREMS = ['Conc.c11_reaper_safe', 'Conc.c11_poller_safe', 'Conc.c11_same_batch_twice', 'Conc.c11_direct_mode_counterexample',
            'Conc.c11_direct_mode_poller_counterexample', 'Conc.run_inv', 'Conc.c11_source_mode', 'Conc.c11_safe_source',
            'GrowSk.c08_grow_write_last', 'Refine.calcProgress_refines', 'Refine.missingResults_refines',
            # the waiting Reaper translated from the source (anchors_reaper.py)
            'Reaper.reaperLoadFn_present', 'Reaper.reaperLoadFn_waiting', 'Reaper.reaperStream_full',
            # the publication mode read off the translated body of write_to_disk (anchors_checkbad.py)
            'WriteSk.writeToDisk_eq_spec', 'WriteSk.wtd_final_only_replaced', 'WriteSk.wtd_replace_after_close',
            'Conc.c10_publish_agrees', 'Conc.c11_source_mode_sk', 'Conc.sourceModeSk_eq', 'Conc.c11_safe_source_sk']
ANCHORS = ['isReady', 'publishViaRename', 'tmpNamePrivate', 'tmpNameHidden', 'growSk', 'cropCalcProgress', 'cropMissingResults',
           'reaperFiles', 'reaperLoad', 'reaperWaitToLoad', 'reaperLoadFn', 'writeToDisk']
RULE = ("the real grow(), Crop.reap(wait=True) and progress queries run as threads of one process behind proxies of the names "
        "open / os / glob / time in xyzpy.gen.cropping; every file-system step (create, write halves, close, rename, unlink, "
        "exists, isfile, open-for-read, glob) is a scheduling point. Small configurations (1 grower + reaper + poller on 1 "
        "batch; 2 growers of the SAME batch + reaper; 2 growers on 2 batches + reaper + poller) are explored exhaustively "
        "by stateless depth-first search over the choice points, steps on private temporaries and on unshared files being "
        "released eagerly (they commute); larger ones (3 growers + reaper + poller on 3 batches) by seeded random schedules. "
        "Every run's read-side observations are compared with the Lean replay of the same trace; non-trivial = at least "
        "one choice point; distinct by decision sequence")
TRUSTED = ["interleavings finer than Python-level file calls, CPython/pickle thread safety, real cluster file systems are not covered",
           "the proxies only see calls made through xyzpy.gen.cropping's own module names (self-test each run)"]
PARTIAL = {'runtime': "process-level concurrency on a real (possibly networked) file system is represented by thread interleavings of Python-level file calls"}

CONFIGS = {
    'g1': {'nb': 1, 'growers': [1], 'polls': 1},
    'same': {'nb': 1, 'growers': [1, 1], 'polls': 0},
    'g2': {'nb': 2, 'growers': [1, 2], 'polls': 1},
    'g3': {'nb': 3, 'growers': [1, 2, 3], 'polls': 2},
}


def nontrivial(c): return len(c['decisions']) >= 1


_STORE = {}


def cases(ctx):
    """the exploration itself produces the cases: one case per executed schedule (configuration + decision sequence)"""
    q = ctx.tier == 'quick'
    plan = [('g1', 'dfs', 400 if q else 4000), ('same', 'dfs', 300 if q else 4000), ('g2', 'dfs', 300 if q else 6000),
            ('g3', 'random', 250 if q else 5000)]
    out = []
    rng = random.Random(ctx.seed)
    for name, mode, n in plan:
        cfg = CONFIGS[name]
        if mode == 'dfs':
            runs, complete = sched.explore(cfg, n)
        else:
            runs, complete = [], False
            for i in range(n):
                r = sched.one_run(cfg, (), random.Random(rng.randrange(10 ** 9)))
                r['decisions'] = [c for _, c in r['choices']]
                runs.append(r)
        ctx.count('exhaustive', f'{name}:{complete}')
        if not runs or _selftest(runs): ctx.notes.append(f'{name}: self-test: {_selftest(runs)}')
        for r in runs:
            key = (name, tuple(r['decisions']))
            _STORE[key] = {'out': {k: list(v) for k, v in r['out'].items()}, 'trace': r['trace'], 'expected': r['expected'],
                           'sched_err': r['sched_err'], 'selftest': _selftest([r])}
            out.append({'cfg': name, 'decisions': list(r['decisions'])})
            ctx.count('config', name); ctx.count('choice_points', min(len(r['decisions']), 12))
    return out


search_cases = cases


def run_real(c, ctx):
    key = (c['cfg'], tuple(c['decisions']))
    if key in _STORE: return _STORE[key]
    r = sched.one_run(CONFIGS[c['cfg']], c['decisions'])        # replay
    return {'out': {k: list(v) for k, v in r['out'].items()}, 'trace': r['trace'], 'expected': r['expected'],
            'sched_err': r['sched_err'], 'selftest': _selftest([r])}


def _selftest(runs):
    """the proxies must have seen the publication of every result file that exists afterwards"""
    for r in runs[:3]:
        pubs = {e.get('q') or e['p'] for e in r['trace'] if e['op'] in ('rename', 'create')}
        if not any('xyz-result-' in p for p in pubs):
            return 'no create/rename of a result file went through the proxied names: the code reaches the file system some other way'
    return None


def _initial(cfg):
    init = [{'p': 'xyz-settings.jbdmp', 'size': 1}, {'p': 'xyz-function.clpkl', 'size': 1}]
    for i in range(1, cfg['nb'] + 1): init.append({'p': 'batches/xyz-batch-%d.jbdmp' % i, 'size': 1})
    return init


def model_request(c, obs):
    return {'op': 'fssched', 'initial': _initial(CONFIGS[c['cfg']]), 'events': obs['trace']}


def compare(c, obs, m):
    if obs['selftest']: return 'self-test: ' + obs['selftest']
    for e, pred in zip(obs['trace'], m['obs']):
        if e['op'] in ('exists', 'isfile'):
            if e.get('obs') != pred and 'results' in e['p']:
                return f'{e["actor"]} {e["op"]} {e["p"]}: real {e.get("obs")} model {pred}'
        elif e['op'] == 'list' and 'results' in e['p']:
            if e.get('obs') != pred: return f'{e["actor"]} list {e["p"]}: real {e.get("obs")} model {pred}'
        elif e['op'] == 'openr' and 'results' in e['p']:
            real = e.get('obs')
            if pred is None:
                if real is not False and real is not None: return f'open of a file the model does not have: {e["p"]}'
            elif real is not False and real != pred['size']:
                return f'{e["actor"]} opened {e["p"]} with {real} bytes, model has {pred["size"]}'
    return None


def oracle(c, r):
    if 'harness_exc' in r: return None
    if r['sched_err']: return f'scheduler: {r["sched_err"]}'
    R = r['out'].get('R')
    if not R or R[0] != 'ok': return f'the waiting reaper failed: {R}'
    if R[1] != r['expected']: return f'the waiting reaper returned {R[1]} instead of {r["expected"]}'
    for g, v in r['out'].items():
        if g.startswith('G') and v[0] != 'ok': return f'grower {g} failed: {v}'
    # what the poller reported must never exceed what had really been published when it finished looking
    published = 0
    last_p = max([i for i, e in enumerate(r['trace']) if e['actor'] == 'P'], default=-1)
    for i, e in enumerate(r['trace'][:last_p + 1]):
        if e['op'] == 'rename' and 'xyz-result-' in os.path.basename(e.get('q', '')) and not os.path.basename(e['q']).startswith('.'):
            published += 1
        if e['op'] == 'close' and os.path.basename(e['p']).startswith('xyz-result-'): published += 1
    P = r['out'].get('P')
    if P and P[0] == 'ok':
        nb = len(r['expected'])
        for num, ready in P[1]:
            if num > min(published, nb): return f'a progress query reported {num} finished results when only {published} had been published'
            if ready and published < nb: return f'is_ready_to_reap() was True when only {published} of {nb} results had been published'
    elif P and P[0] != 'ok': return f'the progress poller failed: {P}'
    openw = set()
    for e in r['trace']:
        if e['op'] == 'create': openw.add(e['p'])
        elif e['op'] == 'close': openw.discard(e['p'])
        elif e['op'] == 'rename':
            if e['p'] in openw: openw.discard(e['p']); openw.add(e['q'])
        elif e['op'] == 'list' and e['actor'] == 'P':
            bad = [x for x in (e.get('obs') or []) if x in openw]
            if bad: return f'a progress query counted {bad} while it was still being written'
        elif e['op'] == 'openr' and e['p'] in openw and e['actor'] == 'R':
            return f'the reaper opened {e["p"]} while it was still being written'
    return None
