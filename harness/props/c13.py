"""C13 — missing-data discovery reports exactly the locations that have no data."""
import os, itertools, json, math
import common, dsutil
from common import quiet

PROP = 'C13'
LEAN_MODULES = ['XyzProofs.Props.C13', 'XyzProofs.Refine.Missing']
THEOREMS = ['Missing.c13_iff', 'Missing.c13_find_iff', 'Missing.c13_parse_iff', 'Missing.c13_order_nodup',
            'Missing.c13_never_reports_data', 'Missing.c13_loop', 'Missing.dataAt_iff_get', 'Missing.present_cases',
            # the hand model IS the translated source (harness/anchors_missing.py), and statements on the translated bodies
            'Missing.isCaseMissing_refines', 'Missing.isCaseMissing_refines_da', 'Missing.findMissing_refines',
            'Missing.parseIntoCases_refines', 'Missing.mergeCase_eq', 'Missing.isCaseMissing_keyError',
            'Missing.isCaseMissing_sel_error', 'Missing.isCaseMissing_unknown_method', 'Missing.isCaseMissing_all_vars',
            'Missing.isCaseMissing_dataarray', 'Missing.findMissing_fnArgs', 'Missing.parseIntoCases_no_ds',
            'Missing.c13_is_src', 'Missing.c13_find_src', 'Missing.c13_parse_src', 'Missing.missingDefaultMethod_isnull']
ANCHORS = ['addDsTrue', 'addDsFalse', 'addDsNone', 'missingDefaultMethod', 'missingEntryDefaults', 'isCaseMissing', 'findMissing', 'parseIntoCases']
RULE = ("a case is a dataset with 1-4 parameter dimensions (int, float or str labels, 1-3 labels each, sometimes unsorted), "
        "0-2 internal dimensions (with and without coordinates), 1-3 float variables over all or all-but-one parameter "
        "dimensions plus internal ones, cells = value / NaN / +inf / -inf in whole-cell, partial-cell and per-variable "
        "patterns, a null criterion (isnull / isfinite) and one of: find_missing_cases (ignore_dims as set, list, str or "
        "none), is_case_missing at a full or partial location with present or absent labels / dimensions (Dataset or "
        "DataArray), parse_into_cases with combos and cases over present and absent labels (with and without dataset), or "
        "the find -> harvest exactly the reported cases -> find loop on a real Harvester under each overwrite policy. "
        "Thorough adds all 4096 null patterns of a 2x2 grid with two variables (one with an internal dimension of size "
        "2) under both criteria. Non-trivial = the dataset has both missing and non-missing locations, or a requested "
        "label is absent; distinct by full case")
EXHAUSTIVE = {'quick': False, 'thorough': True}
TRUSTED = ["xarray .sel / .isnull / .all and numpy.isfinite on float variables (modelled, sampled)",
           "the order of Dataset.dims is taken from the real dataset (it is part of the input)"]
ASSUMPTIONS = ["variables are floating point (null = NaN); labels along a dimension are distinct",
               "c13_loop: the function returns data at every reported case, the new data has the dataset's dimensions, "
               "its coordinates are among the dataset's, and it is merged with overwrite=True (with the default policy a "
               "+-inf cell at a reported location is a merge conflict, observed and modelled as such)"]
PARTIAL = {}

LABELS = {'int': [3, 7, 10, 12], 'float': [0.25, 0.5, 1.5, 4.0], 'str': ['ab', 'b', 'cd', 'zz']}
PNAMES = ['q', 'p', 's', 'r']
TOK = {'nan': float('nan'), 'inf': float('inf'), '-inf': float('-inf')}


# ----------------------------------------------------------------------------------------------- dataset descriptions

def gen_ds(rng, npar=None, allow_short=True):
    npar = npar or rng.choice([1, 2, 2, 3, 3, 4])
    names = PNAMES[:]; rng.shuffle(names); names = names[:npar]
    dims = []
    for n in names:
        kind = rng.choice(['int', 'float', 'str'])
        k = rng.randint(1, 3 if npar < 4 else 2)
        ranks = rng.sample(range(4), k)
        if rng.random() < 0.75: ranks.sort()
        dims.append({'name': n, 'kind': kind, 'ranks': ranks})
    internal = []
    if rng.random() < 0.6: internal.append({'name': 't', 'size': 2, 'coords': True})
    if rng.random() < 0.25: internal.append({'name': 'u', 'size': 2, 'coords': False})
    nvars = rng.randint(1, 3)
    vs = []
    for j in range(nvars):
        vd = [d['name'] for d in dims]
        if allow_short and npar >= 2 and rng.random() < 0.1:
            vd.remove(rng.choice(vd))
        vd = vd + [i['name'] for i in internal if rng.random() < 0.6]
        if rng.random() < 0.2: rng.shuffle(vd)
        vs.append({'name': 'xyz'[j], 'dims': vd})
    sizes = {**{d['name']: len(d['ranks']) for d in dims}, **{i['name']: i['size'] for i in internal}}
    # null patterns
    grid = list(itertools.product(*(range(sizes[d['name']]) for d in dims)))
    whole = {g for g in grid if rng.random() < 0.3}
    allinf = {g for g in grid if g not in whole and rng.random() < 0.12}
    pname = [d['name'] for d in dims]
    counter = [0]
    for v in vs:
        shape = [sizes[n] for n in v['dims']]
        cells = []
        pervar_null = rng.random() < 0.25
        for idx in itertools.product(*(range(s) for s in shape)):
            g = tuple(idx[v['dims'].index(n)] if n in v['dims'] else None for n in pname)
            covered = [w for w in whole if all(a is None or a == b for a, b in zip(g, w))]
            full = all(a is not None for a in g)
            counter[0] += 1
            if full and g in whole: c = 'nan'
            elif full and g in allinf: c = rng.choice(['inf', '-inf', 'nan'])
            elif not full and covered and rng.random() < 0.5: c = 'nan'
            elif pervar_null and rng.random() < 0.5: c = 'nan'
            else:
                r = rng.random()
                c = 'nan' if r < 0.15 else 'inf' if r < 0.2 else '-inf' if r < 0.23 else counter[0]
            cells.append(c)
        v['shape'] = shape; v['cells'] = cells
        # stored dtype of the variable: nullness must be judged the same for every dtype that can hold NaN / inf
        v['dtype'] = rng.choice(['float', 'float', 'float', 'complex', 'float32'])
    return {'dims': dims, 'internal': internal, 'vars': vs}


def label(d, r): return LABELS[d['kind']][r]


def build(dsd):
    """the real xarray Dataset of a description"""
    import numpy as np, xarray as xr
    coords = {d['name']: [label(d, r) for r in d['ranks']] for d in dsd['dims']}
    for i in dsd['internal']:
        if i['coords']: coords[i['name']] = list(range(i['size']))
    data = {}
    for v in dsd['vars']:
        arr = np.array([TOK[c] if isinstance(c, str) else float(c) for c in v['cells']], dtype=float).reshape(v['shape'])
        dt = v.get('dtype', 'float')
        if dt == 'complex':
            arr = arr.astype(complex)
            arr = np.where(np.isfinite(arr), arr + 0.5j, arr)        # finite entries get an imaginary part, null ones stay null
        elif dt == 'float32':
            arr = arr.astype('float32')
        data[v['name']] = (tuple(v['dims']), arr)
    return xr.Dataset(data, coords=coords)


def rank_maps(dsd):
    return {d['name']: {x: i for i, x in enumerate(LABELS[d['kind']])} for d in dsd['dims']}


def model_ds(dsd, dim_order):
    """the dataset in the driver's JSON form, dimensions in the order of the real ds.dims"""
    sizes = {**{d['name']: d['ranks'] for d in dsd['dims']}, **{i['name']: list(range(i['size'])) for i in dsd['internal']}}
    vs = []
    for v in dsd['vars']:
        cells = []
        for idx, c in zip(itertools.product(*(range(s) for s in v['shape'])), v['cells']):
            if c == 'nan': continue
            cells.append([sizes[n][i] for n, i in zip(v['dims'], idx)] + [c])
        vs.append([v['name'], v['dims'], cells])
    return {'coords': [[n, sizes[n]] for n in dim_order], 'vars': vs, 'attrs': []}


# ----------------------------------------------------------------------------------------------- generators

def _req_labels(rng, d, absent_ok=True):
    """ranks to request along a dimension: present ones and (sometimes) absent ones"""
    pool = list(range(4)) if absent_ok else list(d['ranks'])
    k = rng.randint(1, min(3, len(pool)))
    return rng.sample(pool, k)


def gen_case(rng, mode=None):
    mode = mode or rng.choice(['find', 'find', 'find', 'is', 'is', 'parse', 'parse', 'loop'])
    method = rng.choice(['isnull', 'isfinite'])
    if mode == 'loop':
        return gen_loop(rng, method)
    dsd = gen_ds(rng)
    c = {'mode': mode, 'method': method, 'ds': dsd}
    inames = [i['name'] for i in dsd['internal']]
    if mode == 'find':
        r = rng.random()
        ign = list(inames)
        if r < 0.15: ign = []
        elif r < 0.3 and len(dsd['dims']) > 1: ign = ign + [rng.choice(dsd['dims'])['name']]
        elif r < 0.4: ign = ign + ['nosuchdim']
        c['ignore'] = ign
        c['ignore_as'] = rng.choice(['set', 'list', 'tuple']) if len(ign) != 1 else rng.choice(['set', 'str', 'list'])
    elif mode == 'is':
        dims = [d for d in dsd['dims'] if rng.random() < 0.85] or dsd['dims'][:1]
        setting = [[d['name'], rng.choice(d['ranks']) if rng.random() < 0.8 else rng.randrange(4)] for d in dims]
        if rng.random() < 0.07: setting.append(['nosuchdim', 0])
        if dsd['internal'] and rng.random() < 0.15:
            i = dsd['internal'][0]
            if i['coords']: setting.append([i['name'], rng.randrange(i['size'] + 1)])
        c['setting'] = setting
        c['as_da'] = len(dsd['vars']) == 1 and rng.random() < 0.5
    else:
        dims = dsd['dims'][:]; rng.shuffle(dims)
        k = rng.randint(0, len(dims))
        cdims, kdims = dims[:k], dims[k:]
        if rng.random() < 0.2 and kdims: kdims = kdims[:-1]            # a partial location
        c['combos'] = [[d['name'], _req_labels(rng, d)] for d in cdims] if cdims else None
        if kdims:
            n = rng.randint(1, 4)
            c['cases'] = [[[d['name'], rng.choice(d['ranks']) if rng.random() < 0.75 else rng.randrange(4)] for d in kdims]
                          for _ in range(n)]
        else:
            c['cases'] = None
        c['with_ds'] = rng.random() < 0.85
    return c


def gen_loop(rng, method):
    """phase 1: a Harvester harvests a sub-grid / some cases with a function that leaves holes; phase 2: find, harvest
    exactly the reported cases with a function that returns data, find again"""
    npar = rng.choice([1, 2, 2, 3])
    dsd = gen_ds(rng, npar=npar, allow_short=False)
    for d in dsd['dims']: d['ranks'] = sorted(d['ranks'])
    dsd['internal'] = [i for i in dsd['internal'] if i['coords']]
    inames = [i['name'] for i in dsd['internal']]
    for v in dsd['vars']:        # Runner output: parameter dims in fn_args order, then the variable's internal dims
        vin = [n for n in v['dims'] if n in inames] if inames else []
        vd = [d['name'] for d in dsd['dims']] + vin
        sizes = {**{d['name']: len(d['ranks']) for d in dsd['dims']}, **{i['name']: i['size'] for i in dsd['internal']}}
        shape = [sizes[n] for n in vd]
        n = 1
        for s_ in shape: n *= s_
        v['dims'] = vd; v['shape'] = shape
        v['cells'] = [rng.choice(['nan', 'nan', 'inf', None, None, None, None]) for _ in range(n)]
        v['cells'] = [(i + 1 + 100 * 'xyz'.index(v['name'])) if c is None else c for i, c in enumerate(v['cells'])]
    grid = list(itertools.product(*(range(len(d['ranks'])) for d in dsd['dims'])))
    # "dead" locations: the first function returns nothing but NaN (or inf) there, for every variable
    dead = {g: rng.choice(['nan', 'nan', 'nan', 'inf']) for g in grid if rng.random() < 0.35}
    npar_ = len(dsd['dims'])
    for v in dsd['vars']:
        for k, idx in enumerate(itertools.product(*(range(s_) for s_ in v['shape']))):
            if tuple(idx[:npar_]) in dead:
                v['cells'][k] = dead[tuple(idx[:npar_])] if rng.random() < 0.8 else 'nan'
    first = [list(g) for g in grid if rng.random() < 0.7] or [list(grid[0])]
    return {'mode': 'loop', 'method': method, 'ds': dsd, 'first': first, 'first_as': rng.choice(['cases', 'combos']),
            'policy': rng.choice(['overwrite', 'overwrite', 'none', 'keep']), 'ignore': inames}


def exhaustive_2x2():
    out = []
    for method in ['isnull', 'isfinite']:
        for mask in range(4096):
            bits = [(mask >> i) & 1 for i in range(12)]
            xc = ['nan' if b else (i + 1) for i, b in enumerate(bits[:4])]
            vc = ['nan' if b else (i + 11) for i, b in enumerate(bits[4:])]
            if xc[0] != 'nan': xc[0] = 'inf'
            if vc[7] != 'nan': vc[7] = '-inf'
            dsd = {'dims': [{'name': 'p', 'kind': 'int', 'ranks': [0, 1]}, {'name': 'q', 'kind': 'str', 'ranks': [1, 2]}],
                   'internal': [{'name': 't', 'size': 2, 'coords': True}],
                   'vars': [{'name': 'x', 'dims': ['p', 'q'], 'shape': [2, 2], 'cells': xc},
                            {'name': 'y', 'dims': ['p', 'q', 't'], 'shape': [2, 2, 2], 'cells': vc}]}
            out.append({'mode': 'find', 'method': method, 'ds': dsd, 'ignore': ['t'], 'ignore_as': 'set'})
    return out


def boundary(rng):
    out = []
    for method in ['isnull', 'isfinite']:
        # one dimension, one variable: value / nan / inf
        dsd = {'dims': [{'name': 'p', 'kind': 'int', 'ranks': [0, 1, 2]}], 'internal': [],
               'vars': [{'name': 'x', 'dims': ['p'], 'shape': [3], 'cells': [1, 'nan', 'inf']}]}
        out.append({'mode': 'find', 'method': method, 'ds': dsd, 'ignore': [], 'ignore_as': 'list'})
        # partial cell: one internal position has data -> never reported; per-variable null -> never reported
        dsd = {'dims': [{'name': 'p', 'kind': 'str', 'ranks': [0, 2]}], 'internal': [{'name': 't', 'size': 2, 'coords': True}],
               'vars': [{'name': 'x', 'dims': ['p', 't'], 'shape': [2, 2], 'cells': ['nan', 5, 'nan', 'nan']},
                        {'name': 'y', 'dims': ['p'], 'shape': [2], 'cells': ['nan', 'nan']}]}
        out.append({'mode': 'find', 'method': method, 'ds': dsd, 'ignore': ['t'], 'ignore_as': 'str'})
        out.append({'mode': 'is', 'method': method, 'ds': dsd, 'setting': [['p', 3]], 'as_da': False})       # absent label
        out.append({'mode': 'is', 'method': method, 'ds': dsd, 'setting': [['nosuchdim', 0]], 'as_da': False})
        out.append({'mode': 'parse', 'method': method, 'ds': dsd, 'combos': [['p', [0, 2, 3, 2]]], 'cases': None, 'with_ds': True})
        out.append({'mode': 'parse', 'method': method, 'ds': dsd, 'combos': None, 'cases': [[['p', 0]], [['p', 1]], [['p', 0]]], 'with_ds': True})
    for _ in range(6):
        out.append(gen_loop(rng, rng.choice(['isnull', 'isfinite'])))
    return out


def cases(ctx):
    rng = ctx.rng
    out = boundary(rng)
    for _ in range(1000 if ctx.tier == 'quick' else 8000):
        out.append(gen_case(rng))
    if ctx.tier == 'thorough':
        out += exhaustive_2x2()
    for c in out:
        ctx.count('mode', c['mode']); ctx.count('method', c['method'])
        ctx.count('n_param_dims', len(c['ds']['dims'])); ctx.count('n_vars', len(c['ds']['vars']))
        ctx.count('internal_dims', len(c['ds']['internal']))
        ctx.count('label_kinds', '+'.join(sorted({d['kind'] for d in c['ds']['dims']})))
        for v in c['ds']['vars']: ctx.count('var_dtype', v.get('dtype', 'float'))
    return out


def search_cases(ctx):
    rng = ctx.rng
    return boundary(rng) + [gen_case(rng) for _ in range(1500)] + exhaustive_2x2()[::8]


def nontrivial(c):
    cells = [x for v in c['ds']['vars'] for x in v['cells']]
    if any(x == 'nan' for x in cells) and any(x != 'nan' for x in cells): return True
    if c['mode'] == 'is': return any(r not in next((d['ranks'] for d in c['ds']['dims'] if d['name'] == k), []) for k, r in c['setting'])
    return c['mode'] in ('parse', 'loop')


def shrink_candidates(c):
    if c['mode'] == 'loop': return
    dsd = c['ds']
    if len(dsd['vars']) > 1:
        for j in range(len(dsd['vars'])):
            yield {**c, 'ds': {**dsd, 'vars': dsd['vars'][:j] + dsd['vars'][j + 1:]}}


# ----------------------------------------------------------------------------------------------- real run

def _ranks_of_cases(dsd, fn_args, cases, extra=None):
    rm = rank_maps(dsd)
    out = []
    for cs in cases:
        row = []
        for a, v in zip(fn_args, cs):
            v = v.item() if hasattr(v, 'item') else v
            row.append(rm[a][v] if a in rm else int(v))
        out.append(row)
    return out


def _ignore_arg(c):
    ign = c['ignore']
    how = c.get('ignore_as', 'set')
    if not ign: return None if how != 'list' else []
    if how == 'str' and len(ign) == 1: return ign[0]
    return {'set': set, 'list': list, 'tuple': tuple}.get(how, set)(ign)


def _fn_for(dsd, phase_full):
    """function for the Runner of the loop: returns per variable a scalar / array over its internal dims"""
    import numpy as np
    pnames = [d['name'] for d in dsd['dims']]
    rm = rank_maps(dsd)
    pos = {d['name']: {r: i for i, r in enumerate(d['ranks'])} for d in dsd['dims']}

    def f(**kw):
        idx = tuple(pos[n][rm[n][kw[n]]] for n in pnames)
        outs = []
        for v in dsd['vars']:
            arr = np.array([TOK[c] if isinstance(c, str) else float(c) for c in v['cells']], dtype=float).reshape(v['shape'])
            sub = np.array(arr[idx], dtype=float)
            if phase_full:
                sub = np.full(sub.shape, 7000.0 + 'xyz'.index(v['name']))
            outs.append(sub if sub.shape else float(sub))
        return outs[0] if len(outs) == 1 else tuple(outs)
    return f


def run_real(c, ctx):
    import numpy as np, xarray as xr, xyzpy as xyz
    from xyzpy.gen.case_runner import is_case_missing, find_missing_cases, parse_into_cases
    dsd = c['ds']
    rm = rank_maps(dsd)
    if c['mode'] == 'loop':
        return _run_loop(c, ctx)
    ds = build(dsd)
    dim_order = [str(d) for d in ds.dims]
    obs = {'dim_order': dim_order}
    try:
        if c['mode'] == 'find':
            fa, cs = find_missing_cases(ds, ignore_dims=_ignore_arg(c), method=c['method'])
            obs['fn_args'] = list(fa); obs['cases'] = _ranks_of_cases(dsd, fa, cs)
        elif c['mode'] == 'is':
            lab = {d['name']: d for d in dsd['dims']}
            setting = {k: (label(lab[k], r) if k in lab else r) for k, r in c['setting']}
            obj = ds[dsd['vars'][0]['name']] if c.get('as_da') else ds
            obs['missing'] = bool(is_case_missing(obj, setting, method=c['method']))
        else:
            lab = {d['name']: d for d in dsd['dims']}
            combos = {k: [label(lab[k], r) for r in rs] for k, rs in c['combos']} if c['combos'] is not None else None
            cs = [{k: label(lab[k], r) for k, r in row} for row in c['cases']] if c['cases'] is not None else None
            res = parse_into_cases(combos, cs, ds if c['with_ds'] else None, method=c['method'])
            obs['cases'] = [[[k, rm[k][v]] for k, v in row.items()] for row in res]
    except Exception as e:
        return {'err': type(e).__name__, 'msg': str(e)[:200], 'dim_order': dim_order}
    return obs


def _run_loop(c, ctx):
    import numpy as np, xarray as xr, xyzpy as xyz
    from xyzpy.gen.case_runner import find_missing_cases
    import fns
    dsd = c['ds']
    pn = [d['name'] for d in dsd['dims']]
    inames = [i['name'] for i in dsd['internal']]
    var_dims = {v['name']: [n for n in v['dims'] if n in inames] for v in dsd['vars']}
    var_coords = {i['name']: list(range(i['size'])) for i in dsd['internal']}
    d = common.fresh_dir('c13')
    calls = []
    try:
        f1 = _fn_for(dsd, False)
        r = xyz.Runner(f1, var_names=[v['name'] for v in dsd['vars']], fn_args=pn, var_dims=var_dims, var_coords=var_coords)
        h = xyz.Harvester(r, data_name=os.path.join(d, 'loop'), engine='joblib')
        lab = {dd['name']: dd for dd in dsd['dims']}
        pts = [{n: label(lab[n], lab[n]['ranks'][i]) for n, i in zip(pn, g)} for g in c['first']]
        with quiet():
            if c['first_as'] == 'combos':
                combos = {n: sorted({p[n] for p in pts}, key=lambda x: LABELS[lab[n]['kind']].index(x)) for n in pn}
                h.harvest_combos(combos, verbosity=0)
            else:
                h.harvest_cases(pts, verbosity=0)
        ds1 = h.full_ds
        dim_order = [str(x) for x in ds1.dims]
        rmaps = rank_maps(dsd)
        before = dsutil.canon_tok_ds(ds1, coord_rank=rmaps, sort_dims=False)
        fa, cs = find_missing_cases(ds1, ignore_dims=set(inames) or None, method=c['method'])
        obs = {'dim_order': dim_order, 'before': before, 'fn_args': list(fa), 'cases': _ranks_of_cases(dsd, fa, cs),
               'numpy_missing': _numpy_missing(ds1, list(fa), c['method'], rmaps)}
        f2 = _fn_for(dsd, True)

        def logged(**kw):
            calls.append([rmaps[n][kw[n]] for n in fa]); return f2(**kw)
        h.runner = xyz.Runner(logged, var_names=[v['name'] for v in dsd['vars']], fn_args=pn, var_dims=var_dims, var_coords=var_coords)
        err = None
        try:
            if cs:
                with quiet():
                    h.harvest_cases([dict(zip(fa, cc)) for cc in cs], overwrite={'none': None, 'overwrite': True, 'keep': False}[c['policy']], verbosity=0)
        except Exception as e:
            err = dsutil.err_enum(e)
        obs['err'] = err; obs['calls'] = calls
        fa2, cs2 = find_missing_cases(h.full_ds, ignore_dims=set(inames) or None, method=c['method'])
        obs['after'] = _ranks_of_cases(dsd, fa2, cs2)
        obs['after_numpy'] = _numpy_missing(h.full_ds, list(fa2), c['method'], rmaps)
        return obs
    finally:
        common.rm(d)


def _numpy_missing(ds, fn_args, method, rmaps):
    """direct inspection: the grid locations (ranks) at which every variable is entirely null"""
    import numpy as np
    out = []
    labs = [ds[a].values.tolist() for a in fn_args]
    for idx in itertools.product(*(range(len(l)) for l in labs)):
        miss = True
        for v in ds.data_vars.values():
            sel = tuple(idx[fn_args.index(dn)] if dn in fn_args else slice(None) for dn in v.dims)
            sub = np.asarray(v.values[sel])
            if sub.dtype.kind not in 'fc': sub = sub.astype(float)
            bad = np.isnan(sub) if method == 'isnull' else ~np.isfinite(sub)
            if not bad.all(): miss = False; break
        if miss:
            out.append([rmaps[a][labs[j][i]] if a in rmaps else int(labs[j][i]) for j, (a, i) in enumerate(zip(fn_args, idx))])
    return out


# ----------------------------------------------------------------------------------------------- model

def model_request(c, obs):
    if 'dim_order' not in obs: return None
    rq = {'op': 'missing', 'mode': c['mode'], 'method': c['method']}
    if c['mode'] == 'loop':
        rq['ds'] = obs['before']; rq['ignore'] = c['ignore']; rq['policy'] = c['policy']
        return rq
    rq['ds'] = model_ds(c['ds'], obs['dim_order'])
    if c['mode'] == 'find': rq['ignore'] = c['ignore']
    elif c['mode'] == 'is':
        rq['setting'] = c['setting']
        if c.get('as_da'):
            name = c['ds']['vars'][0]['name']
            v = c['ds']['vars'][0]
            rq['ds']['vars'] = [x for x in rq['ds']['vars'] if x[0] == name]
            rq['ds']['coords'] = [x for x in rq['ds']['coords'] if x[0] in v['dims']]
    else:
        rq['combos'] = c['combos'] if c['combos'] is not None else []
        rq['cases'] = c['cases']
        rq['with_ds'] = c['with_ds']
    return rq


def compare(c, obs, rep):
    if 'err' in obs and c['mode'] != 'loop':
        return f'real raised {obs["err"]}: {obs.get("msg")} (model: {json.dumps(rep)[:200]})'
    if c['mode'] == 'find':
        if obs['fn_args'] != rep['fn_args']: return f'fn_args differ: real {obs["fn_args"]} model {rep["fn_args"]}'
        if obs['cases'] != rep['cases']: return f'reported cases differ: real {obs["cases"][:8]} model {rep["cases"][:8]}'
    elif c['mode'] == 'is':
        if obs['missing'] != rep['missing']: return f'is_case_missing: real {obs["missing"]} model {rep["missing"]}'
    elif c['mode'] == 'parse':
        if obs['cases'] != rep['cases']: return f'parse_into_cases differs: real {json.dumps(obs["cases"])[:300]} model {json.dumps(rep["cases"])[:300]}'
    else:
        if obs['fn_args'] != rep['fn_args'] or obs['cases'] != rep['cases']:
            return f'loop: first report differs: real {obs["cases"][:8]} model {rep["cases"][:8]}'
        merr = rep.get('err')
        if not obs['cases']: merr = None
        if (obs['err'] == 'conflict') != (merr == 'conflict'):
            return f'loop: harvest outcome differs: real {obs["err"]} model {merr}'
        if obs['err'] is None and obs['cases'] and obs['after'] != rep.get('after'):
            return f'loop: second report differs: real {obs["after"][:8]} model {rep.get("after")}'
    return None


# ----------------------------------------------------------------------------------------------- oracle

def _direct_missing(dsd, loc, method):
    """the property itself on the description: absent label/dimension, or every variable entirely null at loc"""
    dims = {d['name']: d for d in dsd['dims']}
    for i in dsd['internal']:
        dims[i['name']] = {'name': i['name'], 'ranks': list(range(i['size']))}
    for k, r in loc:
        if k not in dims or r not in dims[k]['ranks']: return True
    locd = dict((k, r) for k, r in loc)
    for v in dsd['vars']:
        for idx, c in zip(itertools.product(*(range(s) for s in v['shape'])), v['cells']):
            if any(n in locd and dims[n]['ranks'][i] != locd[n] for n, i in zip(v['dims'], idx)): continue
            if c == 'nan': continue
            if method == 'isfinite' and c in ('inf', '-inf'): continue
            return False
    return True


def oracle(c, obs):
    if 'harness_exc' in obs: return None
    dsd, method = c['ds'], c['method']
    if c['mode'] == 'loop':
        if obs['cases'] != obs['numpy_missing']:
            return f'first report {obs["cases"][:6]} is not the set of all-null grid locations {obs["numpy_missing"][:6]} (grid order)'
        if obs['err'] is not None:
            if obs['err'] == 'conflict' and c['policy'] == 'none' and method == 'isfinite': return None     # inf vs value
            return f'harvesting the reported cases raised {obs["err"]}'
        if sorted(obs['calls']) != sorted(obs['cases']):
            return 'the harvest did not run exactly the reported cases'
        if c['policy'] == 'keep' and method == 'isfinite': return None      # +-inf is kept by overwrite=False
        if obs['after'] or obs['after_numpy']:
            return f'after harvesting exactly the reported cases, still reported missing: {obs["after"][:6]}'
        return None
    if 'err' in obs:
        return f'raised {obs["err"]}: {obs.get("msg")}'
    if c['mode'] == 'is':
        want = _direct_missing(dsd if not c.get('as_da') else {**dsd, 'vars': dsd['vars'][:1],
                               'dims': [d for d in dsd['dims'] if d['name'] in dsd['vars'][0]['dims']],
                               'internal': [i for i in dsd['internal'] if i['name'] in dsd['vars'][0]['dims']]}, c['setting'], method)
        return None if obs['missing'] == want else f'is_case_missing returned {obs["missing"]}, direct inspection says {want}'
    if c['mode'] == 'find':
        ign = set(c['ignore'])
        order = [n for n in obs['dim_order'] if n not in ign]
        if obs['fn_args'] != order: return f'fn_args {obs["fn_args"]} are not the non-ignored dimensions {order}'
        dims = {d['name']: d['ranks'] for d in dsd['dims']}
        for i in dsd['internal']: dims[i['name']] = list(range(i['size']))
        want = [list(p) for p in itertools.product(*(dims[n] for n in order))
                if _direct_missing(dsd, list(zip(order, p)), method)]
        if len({tuple(x) for x in obs['cases']}) != len(obs['cases']): return 'a location is reported twice'
        if obs['cases'] != want:
            extra = [x for x in obs['cases'] if x not in want]; lost = [x for x in want if x not in obs['cases']]
            if extra: return f'locations with data were reported missing: {extra[:5]}'
            if lost: return f'locations without any data were not reported: {lost[:5]}'
            return 'reported locations are not in grid order'
        return None
    # parse
    combos = c['combos'] or []
    cases_ = c['cases'] if c['cases'] is not None else [[]]
    want = []
    for case in cases_:
        for setting in itertools.product(*(rs for _, rs in combos)):
            nc = dict((k, r) for k, r in case); nc.update({k: r for (k, _), r in zip(combos, setting)})
            loc = [[k, r] for k, r in nc.items()]
            if not c['with_ds'] or _direct_missing(dsd, loc, method): want.append(loc)
    if obs['cases'] != want:
        return f'parse_into_cases kept {json.dumps(obs["cases"])[:200]}, the requested settings without data are {json.dumps(want)[:200]}'
    return None


def finding_key(c, obs):
    return None
