"""C14 — saving and loading a dataset gives the same dataset back (partial: path and attribute logic proved, the
engines' encode/decode is an assumption exercised here by real round trips)."""
import os, itertools, json, math, copy
import common, dsutil
from common import quiet

PROP = 'C14'
LEAN_MODULES = ['XyzProofs.Props.C14', 'XyzProofs.Refine.Reap', 'XyzProofs.Refine.StoreIO', 'XyzProofs.Props.C14Io']
THEOREMS = ['StoreIO.c14_ext_idempotent', 'StoreIO.c14_same_path', 'StoreIO.c14_path_rule', 'StoreIO.c14_ext_table',
            'StoreIO.c14_roundtrip_modulo_attrs', 'StoreIO.c14_attr_rule', 'StoreIO.tagCodec_inverse',
            'Refine.autoAddExt_refines',
            # the bodies of save_ds / load_ds / save_df / load_df as translated (Props/C14Io.lean)
            'StoreIO.saveDs_spec', 'StoreIO.saveDs_attrs_refines', 'StoreIO.saveDs_keeps_numbers', 'StoreIO.saveDs_writers',
            'StoreIO.loadDs_spec', 'StoreIO.c14_load_create_new', 'StoreIO.c14_load_existing_is_read',
            'StoreIO.c14_save_load_same_path', 'StoreIO.c14_translated_paths', 'StoreIO.c14_load_value_error',
            'StoreIO.c14_load_and_close', 'StoreIO.loadDs_readers', 'StoreIO.c14_df_tables',
            # save_merge_ds / Harvester.delete_ds as translated (state skeletons, Refine/StoreIO.lean)
            'Harvest.saveMergeDs_eq_spec', 'Harvest.saveMergeDs_refines', 'Harvest.saveMergeDs_default_engine',
            'Harvest.hvDeleteDs_refines', 'Harvest.hvDeleteDs_dispatch', 'Harvest.hvDeleteDs_backup']
ANCHORS = ['engineExt', 'extRuleSubstring', 'extAppendCount', 'saveDsExtends', 'loadDsExtends', 'attrExempt',
           'attrNoneStr', 'attrTrueStr', 'attrFalseStr', 'deleteRemoveExtended', 'saveMergeExistsExtended',
           'saveMergeLoadsWithEngine', 'saveMergeTrue', 'saveMergeFalse', 'saveMergeNone',
           'autoAddExt', 'saveDs', 'loadDs', 'saveDf', 'loadDf', 'saveMergeDs', 'hvDeleteDs']
RULE = ("a case is a dataset with 0-4 dimensions (sizes 1-3; int, float, str labels or no coordinate), 1-3 variables of "
        "kind int / float / complex / bool / str over any subset of the dimensions (0-d included), NaN patterns in float "
        "and complex data, attributes None / True / False / str / int / float, an engine (h5netcdf, joblib), a file name "
        "(bare, own extension, another engine's extension, extension-like substring in a directory component or inside "
        "the base name, plain sub-directory, dotted name without known extension), chunks in {None, 1, dict}; the run "
        "saves, lists the directory, loads (eagerly and lazily), merges a second dataset with new (longer) labels through "
        "save_merge_ds under each overwrite policy, loads again, and deletes through Harvester.delete_ds. Canonical "
        "forms compare values by bit pattern (complex, NaN). Non-trivial = at least one dimension and one attribute or "
        "a name without its own extension; distinct by full case")
TRUSTED = ["HDF5 / netCDF (h5netcdf, h5py) and pickle (joblib) encoders and decoders; dask laziness — exercised, not modelled"]
ASSUMPTIONS = ["Codec.Inverse: an engine's reader inverts its writer on canonical datasets (hypothesis of "
               "c14_roundtrip_modulo_attrs; every real round trip of this check tests it)"]
PARTIAL = {
    'c14_roundtrip_modulo_attrs': "proved for the path and attribute logic only; that h5netcdf / joblib reproduce "
                                  "dimensions, coordinates, dtypes and values (complex, NaN) is the assumption "
                                  "Codec.Inverse, validated by the real round trips of this check",
    'lazy loading (chunks) = eager loading': "engine / dask behaviour, not modelled; compared on every case when dask is importable",
    'netcdf4 / zarr engines': "not importable here; only their extension table entries and attribute exemption are covered",
}

ENGINES = ['h5netcdf', 'joblib']
LAB = {'int': [2, 5, 9, 14, 20, 31], 'float': [0.5, 1.25, 3.0, 7.5, 8.0, 9.5], 'str': ['a', 'bb', 'c', 'dddd', 'eeeee', 'ffffff']}


def have_dask():
    try:
        import dask  # noqa
        return True
    except Exception:
        return False


def names_for(engine):
    own = dsutil.EXT[engine]
    other = dsutil.EXT['joblib' if engine == 'h5netcdf' else 'h5netcdf']
    return ['run', 'run' + own, 'run' + other, 'run.nc', 'dir.h5x/run', 'sub/run', 'run.v2', 'data.ncdf', 'sub/run' + own]


# ----------------------------------------------------------------------------------------------- dataset descriptions

def _val(rng, kind, k):
    if kind == 'int': return 10 * k + rng.randint(0, 9)
    if kind == 'float': return rng.choice(['nan', k + 0.5, -k - 0.25, k * 1e-3, float(k)])
    if kind == 'complex': return rng.choice([['nan', 'nan'], [k + 0.5, -1.5 * k], [-0.0, 2.0 * k], [0.0, float(k)]])
    if kind == 'bool': return rng.random() < 0.5
    return rng.choice(['s', 'tt', 'uuu%d' % k, ''][:3]) + str(k % 3)


def gen_attrs(rng):
    # numbers equal to a bool (0, 1, 0.0, 1.0) must stay numbers: only the objects None / True / False are rewritten
    pool = [None, True, False, 'text', 'None', 7, -3, 2.5, 1e-3, '', 0, 1, 0.0, 1.0]
    return [['k%d' % i, rng.choice(pool)] for i in range(rng.choice([0, 1, 2, 3, 4]))]


def gen_ds(rng):
    nd = rng.choice([0, 1, 1, 2, 2, 3, 4])
    dims = []
    for i in range(nd):
        size = rng.randint(1, 3 if nd < 4 else 2)
        kind = rng.choice(['int', 'float', 'str', 'none']) if i > 0 else rng.choice(['int', 'float', 'str'])
        dims.append({'name': 'd%d' % i, 'size': size, 'kind': kind,
                     'ranks': sorted(rng.sample(range(3), size)) if kind != 'none' else None})
    vs = []
    for j in range(rng.randint(1, 3)):
        kind = rng.choice(['int', 'float', 'float', 'complex', 'bool', 'str'])
        vd = [d['name'] for d in dims if rng.random() < 0.75]
        if nd and j == 0 and 'd0' not in vd: vd = ['d0'] + vd
        shape = [next(d['size'] for d in dims if d['name'] == n) for n in vd]
        n = 1
        for s in shape: n *= s
        vs.append({'name': 'v%d' % j, 'kind': kind, 'dims': vd, 'shape': shape, 'vals': [_val(rng, kind, k + 1) for k in range(n)]})
    return {'dims': dims, 'vars': vs, 'attrs': gen_attrs(rng)}


def second(rng, dsd):
    """a dataset with the same variables over new (longer) labels of d0 — disjoint from the first, to be merged in"""
    if not dsd['dims']: return None
    d2 = copy.deepcopy(dsd)
    d0 = d2['dims'][0]
    d0['ranks'] = sorted(rng.sample(range(3, 6), d0['size']))
    for v in d2['vars']:
        if 'd0' in v['dims']:          # variables without d0 live at the same points in both datasets: identical data
            v['vals'] = [_val(rng, v['kind'], 50 + k) for k in range(len(v['vals']))]
    d2['attrs'] = []
    return d2


def _py(kind, x):
    if kind == 'float': return float('nan') if x == 'nan' else float(x)
    if kind == 'complex': return complex(*[float('nan') if p == 'nan' else float(p) for p in x])
    return x


def build(dsd):
    import numpy as np, xarray as xr
    coords = {d['name']: [LAB[d['kind']][r] for r in d['ranks']] for d in dsd['dims'] if d['kind'] != 'none'}
    data = {}
    dt = {'int': 'int64', 'float': 'float64', 'complex': 'complex128', 'bool': 'bool', 'str': None}
    for v in dsd['vars']:
        vals = [_py(v['kind'], x) for x in v['vals']]
        arr = np.array(vals, dtype=dt[v['kind']]).reshape(v['shape']) if v['shape'] else np.array(vals[0], dtype=dt[v['kind']])
        data[v['name']] = (tuple(v['dims']), arr)
    ds = xr.Dataset(data, coords=coords)
    for k, a in dsd['attrs']: ds.attrs[k] = a
    return ds


def gen_case(rng, engine=None, name=None):
    engine = engine or rng.choice(ENGINES)
    dsd = gen_ds(rng)
    return {'engine': engine, 'name': name or rng.choice(names_for(engine)), 'ds': dsd, 'ds2': second(rng, dsd),
            'policy': rng.choice(['none', 'overwrite', 'keep']), 'chunks': rng.choice([None, 1, 'dict']),
            'kw_engine': engine != 'h5netcdf' or rng.random() < 0.5}


def cases(ctx):
    rng = ctx.rng
    out = []
    for eng in ENGINES:                      # boundary: every name spelling with a small dataset carrying every attribute type
        for nm in names_for(eng):
            c = gen_case(rng, eng, nm)
            c['ds']['attrs'] = [['a', None], ['b', True], ['c', False], ['d', 'x'], ['e', 3], ['f', 2.5],
                                ['g', 1], ['h', 0], ['i', 1.0], ['j', 0.0]]
            out.append(c)
    for eng in ENGINES:                      # partially-NaN complex values and signed zeros survive by bit pattern (no merge)
        c = gen_case(rng, eng, 'cplx')
        c['ds'] = {'dims': [{'name': 'd0', 'size': 3, 'kind': 'int', 'ranks': [0, 1, 2]}], 'attrs': [],
                   'vars': [{'name': 'v0', 'kind': 'complex', 'dims': ['d0'], 'shape': [3], 'vals': [[1.0, 'nan'], ['nan', -0.0], [-0.0, 0.0]]}]}
        c['ds2'] = None
        out.append(c)
    # the same name rule through a Harvester: own engine x engine given per call x name spelling
    for own in ENGINES:
        for call in [None] + ENGINES:
            for nm in ['hv', 'hv' + dsutil.EXT[call or own]]:
                out.append({'hv': True, 'engine': call or own, 'own': own, 'call': call, 'name': nm,
                            'ds': {'dims': [], 'vars': [], 'attrs': []}, 'ds2': None, 'chunks': None, 'policy': None})
    for _ in range(150 if ctx.tier == 'quick' else 2000):
        out.append(gen_case(rng))
    for c in out:
        ctx.count('engine', c['engine']); ctx.count('name', c['name']); ctx.count('ndims', len(c['ds']['dims']))
        ctx.count('chunks', c['chunks'])
        for v in c['ds']['vars']: ctx.count('var_kind', v['kind'])
        for k, a in c['ds']['attrs']: ctx.count('attr_type', type(a).__name__)
    return out


def search_cases(ctx):
    rng = ctx.rng
    return [gen_case(rng, eng, nm) for eng in ENGINES for nm in names_for(eng) for _ in range(4)]


def nontrivial(c):
    if c.get('hv'): return True
    return bool(c['ds']['dims']) and (bool(c['ds']['attrs']) or not c['name'].endswith(dsutil.EXT[c['engine']]))


def shrink_candidates(c):
    dsd = c['ds']
    if len(dsd['vars']) > 1:
        for j in range(len(dsd['vars'])):
            d1 = {**dsd, 'vars': dsd['vars'][:j] + dsd['vars'][j + 1:]}
            d2 = None if c['ds2'] is None else {**c['ds2'], 'vars': c['ds2']['vars'][:j] + c['ds2']['vars'][j + 1:]}
            yield {**c, 'ds': d1, 'ds2': d2}
    if dsd['attrs']:
        yield {**c, 'ds': {**dsd, 'attrs': dsd['attrs'][:-1]}}


# ----------------------------------------------------------------------------------------------- real run

def _points(ds):
    """every (variable, labelled point) -> bit-exact value, for the merge check"""
    import numpy as np
    out = {}
    for name, da in ds.data_vars.items():
        arr = np.asarray(da.values)
        for idx in np.ndindex(arr.shape):
            key = tuple((d, (ds[d].values[i].item() if d in ds.coords else int(i))) for d, i in zip(da.dims, idx))
            out[(name, key)] = arr[idx].item() if hasattr(arr[idx], 'item') else arr[idx]
    return out


def _same(a, b):
    """value equality across the int->float / bool->object promotion of an outer join; NaN equals NaN"""
    def nanlike(x):
        return isinstance(x, (float, complex)) and x != x
    if nanlike(a) or nanlike(b):
        if isinstance(a, complex) or isinstance(b, complex):
            a, b = complex(a), complex(b)
            return (math.isnan(a.real) == math.isnan(b.real)) and (math.isnan(a.imag) == math.isnan(b.imag)) and \
                (math.isnan(a.real) or a.real == b.real) and (math.isnan(a.imag) or a.imag == b.imag)
        return nanlike(a) and nanlike(b)
    return a == b


def _run_hv(c):
    """save / load / new session / delete through a Harvester: which files exist after each step"""
    import xyzpy as xyz
    d = common.fresh_dir('c14hv')
    try:
        path = os.path.join(d, c['name'])
        kw = {'engine': c['call']} if c['call'] else {}
        obs = {}
        try:
            with common.quiet():
                h = xyz.Harvester(xyz.Runner(lambda a: a * 1.0, var_names='x'), path, engine=c['own'])
                h.harvest_combos({'a': [1, 2]}, verbosity=0, **kw)
                obs['ls_save'] = dsutil.listing(d)
                back = xyz.load_ds(path, engine=c['engine'])
                obs['loaded_a'] = sorted(back['a'].values.tolist())
                h2 = xyz.Harvester(xyz.Runner(lambda a: a * 1.0, var_names='x'), path, engine=c['engine'])
                h2.harvest_combos({'a': [3]}, verbosity=0)
                obs['ls_second'] = dsutil.listing(d)
                obs['second_a'] = sorted(h2.full_ds['a'].values.tolist())
                # a third session spelled like the first (own engine + engine given per call) must find the file, too
                h3 = xyz.Harvester(xyz.Runner(lambda a: a * 1.0, var_names='x'), path, engine=c['own'])
                h3.harvest_combos({'a': [4]}, verbosity=0, **kw)
                obs['ls_third'] = dsutil.listing(d)
                obs['third_a'] = sorted(xyz.load_ds(path, engine=c['engine'])['a'].values.tolist())
                h2.delete_ds()
                obs['ls_delete'] = dsutil.listing(d)
        except Exception as e:
            obs['err'] = {'stage': 'harvester', 'class': type(e).__name__, 'msg': str(e)[:200]}
            obs['ls_err'] = dsutil.listing(d)
        return obs
    finally:
        common.rm(d)


def run_real(c, ctx):
    import numpy as np, xarray as xr, xyzpy as xyz
    if c.get('hv'): return _run_hv(c)
    d = common.fresh_dir('c14')
    eng, name = c['engine'], c['name']
    path = os.path.join(d, name)
    if os.path.dirname(name): os.makedirs(os.path.dirname(path), exist_ok=True)
    obs = {}
    stage = 'build'
    try:
        ds = build(c['ds'])
        obs['orig'] = dsutil.canon_full(ds)
        stage = 'save'
        xyz.save_ds(ds, path, engine=eng)
        obs['ls_save'] = dsutil.listing(d)
        obs['attrs_in_memory_after_save'] = dsutil.canon_full(ds)['attrs']
        stage = 'load'
        l = xyz.load_ds(path, engine=eng)
        obs['loaded'] = dsutil.canon_full(l)
        if hasattr(l, 'close'): l.close()
        # load_ds(create_new=True): the data when the file is there, a blank dataset only when it is not
        stage = 'load_create_new'
        l2 = xyz.load_ds(path, engine=eng, create_new=True)
        obs['loaded_create_new'] = dsutil.canon_full(l2)
        if hasattr(l2, 'close'): l2.close()
        l3 = xyz.load_ds(path + '_absent', engine=eng, create_new=True)
        obs['blank'] = {'vars': len(l3.data_vars), 'dims': len(l3.dims), 'attrs': len(l3.attrs)}
        obs['ls_create_new'] = dsutil.listing(d)
        if have_dask() and c['chunks'] is not None:
            stage = 'load_chunks'
            ch = 1 if c['chunks'] == 1 else {dd['name']: 1 for dd in c['ds']['dims']}
            lz = xyz.load_ds(path, engine=eng, chunks=ch)
            obs['lazy_is_dask'] = any(hasattr(v.data, 'dask') for v in lz.data_vars.values())
            obs['loaded_lazy'] = dsutil.canon_full(lz.compute())
            lz.close()
        if c['ds2'] is not None:
            stage = 'save_merge'
            ds2 = build(c['ds2'])
            want = {**_points(build(c['ds'])), **_points(ds2)}
            kw = {'engine': eng} if c['kw_engine'] or eng != 'h5netcdf' else {}
            xyz.save_merge_ds(ds2, path, overwrite={'none': None, 'overwrite': True, 'keep': False}[c['policy']], **kw)
            obs['ls_merge'] = dsutil.listing(d)
            stage = 'load_merged'
            lm = xyz.load_ds(path, engine=eng)
            got = _points(lm)
            lost = [str(k) for k, v in want.items() if k not in got or not _same(got[k], v)]
            obs['merge_lost'] = lost[:6]
            obs['merge_extra'] = [str(k) for k, v in got.items() if k not in want and not (isinstance(v, float) and v != v) and v is not None][:6]
            if hasattr(lm, 'close'): lm.close()
        stage = 'delete'
        h = xyz.Harvester(xyz.Runner(lambda a: a, var_names='x'), data_name=path, engine=eng)
        h.delete_ds()
        obs['ls_delete'] = dsutil.listing(d)
    except Exception as e:
        obs['err'] = {'stage': stage, 'class': type(e).__name__, 'msg': str(e)[:200]}
        obs['ls_err'] = dsutil.listing(d)
    finally:
        common.rm(d)
    return obs


# ----------------------------------------------------------------------------------------------- model

def _attr_json(a):
    if isinstance(a, float): return {'f': repr(a)}
    return a


def _tiny(dsd):
    """token dataset for the model: the first variable over d0 only (enough for paths, merges and conflicts)"""
    if dsd is None or not dsd['dims']: return {'coords': [], 'vars': [['v', [], [[1]]]], 'attrs': []}
    r = dsd['dims'][0]['ranks']
    return {'coords': [['d0', r]], 'vars': [['v', ['d0'], [[x, 100 + x] for x in r]]],
            'attrs': [[k, _attr_json(a)] for k, a in dsd['attrs']]}


def model_request(c, obs):
    if c.get('hv'): return None
    ops = [{'op': 'save', 'name': c['name'], 'N': _tiny(c['ds'])}, {'op': 'load', 'name': c['name']}]
    if c['ds2'] is not None:
        ops += [{'op': 'save_merge', 'name': c['name'], 'N': _tiny(c['ds2']), 'policy': c['policy']}, {'op': 'load', 'name': c['name']}]
    ops += [{'op': 'new', 'name': c['name']}, {'op': 'delete', 'sid': 0}]
    return {'op': 'harvest', 'engine': c['engine'], 'ops': ops}


def compare(c, obs, rep):
    m = rep['obs']
    if 'err' in obs:
        # the model never fails on these sequences unless paths disagree; report which stage the model expected to work
        merr = [o.get('err') for o in m if o.get('err')] + [1 for o in m if o.get('disk') == 'ERR' or ('disk' in o and o['disk'] is None)]
        return None if merr else f'real failed at {obs["err"]["stage"]} ({obs["err"]["class"]}), model predicts success'
    if obs['ls_save'] != m[0]['ls']: return f'after save: files {obs["ls_save"]} model {m[0]["ls"]}'
    if m[1]['disk'] in (None, 'ERR'): return 'model predicts that load_ds does not find what save_ds wrote'
    matt = [[k, _unjson(a)] for k, a in m[1]['disk']['attrs']]
    ratt = [[k, _bits_to_py(b)] for k, b in obs['loaded']['attrs'].items()]
    if sorted(map(json.dumps, matt)) != sorted(map(json.dumps, ratt)) and c['ds']['dims']:
        return f'loaded attributes {ratt} model {matt}'
    i = 2
    if c['ds2'] is not None:
        if obs['ls_merge'] != m[2]['ls']: return f'after save_merge_ds: files {obs["ls_merge"]} model {m[2]["ls"]}'
        md = m[3]['disk']
        if md in (None, 'ERR'): return 'model: merged file unreadable'
        want_pts = len(c['ds']['dims'][0]['ranks']) + len(c['ds2']['dims'][0]['ranks'])
        if (len(md['vars'][0][2]) == want_pts) != (not obs['merge_lost']):
            return f'merge: model keeps {len(md["vars"][0][2])} of {want_pts} points, real lost {obs["merge_lost"]}'
        i = 4
    if obs['ls_delete'] != m[i + 1]['ls']: return f'after delete: files {obs["ls_delete"]} model {m[i + 1]["ls"]}'
    return None


def _unjson(a):
    if isinstance(a, dict): return float(a['f'])
    return a


def _bits_to_py(b):
    import struct
    if b[0] == 'f': return struct.unpack('>d', bytes.fromhex(b[1]))[0]
    if b[0] == 'n': return None
    return b[1]


# ----------------------------------------------------------------------------------------------- oracle

def oracle(c, obs):
    if 'harness_exc' in obs: return None
    if c.get('hv'):
        if 'err' in obs: return f'Harvester(own engine {c["own"]}, call engine {c["call"]}, name {c["name"]}) raised {obs["err"]["class"]}: {obs["err"]["msg"]} (files {obs.get("ls_err")})'
        want = [dsutil.documented_path(c['name'], c['engine'])]
        if list(obs['ls_save']) != want: return f'saving through a Harvester (own {c["own"]}, call {c["call"]}) wrote {list(obs["ls_save"])}, the documented name is {want}'
        if obs['loaded_a'] != [1, 2]: return 'load_ds by the same name and engine did not give the data back'
        if list(obs['ls_second']) != want or obs['second_a'] != [1, 2, 3]: return f'a new session did not continue from the saved file: files {list(obs["ls_second"])}, a={obs["second_a"]}'
        if list(obs['ls_third']) != want or obs['third_a'] != [1, 2, 3, 4]:
            return f'a third session (own engine {c["own"]}, engine per call {c["call"]}) did not continue from the saved file: files {list(obs["ls_third"])}, a={obs["third_a"]}'
        if list(obs['ls_delete']): return f'delete_ds left {list(obs["ls_delete"])}'
        return None
    eng, name = c['engine'], c['name']
    if 'err' in obs:
        return f'{obs["err"]["stage"]} raised {obs["err"]["class"]}: {obs["err"]["msg"]} (files: {obs.get("ls_err")})'
    want_path = dsutil.documented_path(name, eng)
    if obs['ls_save'] != [want_path]:
        return f'save_ds({name!r}, engine={eng}) produced files {obs["ls_save"]}, expected exactly [{want_path}]'
    # attributes: the documented rewriting for netCDF engines, nothing for joblib
    exp = copy.deepcopy(obs['orig'])
    if eng in ('h5netcdf', 'netcdf4'):
        for k, b in exp['attrs'].items():
            if b == ['n']: exp['attrs'][k] = ['s', 'None']
            elif b == ['b', True]: exp['attrs'][k] = ['s', 'True']
            elif b == ['b', False]: exp['attrs'][k] = ['s', 'False']
    got = obs['loaded']
    for part in ('dims', 'coords', 'vars', 'attrs'):
        if got[part] != exp[part]:
            return f'loaded dataset differs from the saved one in {part}: ' + _first_diff(exp[part], got[part])
    if obs.get('loaded_create_new') is not None and obs['loaded_create_new'] != got:
        return 'load_ds(create_new=True) on an existing file did not give the saved data back'
    if obs.get('blank') is not None and obs['blank'] != {'vars': 0, 'dims': 0, 'attrs': 0}:
        return f'load_ds(create_new=True) on a missing file gave a non-empty dataset: {obs["blank"]}'
    if obs.get('ls_create_new') is not None and obs['ls_create_new'] != [want_path]:
        return f'load_ds(create_new=True) changed the directory: {obs["ls_create_new"]}'
    if 'loaded_lazy' in obs:
        if obs['loaded_lazy'] != got:
            for part in ('dims', 'coords', 'vars', 'attrs'):
                if obs['loaded_lazy'][part] != got[part]:
                    return f'lazy (chunks={c["chunks"]}) load differs from the in-memory load in {part}: ' + _first_diff(got[part], obs['loaded_lazy'][part])
    if c['ds2'] is not None:
        if obs['ls_merge'] != [want_path]:
            return f'save_merge_ds wrote {obs["ls_merge"]}, expected exactly [{want_path}]'
        if obs['merge_lost']:
            return f'after save_merge_ds of disjoint data, points are lost or altered: {obs["merge_lost"][:4]}'
        if obs['merge_extra']:
            return f'after save_merge_ds, unexpected non-null points: {obs["merge_extra"][:4]}'
    if obs['ls_delete'] != []:
        return f'Harvester.delete_ds left files {obs["ls_delete"]}'
    return None


def _first_diff(a, b):
    if isinstance(a, dict) and isinstance(b, dict):
        for k in sorted(set(a) | set(b)):
            if a.get(k) != b.get(k):
                return f'{k}: saved {json.dumps(a.get(k))[:160]} loaded {json.dumps(b.get(k))[:160]}'
    return f'saved {json.dumps(a)[:160]} loaded {json.dumps(b)[:160]}'


def finding_key(c, obs):
    return None
