"""C12 — a crop is deleted only after its data is safely delivered."""
import os, json, itertools, pickle, shutil
import common, fns, sweeps, crops, labelled
from common import quiet, canon

PROP = 'C12'
LEAN_MODULES = ['XyzProofs.Props.C12', 'XyzProofs.Refine.Reap', 'XyzProofs.Props.C12Skel', 'XyzProofs.Refine.Lifecycle', 'XyzProofs.Props.C12Reap']
THEOREMS = ['Crop.c12_err_leaves_crop', 'Crop.c12_deleted_iff', 'Crop.c12_retry_exact', 'Crop.c12_options',
            'Crop.reapLinear_congr', 'Crop.reapLinear_dir',
            'Refine.calcCleanUp_refines', 'Refine.checkReady_refines',
            'Skel.splitDel_spec', 'Skel.splitDel_none', 'Skel.reapCombos_deleteLast', 'Skel.reapCombos_deletes_iff', 'Skel.reapCombos_errorKeeps', 'Skel.reapCombos_before', 'Skel.reapRunner_deleteLast_partial', 'Skel.reapRunner_deletes_iff', 'Skel.reapRunner_before', 'Skel.reapHarvest_deleteLast', 'Skel.reapHarvest_deletes_iff', 'Skel.reapHarvest_sync_before_delete', 'Skel.reapHarvest_errorKeeps', 'Skel.reapSamples_deleteLast', 'Skel.reapSamples_deletes_iff', 'Skel.reapSamples_sync_before_delete', 'Skel.reapSamples_errorKeeps',
            'Lc.reapCombos_refines', 'Lc.reapCombosToDs_refines', 'Lc.reapRunner_refines', 'Lc.deleteAll_refines',
            # the dispatch of the public entry point Crop.reap, translated on every run (anchors_checkbad.py)
            'Skel.reapDispatch_faithful', 'Skel.reapDefaults_spec', 'Skel.deleteAll_removes_location', 'Skel.reapSk_eq',
            'Skel.c12_reap_deletes_iff', 'Skel.c12_reap_deleteLast', 'Skel.c12_reap_errorKeeps', 'Skel.c12_reap_sync_before_delete']
ANCHORS = ['cleanUpDefault', 'harvestDefersCleanup', 'samplesDefersCleanup', 'isReady',
           'calcCleanUp', 'checkReady',
           'reapCombosSk', 'reapCombosToDsSk', 'reapRunnerSk', 'reapHarvestSk', 'reapSamplesSk',
           'reapCombosLc', 'reapCombosToDsLc', 'reapRunnerLc', 'deleteAllLc',
           'reapDispatch', 'reapDefaults', 'deleteAllRemoves']
RULE = ("the full table clean_up in {None, True, False} x allow_incomplete x wait x farmer kind {raw, Runner, Harvester, "
        "Sampler} x failure stage {none, incomplete crop, unreadable result, wrong output description, harvester merge "
        "conflict, save error} (stages that do not apply to a kind are skipped; wait is only combined with fully grown "
        "crops): attempt the reap, inspect directory and data file, correct the cause, retry with the same options; every "
        "scenario is non-trivial; distinct by scenario tuple. Exhaustive in both tiers (thorough varies crop shapes).")
EXHAUSTIVE = {'quick': True, 'thorough': True}
TRUSTED = ["failures are injected from outside (corrupting a file, a Runner with one var_name too many, a conflicting data file, a data path in a missing directory)"]

STAGES = {'raw': ['none', 'incomplete', 'unreadable', 'surplus'],
          'runner': ['none', 'incomplete', 'unreadable', 'label', 'surplus'],
          'harvester': ['none', 'incomplete', 'unreadable', 'label', 'conflict', 'saveerr', 'finishing'],
          'sampler': ['none', 'incomplete', 'unreadable', 'label', 'saveerr', 'finishing']}
# 'finishing': a partial reap (allow_incomplete) of a crop whose last batch is still missing, during whose sync with the
# farmer's store another worker finishes that batch -- the crop is complete by the time the deferred clean-up is decided,
# yet what was reaped was not: only an explicit clean_up=True may delete it


def nontrivial(c): return True


def cases(ctx):
    rng = ctx.rng
    out = []
    shapes = [(5, 2)] if ctx.tier == 'quick' else [(5, 2), (6, 4), (3, 1), (7, 3)]
    for n, bs in shapes:
        for kind, stages in STAGES.items():
            for stage in stages:
                for cu in (None, True, False):
                    for ai in (False, True):
                        for wait in (False, True):
                            if wait and stage == 'incomplete': continue
                            if stage == 'incomplete' and ai and kind in ('harvester', 'sampler'): continue
                            if stage == 'finishing' and (wait or not ai): continue
                            out.append({'kind': kind, 'stage': stage, 'clean_up': cu, 'allow_incomplete': ai, 'wait': wait,
                                        'n': n, 'bs': bs, 'engine': rng.choice(['joblib', 'h5netcdf']) if kind == 'harvester' else 'pickle',
                                        'shuffle': rng.choice([0, 5])})
    # reap(sync=False): the data are returned and recorded as the last result, the farmer's store is not touched, and the
    # directory goes exactly when the resolved clean_up says so
    for n, bs in shapes[:1]:
        for kind in ('harvester', 'sampler'):
            for cu in (None, True, False):
                for ai in (False, True):
                    out.append({'kind': kind, 'stage': 'none', 'clean_up': cu, 'allow_incomplete': ai, 'wait': False, 'sync': False,
                                'n': n, 'bs': bs, 'engine': 'joblib' if kind == 'harvester' else 'pickle', 'shuffle': 0})
    for c in out:
        ctx.count('kind', c['kind']); ctx.count('stage', c['stage']); ctx.count('clean_up', c['clean_up'])
        ctx.count('sync', c.get('sync', True))
    return out


search_cases = cases


def _sweep(n, n_values=None):
    vals = list(range(10, 10 + (n_values or n)))
    return {'case_args': [], 'combo_args': ['a'], 'values': {'a': vals}, 'combo_order': {'a': list(range(n))}, 'rows': None, 'consts': {}}


def _surplus(c):
    """'surplus' stage: the crop was first sown and grown with one more setting in the same number of batches, then
    re-sown smaller: the last result file is one entry too long, so the reap finds results left over"""
    return c['stage'] == 'surplus'


def _ops(c):
    nb = -(-c['n'] // c['bs'])
    ids = list(range(1, nb + 1))
    if c['stage'] in ('incomplete', 'finishing'): ids = ids[:-1] or []
    if _surplus(c):
        nb = 3
        ops = [{'op': 'new', 'nb': nb}, {'op': 'sow', 'shuffle': 0, 'cases': False, 'sw': _sweep(6, 6)},
               {'op': 'grow', 'ids': [1, 2, 3], 'via': 'crop'}, {'op': 'sow', 'shuffle': 0, 'cases': False, 'sw': _sweep(5, 6)}]
    else:
        ops = [{'op': 'new', 'bs': c['bs']}, {'op': 'sow', 'shuffle': c['shuffle'], 'cases': c['kind'] == 'sampler'},
               {'op': 'grow', 'ids': ids, 'via': 'crop'}]
    if c['stage'] == 'unreadable': ops.append({'op': 'corrupt', 'id': 1})
    r = {'op': 'reapf', 'kind': c['kind'], 'allow_incomplete': c['allow_incomplete'], 'wait': c['wait'],
         'label_fails': c['stage'] == 'label', 'deliver_fails': c['stage'] in ('conflict', 'saveerr')}
    if c['clean_up'] is not None: r['clean_up'] = c['clean_up']
    if c['stage'] == 'finishing': r['late_ids'] = [nb]
    ops.append(r)
    if not _expect_fail(c): return ops
    if c['stage'] in ('incomplete',): ops.append({'op': 'growmissing'})
    if c['stage'] == 'unreadable': ops += [{'op': 'delres', 'id': 1}, {'op': 'growmissing'}]
    if _surplus(c): ops += [{'op': 'checkbad'}, {'op': 'growmissing'}]
    r2 = dict(r); r2['label_fails'] = False; r2['deliver_fails'] = False
    ops.append(r2)
    return ops


def _expect_fail(c):
    return c['stage'] not in ('none', 'finishing') and not (c['stage'] == 'incomplete' and c['allow_incomplete'])


def run_real(c, ctx):
    import numpy as np, pandas as pd, xarray as xr
    import xyzpy as xyz
    sw = _sweep(5, 6) if _surplus(c) else _sweep(c['n'])
    kind = {'scalar': 'num'}
    f = sweeps.make_rec(sw, kind)
    d = common.fresh_dir('c12')
    loc = os.path.join(d, '.xyz-t')
    sub = os.path.join(d, 'sub')
    if c['stage'] != 'saveerr': os.makedirs(sub)
    try:
        runner = xyz.Runner(f, var_names=['x'], fn_args=['a'])
        farmer, data = None, None
        if c['kind'] == 'runner': farmer = runner
        elif c['kind'] == 'harvester':
            data = os.path.join(sub, 'h' + ('.dmp' if c['engine'] == 'joblib' else '.h5'))
            farmer = xyz.Harvester(runner, data_name=data, engine=c['engine'])
        elif c['kind'] == 'sampler':
            data = os.path.join(sub, 's.pkl')
            farmer = xyz.Sampler(runner, data_name=data, default_combos={'a': sw['values']['a']})
        bkw = {'num_batches': 3} if _surplus(c) else {'batchsize': c['bs']}
        if farmer is None: crop = xyz.Crop(fn=f, name='t', parent_dir=d, **bkw)
        else: crop = farmer.Crop(name='t', parent_dir=d, **bkw)
        with quiet():
            if _surplus(c):
                crop.sow_combos({'a': sw['values']['a']}, verbosity=0)          # 6 settings in 3 batches
                ls_sown = crops.ls(loc)
                crop.grow([1, 2, 3], verbosity=0)
                ls_grown = crops.ls(loc)
                crop.sow_combos({'a': sw['values']['a'][:5]}, verbosity=0)      # re-sown smaller, same number of batches
            elif c['kind'] == 'sampler':
                crop.shuffle = c['shuffle'] or False
                crop.sow_cases(['a'], [(v,) for v in sw['values']['a']], verbosity=0)
            else:
                crop.sow_combos({'a': sw['values']['a']}, shuffle=c['shuffle'] or False, verbosity=0)
            if not _surplus(c):
                ls_sown = crops.ls(loc)
                nb = -(-c['n'] // c['bs'])
                ids = list(range(1, nb + 1))
                if c['stage'] in ('incomplete', 'finishing'): ids = ids[:-1]
                if ids: crop.grow(ids, verbosity=0)
        obs = [{'o': None, 'ls': None}, {'o': None, 'ls': ls_sown}, {'o': None, 'ls': crops.ls(loc)}]
        if _surplus(c): obs = [{'o': None, 'ls': None}, {'o': None, 'ls': ls_sown}, {'o': None, 'ls': ls_grown}, {'o': None, 'ls': crops.ls(loc)}]
        # inject
        if c['stage'] == 'unreadable':
            with open(os.path.join(loc, 'results', 'xyz-result-1.jbdmp'), 'wb') as fh: fh.write(b'\x80garbage')
            obs.append({'o': None, 'ls': crops.ls(loc)})
        if c['stage'] == 'label': runner.var_names = ['x', 'extra']
        if c['stage'] == 'conflict':
            bad = xr.Dataset(coords={'a': [sw['values']['a'][0]]}, data_vars={'x': ('a', [-777.0])})
            xyz.save_ds(bad, data, engine=c['engine'])
        if c['stage'] == 'finishing':
            # another worker finishes the outstanding batch at the moment the farmer starts syncing
            meth = 'add_ds' if c['kind'] == 'harvester' else 'add_df'
            orig = getattr(farmer, meth)
            nb_all = -(-c['n'] // c['bs'])

            def syncing(*a, **k):
                with quiet():
                    xyz.Crop(name='t', parent_dir=d).grow([nb_all], verbosity=0)
                return orig(*a, **k)
            setattr(farmer, meth, syncing)
        opts = dict(allow_incomplete=c['allow_incomplete'], wait=c['wait'])
        if c['clean_up'] is not None: opts['clean_up'] = c['clean_up']
        if c.get('sync') is False: opts['sync'] = False

        def attempt():
            try:
                with quiet():
                    r = crop.reap(**opts)
                if isinstance(r, xr.Dataset): val = {'ds': labelled.canon_ds(r)}
                elif isinstance(r, pd.DataFrame): val = {'df': labelled.canon_df(r)}
                else: val = {'raw': sweeps.canon_result(r)}
                return {'res': 'ok', 'val': val}
            except Exception as e:
                return {'res': crops.classify(e, reap=True), 'exc': type(e).__name__, 'msg': str(e)[:150]}

        def store():
            if not data or not os.path.exists(data): return None
            try:
                if c['kind'] == 'harvester': return labelled.canon_ds(xyz.load_ds(data, engine=c['engine']))
                return labelled.canon_df(xyz.load_df(data))
            except Exception as e:
                return {'unreadable': type(e).__name__}
        a1 = attempt()
        obs.append({'o': a1, 'ls': crops.ls(loc), 'store': store()})
        if not _expect_fail(c):
            last = None
            if farmer is not None:
                l = runner.last_ds if c['kind'] != 'sampler' else getattr(farmer, 'last_df', None)
                last = None if l is None else 'set'
            return {'obs': obs, 'last': last}
        # correct the cause
        with quiet():
            if c['stage'] == 'incomplete':
                try: crop.grow_missing(verbosity=0); g = None
                except Exception as e: g = {'err': 'fail', 'exc': type(e).__name__}
                obs.append({'o': g, 'ls': crops.ls(loc)})
            if c['stage'] == 'unreadable':
                p = os.path.join(loc, 'results', 'xyz-result-1.jbdmp')
                if os.path.exists(p): os.remove(p)
                obs.append({'o': None, 'ls': crops.ls(loc)})
                try: crop.grow_missing(verbosity=0); g = None
                except Exception as e: g = {'err': 'fail', 'exc': type(e).__name__}
                obs.append({'o': g, 'ls': crops.ls(loc)})
            if _surplus(c):
                try: bad = sorted(int(x) for x in crop.check_bad()); g = {'bad': bad}
                except Exception as e: g = {'err': 'fail', 'exc': type(e).__name__}
                obs.append({'o': g, 'ls': crops.ls(loc)})
                try: crop.grow_missing(verbosity=0); g = None
                except Exception as e: g = {'err': 'fail', 'exc': type(e).__name__}
                obs.append({'o': g, 'ls': crops.ls(loc)})
            if c['stage'] == 'label': runner.var_names = ['x']
            if c['stage'] == 'conflict': opts['overwrite'] = True      # the documented way to resolve a conflict
            if c['stage'] == 'saveerr': os.makedirs(sub)
        a2 = attempt()
        obs.append({'o': a2, 'ls': crops.ls(loc), 'store': store()})
        last = None
        if farmer is not None:
            l = runner.last_ds if c['kind'] != 'sampler' else getattr(farmer, 'last_df', None)
            last = None if l is None else ('ds' if isinstance(l, xr.Dataset) else 'df')
        return {'obs': obs, 'last': last}
    finally:
        common.rm(d)


def model_request(c, obs):
    h = {'sweep': _sweep(5, 6) if _surplus(c) else _sweep(c['n']), 'kind': {'scalar': 'num'}, 'ops': _ops(c)}
    return crops.history_request(h)


def compare(c, obs, rep):
    mo = rep.get('obs')
    if mo is None: return f'model error {rep}'
    if len(mo) != len(obs['obs']): return f'harness/model op count {len(obs["obs"])} vs {len(mo)}'
    for j, (r, m) in enumerate(zip(obs['obs'], mo)):
        if isinstance(m['o'], dict) and 'res' in m['o']:
            if not isinstance(r['o'], dict) or r['o'].get('res') != m['o']['res']:
                return f'op {j}: reap outcome real {json.dumps(r["o"], default=str)[:200]} model {m["o"]}'
        if r['ls'] != m['ls']: return f'op {j}: directory listing real {r["ls"]} model {m["ls"]}'
    return None


def oracle(c, obs):
    if 'harness_exc' in obs: return None
    o = obs['obs']
    att = [x for x in o if isinstance(x['o'], dict) and 'res' in x['o']]
    a1, a2 = att[0], att[-1]
    before = o[o.index(a1) - 1]['ls']
    resolved = c['clean_up'] if c['clean_up'] is not None else (not c['allow_incomplete'])
    sw = _sweep(5, 6) if _surplus(c) else _sweep(c['n']); sz = sweeps.sizes(sw)
    nn = 5 if _surplus(c) else c['n']
    want = [canon(fns.render({'scalar': 'num'}, fns.code_of_ranks([i], sz))) for i in range(nn)]

    def value_ok(val):
        if 'raw' in val: return val['raw'] == want
        if 'ds' in val: return val['ds']['vars']['x']['data'] == want and val['ds']['coords']['a'] == sw['values']['a'][:nn]
        rows = sorted(val['df'], key=lambda r: r['a'])
        return [r['x'] for r in rows] == want and [r['a'] for r in rows] == sw['values']['a'][:nn]
    expect_fail = _expect_fail(c)
    if expect_fail:
        if a1['o']['res'] == 'ok': return f'the reap succeeded although {c["stage"]} was injected'
        if a1['ls'] != before: return f'a failed reap ({c["stage"]}: {a1["o"].get("exc")}) changed the crop directory: {before} -> {a1["ls"]}'
        if c['stage'] == 'incomplete' and a1['o']['res'] != 'notReady': return 'an incomplete crop was not refused with the not-ready error'
    else:
        if a1['o']['res'] != 'ok': return f'reap failed without injected failure: {a1["o"]}'
    if a2['o']['res'] != 'ok':
        return f'after correcting the cause ({c["stage"]}) the retried reap failed: {a2["o"].get("exc")}: {a2["o"].get("msg")}'
    first_ok = a1 if a1['o']['res'] == 'ok' else a2
    final = first_ok['ls']
    if c['stage'] not in ('incomplete', 'finishing') or not c['allow_incomplete']:
        if not value_ok(first_ok['o']['val']): return 'the delivered data are not the exact results'
    if c['stage'] == 'finishing' and not resolved:
        nb_all = -(-c['n'] // c['bs'])
        if final is None or final.get('r') != list(range(1, nb_all + 1)) or final.get('b') != list(range(1, nb_all + 1)):
            return ('a partial reap whose missing batch was finished by another worker during the sync must leave every '
                    f'crop file in place (clean-up did not apply): directory after the reap {final}')
    if expect_fail:
        if not value_ok(a2['o']['val']): return 'the retried reap did not deliver the exact results'
    final = first_ok['ls']
    if resolved and final is not None: return 'clean-up applied but the crop directory is still there'
    if not resolved and final is None: return 'the crop directory was deleted although clean-up did not apply'
    if c.get('sync') is False:
        if first_ok.get('store') is not None: return "reap(sync=False) wrote to the farmer's store"
    elif c['kind'] in ('harvester', 'sampler'):
        st = first_ok.get('store')
        if st is None or 'unreadable' in (st or {}): return 'crop reaped but the data file does not hold the data'
        if c['stage'] == 'finishing':
            # a partial reap was delivered: finished settings exact, the others missing
            nfin = (-(-c['n'] // c['bs']) - 1) * c['bs']
            miss = lambda v: v is None or v == 'nan'
            if c['kind'] == 'harvester':
                got = st['vars']['x']['data']
                if len(got) != len(want) or any((not miss(g)) and g != w for g, w in zip(got, want)) or sum(1 for g in got if not miss(g)) != nfin:
                    return f'the harvester file does not hold the partial results (finished exact, others missing): {got}'
            else:
                byarg = {v: w for v, w in zip(sw['values']['a'], want)}
                if any((not miss(r['x'])) and r['x'] != byarg.get(r['a']) for r in st) or sum(1 for r in st if not miss(r['x'])) != nfin:
                    return f'the sampler file does not hold the partial results: {st}'
        elif c['kind'] == 'harvester' and st['vars']['x']['data'] != want and not (c['stage'] == 'incomplete'):
            return 'the harvester file does not hold the exact results'
        elif c['kind'] == 'sampler' and sorted(r['x'] for r in st) != sorted(want): return 'the sampler file does not hold exactly the reaped rows'
    if c['kind'] != 'raw' and obs['last'] is None: return "the farmer's last result was not set"
    return None
