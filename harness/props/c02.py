"""C02 — sparse cases run only what was asked and leave every other slot missing."""
import os, itertools, json
import common, fns, sweeps
from common import canon

PROP = 'C02'
LEAN_MODULES = ['XyzProofs.Props.C02', 'XyzProofs.Props.C02ParseCases', 'XyzProofs.Refine.Core']
THEOREMS = ['Core.c02_calls_exactly_requested', 'Core.c02_slot', 'Core.c02_coords_union', 'Core.c02_overlap_rejected',
            'Value.c02_placeholder_shape', 'Value.c02_placeholder_none_iff', 'Core.sortedSet_spec',
            'ParseCases.c02_pc_dicts', 'ParseCases.c02_pc_tuples', 'ParseCases.c02_pc_bare', 'ParseCases.c02_pc_needs_fn_args',
            'ParseCases.c02_pc_empty', 'ParseCases.dictZip_nodup',
            # the hand-written model is the source as translated on this run (harness/anchors_core.py, pyloop2lean.py)
            'CoreRefine.coreEnum_refines', 'CoreRefine.coreRun_runLinear', 'CoreRefine.unflatten_refines',
            'CoreRefine.coreProcess_cases', 'CoreRefine.coreGlue_holds', 'CoreRefine.translated_eq_core',
            'CoreRefine.c02_slot_src']
ANCHORS = ['casesWrapBare', 'coreEnum', 'coreRun', 'unflatten', 'coreProcess', 'coreGlue']
RULE = ("1-4 case arguments, 1-8 distinct cases (dict spelling through combo_runner(cases=...), tuple spelling through "
        "case_runner), optional sub-grid on 0-2 further arguments, result kinds scalar num/bool/str, tuples (incl. str/bool "
        "components), nested lists and numpy arrays of float / int / bool / str entries (1-d to 3-d, alone or as tuple "
        "components), Dataset; shuffle / executors; flat or nested, split; plus a stream of requests with an "
        "argument in both cases and combos (must be rejected before any call); non-trivial = at least one slot of the "
        "output grid was not requested, or >= 2 cases; distinct by full case")
TRUSTED = ["unsortable (mixed-type) coordinate order is not modelled (generators keep one type per argument)"]
ASSUMPTIONS = ["all cases of one request have the same keys (the property's quantifier)"]

KINDS = sweeps.KINDS_BASIC + [{'tuple': [[[], 'str'], [[], 'num'], [[], 'bool']]}, sweeps.KIND_DS, {'ds': [['u', [2], 'num']]},
                               {'arr': [[1, 2], 'num']},        # a nested list whose outer length is one
                               {'ds': [['u', [], 'int'], ['v', [2], 'bool']]}, {'ds': [['u', [2], 'str'], ['v', [], 'int']]}]
# rectangular results whose entries are not floats: as nested lists or (case['np']) as numpy arrays of dtype int64 / bool / <U
KINDS_ARR = [{'arr': [sh, lf]} for lf in ('int', 'bool', 'str') for sh in ([3], [1], [2, 3], [3, 2], [2, 1, 2])] + \
            [{'tuple': [[[2], 'int'], [[], 'num'], [[2, 2], 'bool']]}, {'tuple': [[[3], 'str'], [[2], 'int']]}]
KINDS = KINDS + KINDS_ARR


def has_array(kind):
    k = next(iter(kind))
    return k == 'arr' or (k == 'tuple' and any(sh for sh, _ in kind[k]))


def _set_kind(c, kind, rng):
    c['kind'] = kind
    c.pop('np', None)
    if has_array(kind) and rng.random() < 0.6:
        c['np'] = True           # the function returns numpy arrays, not nested lists


def n_box(sw):
    n = 1
    for a in sw['case_args']: n *= len(sw['values'][a])
    return n


def nontrivial(c):
    if c.get('kind') == 'parsecases': return c['sp']['k'] in ('rows', 'dicts') and len(c['sp'].get('rows') or c['sp'].get('ds') or []) >= 2
    sw = c['sweep']
    return c.get('overlap') or len(sw['rows']) >= 2 or n_box(sw) > len(sw['rows'])


def _case(rng, heavy_ok=False, **kw):
    kw.setdefault('n_case_args', (1, 4)); kw.setdefault('n_cases', (1, 8)); kw.setdefault('n_combo_args', (0, 2))
    kw.setdefault('mixed', True)
    sw = sweeps.gen_sweep(rng, **kw)
    kind = rng.choice(KINDS)
    k = sweeps.n_outputs(kind)
    via = rng.choice(['combo_runner', 'combo_runner', 'case_runner'])
    c = {'sweep': sw, 'kind': None, 'strategy': sweeps.gen_strategy(rng, heavy_ok), 'via': via,
         'split': bool(k) and rng.random() < 0.6, 'flat': via == 'case_runner' or rng.random() < 0.2,
         'spelling': rng.choice(['dict', 'dict_anyorder', 'tuple']) if via == 'case_runner' else rng.choice(['dict', 'dict_anyorder'])}
    _set_kind(c, kind, rng)
    if via == 'case_runner' and len(sw['case_args']) == 1 and rng.random() < 0.6:
        c['spelling'] = 'bare'
    if 'ds' in kind:
        # the function returns a Dataset, a plain dict of (dims, data) pairs, or (one variable) a named DataArray
        c['xr_form'] = rng.choice([True, True, 'dict'] + (['dataarray', 'dataarray'] if len(kind['ds']) == 1 else []))
        c['strategy'] = {'name': rng.choice(['seq', 'shuffle_int']), 'shuffle': rng.randint(1, 30)}
        if c['strategy']['name'] == 'seq': c['strategy'].pop('shuffle')
    return c


# ----------------------------------------------------------------------------- spellings of a case list (parse_cases)

def _pc_val(rng):
    return rng.choice([rng.randint(0, 30), rng.randint(0, 30), rng.choice(['p', 'q', 'beta', 'al', 'xyz', 'tt'])])


def _pc_case(rng):
    fa = rng.sample(['a', 'b', 'c'], rng.randint(1, 3))
    n = rng.randint(1, 4)
    meaning = [[[k, _pc_val(rng)] for k in fa] for _ in range(n)]
    style = rng.choice(['dicts', 'onedict', 'tuples', 'bare', 'bare_first', 'tuple_first', 'ragged', 'no_fn_args', 'empty'])
    expect = None
    fn_args = fa
    if style == 'dicts':
        sp = {'k': 'dicts', 'ds': meaning}; expect = meaning
        if rng.random() < 0.3: fn_args = None
    elif style == 'onedict':
        sp = {'k': 'onedict', 'd': meaning[0]}; expect = meaning[:1]
        if rng.random() < 0.3: fn_args = None
    elif style == 'tuples':
        sp = {'k': 'rows', 'rows': [[v for _, v in cs] for cs in meaning]}; expect = meaning
    elif style == 'bare':
        fn_args = fa[:1]
        meaning = [cs[:1] for cs in meaning]
        sp = {'k': 'rows', 'rows': [cs[0][1] for cs in meaning]}; expect = meaning
    elif style == 'bare_first':      # first row bare, later rows anything
        sp = {'k': 'rows', 'rows': [_pc_val(rng)] + [rng.choice([_pc_val(rng), [_pc_val(rng) for _ in range(rng.randint(0, 3))]]) for _ in range(n - 1)]}
    elif style == 'tuple_first':     # first row a tuple, later rows anything
        sp = {'k': 'rows', 'rows': [[_pc_val(rng) for _ in fa]] + [rng.choice([_pc_val(rng), [_pc_val(rng) for _ in range(rng.randint(0, 3))]]) for _ in range(n - 1)]}
    elif style == 'ragged':
        sp = {'k': 'rows', 'rows': [[_pc_val(rng) for _ in range(rng.randint(0, 4))] for _ in range(n)]}
    elif style == 'no_fn_args':
        fn_args = None
        sp = {'k': 'rows', 'rows': [[v for _, v in cs] for cs in meaning]}
    else:
        sp = rng.choice([{'k': 'none'}, {'k': 'rows', 'rows': []}, {'k': 'dicts', 'ds': []}, {'k': 'onedict', 'd': []}]); expect = []
    return {'kind': 'parsecases', 'fn_args': fn_args, 'sp': sp, 'style': style, 'expect': expect, 'seq_type': rng.choice(['list', 'tuple'])}


def _pc_run(c):
    from xyzpy.gen.prepare import parse_cases
    sp = c['sp']; seq = list if c['seq_type'] == 'list' else tuple
    if sp['k'] == 'none': py = None
    elif sp['k'] == 'onedict': py = dict(map(tuple, sp['d']))
    elif sp['k'] == 'dicts': py = seq(dict(map(tuple, d)) for d in sp['ds'])
    else: py = seq(tuple(r) if isinstance(r, list) else r for r in sp['rows'])
    try:
        res = parse_cases(py, None if c['fn_args'] is None else tuple(c['fn_args']))
    except TypeError:
        return {'err': 'TypeError'}
    except Exception as ex:
        return {'err': type(ex).__name__, 'msg': str(ex)[:200]}
    def cv(v): return [cv(x) for x in v] if isinstance(v, (tuple, list)) else v
    return {'cases': [[[k, cv(v)] for k, v in d.items()] for d in res]}


def cases(ctx):
    rng = ctx.rng
    out = []
    for _ in range(1200 if ctx.tier == 'quick' else 15000):
        c = _pc_case(rng); ctx.count('parse_cases_style', c['style']); out.append(c)
    return out + _sweep_cases(ctx)


def _sweep_cases(ctx):
    rng = ctx.rng
    out = []
    # boundary: a single case; cases sharing coordinates; full box requested; every kind with one missing slot
    for kind in KINDS:
        for nca, nc in [(1, 1), (2, 2), (2, 3), (3, 2)]:
            c = _case(rng, n_case_args=nca, n_cases=nc)
            _set_kind(c, kind, rng); k = sweeps.n_outputs(kind)
            c.pop('xr_form', None)
            if 'ds' in kind:
                c['strategy'] = {'name': 'seq'}
                c['xr_form'] = rng.choice([True, True, 'dict'] + (['dataarray', 'dataarray'] if len(kind['ds']) == 1 else []))
            c['split'] = bool(k) and rng.random() < 0.5
            out.append(c)
    # every non-float array kind as a numpy array, nested (so that un-requested slots exist), through combo_runner
    for kind in KINDS_ARR:
        for nca, nc in [(2, 2), (2, 3)]:
            c = _case(rng, n_case_args=nca, n_cases=nc)
            _set_kind(c, kind, rng); c['np'] = True
            c.pop('xr_form', None)
            c['via'] = 'combo_runner'; c['flat'] = False; c['spelling'] = 'dict'
            c['split'] = bool(sweeps.n_outputs(kind)) and rng.random() < 0.5
            if c['strategy']['name'] not in ('seq', 'shuffle_true', 'shuffle_int'): c['strategy'] = {'name': 'seq'}
            out.append(c)
    for i in range(700 if ctx.tier == 'quick' else 6000):
        out.append(_case(rng, heavy_ok=(i % 6 == 0)))
    # overlap stream
    for _ in range(30 if ctx.tier == 'quick' else 200):
        c = _case(rng, n_case_args=(1, 3), n_combo_args=(1, 2))
        c['overlap'] = True; c['via'] = 'combo_runner'; c['flat'] = False; c['spelling'] = 'dict'
        # ... through every entry point that takes cases and combos together (the labelled ones skip the parse stage of the core)
        c['via'] = rng.choice(['combo_runner', 'case_runner', 'runner_combos', 'runner_cases', 'to_ds', 'case_to_ds', 'to_df'])
        out.append(c)
    if ctx.tier == 'thorough':
        # all non-empty case subsets of a 3x3 and a 2x2x2 coordinate box
        for shape in [(3, 3), (2, 2, 2)]:
            box = list(itertools.product(*(range(k) for k in shape)))
            for mask in range(1, 2 ** len(box)):
                rows = [list(b) for i, b in enumerate(box) if mask >> i & 1]
                c = _case(rng, n_case_args=len(shape), n_cases=1, n_combo_args=0)
                sw = c['sweep']
                for j, a in enumerate(sw['case_args']):
                    used = sorted({r[j] for r in rows})
                    sw['values'][a] = sweeps.gen_values(rng, len(used))
                sw['rows'] = [[sorted({r[j] for r in rows}).index(row[j]) for j in range(len(shape))] for row in rows]
                rng.shuffle(sw['rows'])
                out.append(c)
    for c in out:
        ctx.count('kind', next(iter(c['kind']))); ctx.count('via', c['via']); ctx.count('strategy', c['strategy']['name'])
        ctx.count('n_case_args', len(c['sweep']['case_args'])); ctx.count('n_cases', len(c['sweep']['rows']))
        ctx.count('missing_slots', n_box(c['sweep']) - len(c['sweep']['rows']) > 0)
        kd = c['kind']; kk = next(iter(kd))
        if has_array(kd):
            comps = [kd['arr']] if kk == 'arr' else [x for x in kd['tuple'] if x[0]]
            for sh, lf in comps:
                ctx.count('array_result', f"{'ndarray' if c.get('np') else 'list'}/{lf}/{len(sh)}d/"
                                          f"{'flat' if c['flat'] else 'some slot missing' if n_box(c['sweep']) > len(c['sweep']['rows']) else 'full box'}")
    return out


search_cases = cases


def setup(ctx):
    ctx.logfile = os.path.join(common.scratch_root(), 'calllog.jsonl')
    os.environ[fns.LOG_ENV] = ctx.logfile


def teardown(ctx):
    sweeps.shutdown_executors()


def _rec(c):
    sw, kind = c['sweep'], c['kind']
    if 'ds' in kind:
        return sweeps.make_rec(sw, kind, as_xr=c.get('xr_form') or True, dims={n: ['i%d' % d for d in range(len(sh))] for n, sh, _ in kind['ds']})
    if c.get('np'): return sweeps.make_rec(sw, kind, as_np=True)
    return sweeps.make_rec(sw, kind)


def run_real(c, ctx):
    if c.get('kind') == 'parsecases': return _pc_run(c)
    import xyzpy as xyz
    sw = c['sweep']
    f = _rec(c)
    kw, seed, adv = sweeps.strategy_opts(c['strategy'])
    combos = sweeps.py_combos(sw, 'dict')
    cases_ = sweeps.py_cases(sw, c['spelling'])
    if c.get('overlap'):
        a = sw['case_args'][0]
        combos = dict(combos or {}); combos[a] = list(sw['values'][a])
    fns.reset_log()
    try:
        if c.get('overlap') and c['via'] in ('runner_combos', 'runner_cases', 'to_ds', 'case_to_ds', 'to_df'):
            # the request must be refused before anything runs, so the output description does not matter
            ct = sweeps.py_cases(sw, 'tuple')
            if c['via'] == 'runner_combos':
                res = xyz.Runner(f, var_names=['x']).run_combos(combos, cases=cases_, constants=sw['consts'] or None, verbosity=0)
            elif c['via'] == 'runner_cases':
                # Runner.run_cases hands `combos` on unparsed (parse=False; DESIGN §9): give it the parsed form, as everywhere else
                #   (a dict was only "understood" while every argument name was a single letter)
                pc = tuple((a, list(v)) for a, v in (combos.items() if isinstance(combos, dict) else combos))
                res = xyz.Runner(f, var_names=['x'], fn_args=sw['case_args']).run_cases(ct, combos=pc, constants=sw['consts'] or None, verbosity=0)
            elif c['via'] == 'to_ds':
                res = xyz.combo_runner_to_ds(f, combos, var_names=['x'], cases=cases_, constants=sw['consts'] or None, verbosity=0)
            elif c['via'] == 'to_df':
                res = xyz.combo_runner_to_df(f, combos, var_names=['x'], cases=cases_, constants=sw['consts'] or None, verbosity=0)
            else:
                res = xyz.case_runner_to_ds(f, sw['case_args'], ct, var_names=['x'], combos=combos, constants=sw['consts'] or None, verbosity=0)
            res = None
        elif c['via'] == 'combo_runner':
            res = xyz.combo_runner(f, combos, cases=cases_, constants=sw['consts'] or None,
                                   split=c['split'], flat=c['flat'], verbosity=0, **kw)
        else:
            res = xyz.case_runner(f, sw['case_args'], cases_, combos=combos, constants=sw['consts'] or None,
                                  split=c['split'], verbosity=0, **kw)
    except Exception as e:
        return {'err': type(e).__name__, 'msg': str(e)[:200], 'log': sweeps.canon_log(fns.read_log(), sw)}
    return {'out': sweeps.canon_result(res) if res is not None else None, 'log': sweeps.canon_log(fns.read_log(), sw),
            'perm_seed': seed, 'adv_order': list(adv.order) if adv else None}


def model_request(c, obs):
    if c.get('kind') == 'parsecases':
        return {'op': 'parsecases', 'fn_args': c['fn_args'], 'sp': c['sp']}
    sw = c['sweep']
    rq = {'op': 'core', 'kind': sweeps.model_kind(c['kind']), 'flat': c['flat'],
          'split': sweeps.n_outputs(c['kind']) if c['split'] else 0}
    rq.update(sweeps.sweep_request(sw))
    if c.get('overlap'):
        a = sw['case_args'][0]
        rq['comboArgs'] = rq['comboArgs'] + [a]; rq['comboVals'] = rq['comboVals'] + [list(range(len(sw['values'][a])))]
    n = sweeps.n_settings(sw)
    st = {}
    if obs.get('perm_seed'): st['shuffled'] = common.perm(obs['perm_seed'], n)
    if obs.get('adv_order') is not None: st['executor'] = obs['adv_order']
    rq['strategy'] = st
    return rq


def compare(c, obs, rep):
    if c.get('kind') == 'parsecases':
        a = obs.get('err') or obs.get('cases'); b = rep.get('err') or rep.get('cases')
        return None if a == b else f'parse_cases: real {json.dumps(a)} model {json.dumps(b)}'
    if 'err' in obs or 'err' in rep:
        if ('err' in obs) != ('err' in rep):
            return f'error mismatch: real {obs.get("err")} {obs.get("msg")} model {rep.get("err")}'
        if obs['log']: return 'calls were made although the request was rejected'
        return None
    sw = c['sweep']
    exp = sweeps.expected(rep['out'], c['kind'], sweeps.sizes(sw))
    if obs['out'] != exp:
        return f'returned value differs from the model: real {json.dumps(obs["out"])[:300]} model {json.dumps(exp)[:300]}'
    consts = sorted((k, repr(v)) for k, v in sw['consts'].items())
    mlog = [[loc, consts] for loc in rep['log']]
    if sorted(obs['log']) != sorted(mlog): return 'call log (as a multiset) differs'
    if obs['adv_order'] is not None or c['strategy']['name'] in ('seq', 'shuffle_true', 'shuffle_int'):
        if obs['log'] != mlog: return 'call log (in execution order) differs'
    return None


def _placeholder(kind, j=None):
    """the property's own statement of the all-missing placeholder"""
    k = next(iter(kind)); v = kind[k]

    def fill(sh, x): return x if not sh else [fill(sh[1:], x) for _ in range(sh[0])]
    if k == 'scalar': return None if v in ('bool', 'str') else 'nan'
    if k == 'arr': return fill(v[0], 'nan')
    if k == 'tuple':
        if j is None: return [fill(sh, 'nan') for sh, _ in v]
        sh, lf = v[j]
        return fill(sh, 'nan') if sh else (None if lf in ('bool', 'str') else 'nan')
    if k == 'ds': return {n: fill(sh, 'nan') for n, sh, _ in v}


def oracle(c, obs):
    if 'harness_exc' in obs: return None
    if c.get('kind') == 'parsecases':
        if c['expect'] is None: return None
        if 'err' in obs: return f'accepted spelling of the cases rejected: {obs["err"]} {obs.get("msg", "")}'
        if obs['cases'] != c['expect']: return f'cases normalised to {json.dumps(obs["cases"])}, meant {json.dumps(c["expect"])}'
        return None
    sw, kind = c['sweep'], c['kind']
    if c.get('overlap'):
        if 'err' not in obs: return 'an argument in both cases and combos was not rejected'
        if obs['log']: return 'the function was called before the overlapping request was rejected'
        return None
    if 'err' in obs: return f'raised {obs["err"]}: {obs.get("msg")}'
    fa = sweeps.fn_args(sw); sz = sweeps.sizes(sw)
    nca = len(sw['case_args'])
    combo_orders = [sw['combo_order'][a] for a in sw['combo_args']]
    requested = [tuple(r) + p for r in sw['rows'] for p in itertools.product(*combo_orders)]
    consts = sorted((k, repr(v)) for k, v in sw['consts'].items())
    if sorted(obs['log']) != sorted([list(r), consts] for r in requested):
        return f'the function was not called exactly once per requested setting ({len(obs["log"])} calls, {len(requested)} requested)'
    k = sweeps.n_outputs(kind)
    rows = {tuple(r) for r in sw['rows']}

    def val(loc, j=None):
        v = fns.render(kind, fns.code_of_ranks(list(loc), sz))
        return canon(v if j is None else v[j])
    if c['flat']:
        exp = [[val(r, j) for r in requested] for j in range(k)] if c['split'] else [val(r) for r in requested]
    else:
        axes = [list(range(len(sw['values'][a]))) for a in sw['case_args']] + combo_orders

        def nested(j, prefix=()):
            if len(prefix) == len(axes):
                return val(prefix, j) if tuple(prefix[:nca]) in rows else _placeholder(kind, j)
            return [nested(j, prefix + (r,)) for r in axes[len(prefix)]]
        exp = [nested(j) for j in range(k)] if c['split'] else nested(None)
    if obs['out'] != exp:
        return 'a requested slot does not hold its own result, or a non-requested slot is not the all-missing placeholder'
    return None
