"""C03 — labelled outputs name every number correctly (Dataset and DataFrame)."""
import os, json, itertools
import common, fns, sweeps, labelled
from common import canon

PROP = 'C03'
LEAN_MODULES = ['XyzProofs.Props.C03', 'XyzProofs.Props.C03VarDims', 'XyzProofs.Refine.Forwarding', 'XyzProofs.Props.C03Df']
THEOREMS = ['ToDs.c03_dims_coords', 'ToDs.c03_sel', 'ToDs.c03_constants_resources_attrs', 'ToDs.c03_df_rows',
            'Core.processNested_get', 'VarDims.applyItems_spec', 'VarDims.c03_vd_dict', 'VarDims.c03_vd_unknown_rejected',
            'VarDims.c03_vd_single_keys', 'VarDims.c03_vd_order_irrelevant', 'VarDims.c03_vd_group_dict', 'VarDims.c03_vd_corr',
            'VarDims.c03_vd_str', 'VarDims.c03_vd_str_needs_single', 'VarDims.c03_vd_empty', 'VarDims.c03_vd_auto',
            # argument forwarding of the labelled entry points, on the records translated from the source (anchors_flow)
            'Forwarding.runner_init_stores', 'Forwarding.run_combos_forwards', 'Forwarding.run_cases_forwards',
            'Forwarding.run_cases_fn_args', 'Forwarding.run_combos_constants', 'Forwarding.run_cases_constants',
            'Forwarding.per_run_wins', 'Forwarding.run_keeps_descriptions', 'Forwarding.run_twice_constants',
            'Forwarding.label_forwards', 'Forwarding.harvest_forwards', 'Forwarding.gen_cases_flow',
            'Forwarding.sample_combos_flow', 'Forwarding.samplerCombos_value', 'Forwarding.keys_update',
            'Forwarding.combo_to_ds_forwards', 'Forwarding.combo_to_ds_parses', 'Forwarding.case_to_ds_forwards',
            'Forwarding.chain_run_combos', 'Forwarding.chain_run_cases',
            # the DataFrame labelling on the translated loop of results_to_df and the translated run + info slice
            'DfRefine.dfRows_refines', 'DfRefine.c03_df_rows_src', 'DfRefine.coreRunInfo_plain', 'DfRefine.coreRunInfo_shuffled',
            'DfRefine.coreRunInfo_perm', 'DfRefine.toDf_src', 'DfRefine.toDf_refines', 'DfRefine.casesZip_refines',
            'DfRefine.casesZip_get']
ANCHORS = ['varDimsElemCorr', 'varDimsQuantAny', 'varDimsStrRefused',
           'flowRunnerInit', 'flowRunCombos', 'flowRunCases', 'flowLabel', 'flowHarvestCombos', 'flowHarvestCases', 'flowGenCases',
           'flowSampleCombos', 'flowComboToDs', 'flowCaseToDs', 'dfRows', 'coreRunInfo', 'casesZip']
RULE = ("grids (1-3 args x 1-4 values) and case sets (+ optional sub-grid), 1-3 output variables with scalar / 1-d / 2-d "
        "array outputs whose internal dimensions come from var_coords or from a constant, constants that are / are not "
        "dimensions, resources, attrs, every spelling of var_names / var_dims, functions returning a Dataset with "
        "var_names=None, through combo_runner_to_ds, case_runner_to_ds, *_to_df, Runner.run_combos / run_cases, "
        "label(...) and Sampler.sample_combos (draws replaying the case rows), per-run constants that override stored "
        "ones (also coordinates of an internal dimension) / repeat them / add names, the call log must show the "
        "constants in force, with shuffle and thread/adversarial executors; the canonical Dataset (dims, coords, per-variable dims "
        "and data, attrs) or DataFrame rows are compared with the Lean model, and ds.sel at EVERY labelled point is "
        "checked by the oracle; plus a stream of explicit var_dims spellings (dict in any order, grouped / overlapping / "
        "unknown keys, list in correspondence, list of pairs incl. repeated keys, mixed lists, bare string, empty forms, "
        "var_names=None) where parse_var_dims itself is compared with the Lean parser and, for spellings generated from a "
        "meaning, with that meaning; non-trivial = >= 2 settings and (>= 2 outputs or an internal dimension or cases or "
        "shuffle); distinct by full case")
TRUSTED = ["xarray Dataset construction / concat (modelled, sampled)", "values of constants / attributes / coordinates are opaque to the model (checked by the oracle)"]

ENTRIES_DS = ['combo_runner_to_ds', 'case_runner_to_ds', 'runner', 'label']
ENTRIES_DF = ['combo_runner_to_df', 'case_runner_to_df', 'runner_df', 'sampler']
STORED = ('runner', 'runner_df', 'label', 'sampler')       # entry points with constants stored in an object + per-run ones
ALT = {'t': [5.5, 6.5, 7.5], 'w': [30, 40]}                 # other coordinates for an internal dimension given as a constant


def gen_override(rng, desc, force=False):
    """per-run constants for a Runner-like object: other values for stored constants (also ones that are the coordinates
    of an internal dimension), the same value again, and names the object does not store"""
    ov = {}
    for name, v in desc['constants'].items():
        r = rng.random()
        if r < 0.6 or force:
            ov[name] = list(ALT[name]) if name in ALT else rng.choice([x for x in (3, 'cc', 2.5, 11, 'dd') if x != v])
        elif r < 0.7:
            ov[name] = list(v) if isinstance(v, list) else v
    if rng.random() < 0.3: ov['k1'] = rng.choice([4, 'ee', 1.25])
    return ov


def eff_desc(c):
    """the description in force for the observed run: per-run constants take precedence over stored ones"""
    d = c['desc']
    if not c.get('override'): return d
    import copy
    e = copy.deepcopy(d)
    e['constants'] = {**d['constants'], **copy.deepcopy(c['override'])}
    return e


def nontrivial(c):
    if c.get('kind') == 'vardims':
        return c['names'] is not None and len(c['names']) >= 2 and c['sp']['k'] in ('list', 'dict')
    return sweeps.n_settings(c['sweep']) >= 2 and (len(c['desc']['names']) >= 2 or any(c['desc']['dims'])
                                                   or c['sweep']['rows'] is not None or c['strategy'].get('shuffle') or c['strategy']['name'] != 'seq')


def _case(rng, to_df=None, auto=None, cases=None, shuffle=None, entry=None, override=None):
    if entry == 'sampler': to_df, cases = True, True
    to_df = rng.random() < 0.3 if to_df is None else to_df
    auto = (not to_df and rng.random() < 0.2) if auto is None else auto
    cases = rng.random() < 0.4 if cases is None else cases
    if entry is None and to_df and cases and rng.random() < 0.25: entry = 'sampler'
    if entry == 'sampler':      # a Sampler draws whole settings: no sub-grid
        sw = sweeps.gen_sweep(rng, n_case_args=(1, 3), n_cases=(1, 6), n_combo_args=0, max_settings=60)
    elif cases:
        sw = sweeps.gen_sweep(rng, n_case_args=(1, 3), n_cases=(1, 6), n_combo_args=(0, 1), n_vals=(1, 3), max_settings=60)
    else:
        sw = sweeps.gen_sweep(rng, n_combo_args=(1, 3), n_vals=(1, 4), max_settings=60)
    sw['consts'] = {}
    desc = labelled.gen_desc(rng, auto=auto, to_df=to_df)
    st = sweeps.gen_strategy(rng, heavy_ok=False)
    if shuffle: st = {'name': 'shuffle_int', 'shuffle': shuffle}
    if auto and st['name'] not in ('seq', 'shuffle_int', 'shuffle_true'): st = {'name': 'seq'}
    if entry is not None:
        pass
    elif cases:
        entry = rng.choice(['case_runner_to_df', 'runner_df', 'combo_runner_to_df'] if to_df else ['case_runner_to_ds', 'runner', 'label', 'combo_runner_to_ds'])
    else:
        entry = rng.choice(['combo_runner_to_df', 'runner_df'] if to_df else ['combo_runner_to_ds', 'runner', 'label'])
    c = {'sweep': sw, 'desc': desc, 'strategy': st, 'to_df': to_df, 'entry': entry, 'spell': rng.randrange(10 ** 6),
         'reuse': entry in STORED and rng.random() < 0.3}
    if entry in STORED and (override or (override is None and rng.random() < 0.4)):
        # constants given for this run only: they win over the stored ones, in the call and in what is recorded
        if not desc['constants'] and (override or rng.random() < 0.7): desc['constants']['k0'] = rng.choice([3, 'cc', 2.5])
        c['override'] = gen_override(rng, desc, force=bool(override))
    if c['reuse'] and desc['constants'] and rng.random() < 0.5:
        c['pre_override'] = gen_override(rng, desc, force=True)     # the earlier run overrode stored constants: must not linger
    return c


# ----------------------------------------------------------------------------- spellings of var_dims (parse_var_dims)

def _atom(d, rng):
    """dimensions `d` (list of str) spelled as an atom: a bare str when there is exactly one (sometimes), else a tuple"""
    return d[0] if len(d) == 1 and rng.random() < 0.5 else list(d)


def _vd_case(rng):
    names = rng.sample(['x', 'y', 'z', 'w'], rng.randint(1, 4))
    if rng.random() < 0.05: names.append(names[0])
    pool = ['t', 'u', 'v'] + ([names[0]] if rng.random() < 0.25 else [])       # a dimension named like an output
    meaning = {n: ([] if rng.random() < 0.3 else rng.sample(pool, rng.randint(1, min(3, len(pool))))) for n in names}
    style = rng.choice(['dict', 'dict_groups', 'corr', 'pairs', 'str', 'empty', 'none_names', 'bad_key', 'bad_len',
                        'overlap', 'dup_pairs', 'mixed', 'bad_pair'])
    expect = None
    uniq = list(dict.fromkeys(names))
    if style == 'dict':
        ks = [n for n in uniq if meaning[n] or rng.random() < 0.4]
        rng.shuffle(ks)
        sp = {'k': 'dict', 'items': [[n, _atom(meaning[n], rng) if meaning[n] else []] for n in ks]}
        expect = [[n, meaning[n]] for n in uniq]
    elif style == 'dict_groups':
        groups = {}
        for n in uniq: groups.setdefault(tuple(meaning[n]), []).append(n)
        items = [[(ns if len(ns) > 1 or rng.random() < 0.3 else ns[0]), _atom(list(d), rng) if d else []] for d, ns in groups.items()]
        rng.shuffle(items)
        sp = {'k': 'dict', 'items': items}
        expect = [[n, meaning[n]] for n in uniq]
    elif style == 'overlap':        # later entries win where keys overlap
        a, b = rng.sample(pool, 1), rng.sample(pool, 1)
        grp = rng.sample(uniq, rng.randint(1, len(uniq)))
        one = rng.choice(uniq)
        items = [[grp, a[0]], [one, b]] if rng.random() < 0.5 else [[one, b], [grp, a[0]]]
        sp = {'k': 'dict', 'items': items}
    elif style == 'corr':
        sp = {'k': 'list', 'elems': [(_atom(meaning[n], rng) if meaning[n] else []) for n in names]}
        # in one-to-one correspondence iff some element is a str, empty, or does not start with an output name
        if len(set(names)) == len(names) and any(isinstance(e, str) or not e or e[0] not in names for e in sp['elems']):
            expect = [[n, meaning[n]] for n in uniq]
    elif style == 'pairs':
        ks = [n for n in uniq if meaning[n] or rng.random() < 0.4] or uniq[:1]
        rng.shuffle(ks)
        sp = {'k': 'list', 'elems': [[n, _atom(meaning[n], rng) if meaning[n] else []] for n in ks]}
        expect = [[n, meaning[n] if n in ks else []] for n in uniq]
    elif style == 'dup_pairs':
        ks = [rng.choice(uniq) for _ in range(rng.randint(2, 4))]
        sp = {'k': 'list', 'elems': [[n, _atom(rng.sample(pool, rng.randint(1, 2)), rng)] for n in ks]}
    elif style == 'mixed':
        sp = {'k': 'list', 'elems': [rng.choice([[rng.choice(uniq), rng.choice(pool)], rng.choice(pool), [], [rng.choice(pool), rng.choice(pool)]])
                                     for _ in range(rng.choice([len(names), len(names), rng.randint(1, 4)]))]}
    elif style == 'bad_pair':
        sp = {'k': 'list', 'elems': [[rng.choice(uniq)] + rng.sample(pool, rng.choice([0, 2])) for _ in range(rng.randint(1, 3))]}
    elif style == 'str':
        d = rng.choice(pool)
        sp = {'k': 'str', 'd': d}
        if len(names) == 1: expect = [[names[0], [d]]]
    elif style == 'empty':
        sp = rng.choice([{'k': 'none'}, {'k': 'dict', 'items': []}, {'k': 'list', 'elems': []}, {'k': 'str', 'd': ''}])
        expect = [[n, []] for n in uniq]
    elif style == 'none_names':
        names = None
        sp = rng.choice([{'k': 'none'}, {'k': 'none'}, {'k': 'dict', 'items': []}, {'k': 'str', 'd': 't'}, {'k': 'dict', 'items': [['x', 't']]}])
        if sp['k'] == 'none': expect = []
    elif style == 'bad_key':
        ks = list(uniq); rng.shuffle(ks)
        items = [[n, _atom(meaning[n] or ['t'], rng)] for n in ks]
        bad = rng.choice(['q', ['q', uniq[0]], [uniq[0], 'q']])
        items.insert(rng.randint(0, len(items)), [bad, 't'])
        sp = {'k': 'dict', 'items': items}
    else:   # bad_len
        sp = {'k': 'list', 'elems': [rng.choice(pool) for _ in range(len(names) + rng.choice([-1, 1, 2]))]}
        if not sp['elems']: sp['elems'] = ['t', 'u'] if len(names) == 1 else ['t']
        if len(sp['elems']) == len(names): sp['elems'].append('t')
    return {'kind': 'vardims', 'names': names, 'sp': sp, 'style': style, 'expect': expect, 'seq_type': rng.choice(['list', 'tuple'])}


def _vd_py(c):
    def atom(a): return a if isinstance(a, str) else tuple(a)
    def elem(e): return e if isinstance(e, str) else tuple(atom(a) for a in e)
    sp = c['sp']
    if sp['k'] == 'none': return None
    if sp['k'] == 'str': return sp['d']
    if sp['k'] == 'dict': return {atom(k): atom(v) for k, v in sp['items']}
    seq = [elem(e) for e in sp['elems']]
    return seq if c['seq_type'] == 'list' else tuple(seq)


def _vd_run(c):
    from xyzpy.gen.prepare import parse_var_dims, parse_var_names
    names = None if c['names'] is None else parse_var_names(tuple(c['names']))
    try:
        res = parse_var_dims(_vd_py(c), names)
    except ValueError:
        return {'err': 'ValueError'}
    except Exception as ex:
        return {'err': type(ex).__name__, 'msg': str(ex)[:200]}
    return {'map': [[k, [d if isinstance(d, str) else list(d) for d in v]] for k, v in res.items()],
            'types_ok': all(isinstance(v, tuple) for v in res.values())}


def cases(ctx):
    rng = ctx.rng
    out = []
    for _ in range(1500 if ctx.tier == 'quick' else 20000):
        c = _vd_case(rng)
        ctx.count('var_dims_style', c['style'])
        out.append(c)
    return out + _ds_cases(ctx)


def _ds_cases(ctx):
    rng = ctx.rng
    out = []
    # boundary: to_df x every shuffle seed on small grids; constants naming / not naming dims; single str-like output
    for seed in range(1, 13 if ctx.tier == 'quick' else 51):
        out.append(_case(rng, to_df=True, cases=False, shuffle=seed))
        out.append(_case(rng, to_df=True, cases=True, shuffle=seed))
    for _ in range(20):
        out.append(_case(rng, to_df=False, auto=True))
    # the labelled entry points with the process-pool options (parallel=True / parallel=n / num_workers=n)
    for name in ('parallel_true', 'num_workers', 'parallel_int') * (2 if ctx.tier == 'quick' else 10):
        for to_df in (False, True):
            c = _case(rng, to_df=to_df, auto=False)
            c['strategy'] = {'name': name, **({'shuffle': rng.randint(1, 50)} if rng.random() < 0.5 else {})}
            if c['entry'] in ('runner', 'runner_df', 'label'): c['reuse'] = False
            out.append(c)
    # per-run constants overriding stored ones: every Runner-like entry point x run_combos / run_cases x Dataset / DataFrame
    for _ in range(4 if ctx.tier == 'quick' else 30):
        for entry, to_df in (('runner', False), ('label', False), ('runner_df', True)):
            for cs in (False, True):
                out.append(_case(rng, to_df=to_df, auto=False, cases=cs, entry=entry, override=True))
        out.append(_case(rng, entry='sampler', auto=False, override=True))
        out.append(_case(rng, to_df=False, auto=True, cases=rng.random() < 0.5, entry='runner', override=True))
    for i in range(800 if ctx.tier == 'quick' else 9000):
        out.append(_case(rng))
    for c in out:
        ov = c.get('override')
        if ov is not None:
            st = c['desc']['constants']
            ctx.count('per_run_constants', 'other value for a stored constant' if any(k in st and st[k] != v for k, v in ov.items())
                      else 'same value / new names only' if ov else 'empty dict')
            ctx.count('per_run_constants_via', f"{c['entry']}/{'run_cases' if c['sweep']['rows'] is not None else 'run_combos'}")
            if any(k in ALT for k in ov): ctx.count('per_run_constants_dim', 'internal dimension coordinate overridden')
        else:
            ctx.count('per_run_constants', 'none given')
        ctx.count('entry', c['entry']); ctx.count('n_out', len(c['desc']['names'])); ctx.count('auto', c['desc']['auto'])
        ctx.count('internal_dims', sum(1 for d in c['desc']['dims'] if d)); ctx.count('cases', c['sweep']['rows'] is not None)
        ctx.count('strategy', c['strategy']['name']); ctx.count('runner_reused', bool(c.get('reuse')))
    return out


search_cases = cases


def setup(ctx):
    ctx.logfile = os.path.join(common.scratch_root(), 'calllog.jsonl')
    os.environ[fns.LOG_ENV] = ctx.logfile


def teardown(ctx):
    sweeps.shutdown_executors()


class _Replay:
    """a 'random' choice for one argument of a Sampler that hands out a prepared column (callables are accepted as
    distributions): the drawn settings are then the case rows of the description"""

    def __init__(self, column):
        self.it = iter(column)

    def __call__(self):
        return next(self.it)


def run_real(c, ctx):
    if c.get('kind') == 'vardims': return _vd_run(c)
    import random
    import xyzpy as xyz
    sw, desc = c['sweep'], c['desc']
    rng = random.Random(c['spell'])
    f = labelled.make_fn(sw, desc)
    kw, seed, adv = sweeps.strategy_opts(c['strategy'])
    var_names = labelled.spell_var_names(desc, rng)
    var_dims = labelled.spell_var_dims(desc, rng)
    import copy
    own = copy.deepcopy      # the library gets its own copies: what it does to them must not leak into the expectation
    common_kw = dict(var_names=var_names, var_dims=var_dims, var_coords=own(desc['var_coords']) or None,
                     constants=own(desc['constants']) or None, resources=own(desc['resources']) or None,
                     attrs=own(desc['attrs']) or None)
    combos = sweeps.py_combos(sw, rng.choice(['dict', 'pairs']))
    cases_d = sweeps.py_cases(sw, rng.choice(['dict', 'dict_anyorder']))     # each dict may list its keys in its own order
    cases_t = sweeps.py_cases(sw, 'tuple')
    e = c['entry']
    ov = c.get('override')
    per_run = {} if ov is None else {'constants': own(ov)}
    fns.reset_log()
    try:
        if e in ('combo_runner_to_ds', 'combo_runner_to_df'):
            fn = xyz.combo_runner_to_df if c['to_df'] else xyz.combo_runner_to_ds
            res = fn(f, combos, cases=cases_d, verbosity=0, **common_kw, **kw)
        elif e in ('case_runner_to_ds', 'case_runner_to_df'):
            fn = xyz.case_runner_to_df if c['to_df'] else xyz.case_runner_to_ds
            spelling = rng.choice(['dict', 'tuple'])
            # one case argument may be named by the bare string (also a name longer than one character)
            fa = sw['case_args'][0] if len(sw['case_args']) == 1 and rng.random() < 0.6 else sw['case_args']
            res = fn(f, fa, cases_t if spelling == 'tuple' else cases_d, combos=combos, verbosity=0, **common_kw, **kw)
        else:
            # the runner's own list of argument names, in an order of its own: the names given with a call (run_cases'
            # fn_args, the key order of a Sampler's combos) need not be a prefix of it
            own_args = list(sweeps.fn_args(sw)); rng.shuffle(own_args)
            if e == 'label':
                r = xyz.label(fn_args=own_args, **common_kw)(f)
            else:
                r = xyz.Runner(f, fn_args=own_args, **common_kw)
            extra = {'to_df': True} if c['to_df'] else {}
            if c.get('reuse'):
                # the same Runner ran before with a per-run constant: it must not linger
                if sw['rows'] is not None:
                    pc0 = tuple((a, list(v)) for a, v in (combos.items() if isinstance(combos, dict) else combos)) if combos else ()
                    r.run_cases(cases_t, fn_args=sw['case_args'], combos=pc0, constants={'zz_once': 1, **own(c.get('pre_override') or {})}, verbosity=0, **extra)
                else:
                    r.run_combos(combos, constants={'zz_once': 1, **own(c.get('pre_override') or {})}, verbosity=0, **extra)
                fns.reset_log()
            if e == 'sampler':
                # a Sampler on the runner: the draws replay the case rows (first arguments through default_combos)
                cols = {a: [row[j] for row in cases_t] for j, a in enumerate(sw['case_args'])}
                h = rng.randint(0, len(sw['case_args']))
                dflt = rng.sample(sw['case_args'], h)                  # any subset through default_combos, in any order
                rest = [a for a in sw['case_args'] if a not in dflt]; rng.shuffle(rest)
                smp = xyz.Sampler(r, default_combos={a: _Replay(cols[a]) for a in dflt})
                res = smp.sample_combos(len(cases_t), {a: _Replay(cols[a]) for a in rest}, verbosity=0, **per_run, **kw)
                if smp.last_df is not res: return {'err': 'last_df', 'msg': 'Sampler.last_df is not the returned table'}
                if labelled.canon_df(smp.full_df) != labelled.canon_df(res): return {'err': 'full_df', 'msg': 'Sampler.full_df differs from the first table added'}
            elif sw['rows'] is not None:
                # Runner.run_cases forwards `combos` unparsed (parse=False): give it the parsed form
                pc = tuple((a, list(v)) for a, v in (combos.items() if isinstance(combos, dict) else combos)) if combos else ()
                res = r.run_cases(cases_d if rng.random() < 0.5 else cases_t, fn_args=sw['case_args'], combos=pc, verbosity=0, **extra, **per_run, **kw)
            else:
                res = r.run_combos(combos, verbosity=0, **extra, **per_run, **kw)
            if not c['to_df'] and r.last_ds is not res: return {'err': 'last_ds', 'msg': 'Runner.last_ds is not the returned dataset'}
    except Exception as ex:
        return {'err': type(ex).__name__, 'msg': str(ex)[:300]}
    if not c['to_df']:
        import xarray as xr
        if isinstance(res, xr.DataArray):       # a function returning one named DataArray gives one: read it as a Dataset
            da = res; res = da.to_dataset(); res.attrs = dict(da.attrs)
    eff = eff_desc(c)
    log = fns.read_log()
    if not log: raise RuntimeError('the call log of the observed run is empty')
    calls = labelled.oracle_calls(log, sw, eff)
    if c['to_df']:
        return {'df': labelled.canon_df(res), 'perm_seed': seed, 'adv_order': list(adv.order) if adv else None,
                'oracle': labelled.oracle_df(labelled.canon_df(res), sw, eff, sweeps.n_settings(sw)) or calls}
    return {'ds': labelled.canon_ds(res), 'perm_seed': seed, 'adv_order': list(adv.order) if adv else None,
            'oracle': labelled.oracle_ds(res, sw, eff) or calls}


def model_request(c, obs):
    if c.get('kind') == 'vardims':
        return {'op': 'vardims', 'names': c['names'], 'sp': c['sp']}
    sw = c['sweep']
    rq = {'op': 'tods', 'kind': sweeps.model_kind(labelled.kind_of(c['desc'])), 'desc': labelled.model_desc(eff_desc(c)),
          'to_df': c['to_df']}
    rq.update(sweeps.sweep_request(sw))
    st = {}
    if obs.get('perm_seed'): st['shuffled'] = common.perm(obs['perm_seed'], sweeps.n_settings(sw))
    if obs.get('adv_order') is not None: st['executor'] = obs['adv_order']
    rq['strategy'] = st
    return rq


def compare(c, obs, rep):
    if c.get('kind') == 'vardims':
        a = obs.get('err') or obs.get('map'); b = rep.get('err') or rep.get('map')
        return None if a == b else f'parse_var_dims: real {json.dumps(a)} model {json.dumps(b)}'
    if 'err' in obs or 'err' in rep:
        return None if ('err' in obs) == ('err' in rep) else f'error mismatch: real {obs.get("err")} {obs.get("msg")} model {rep.get("err")}'
    if c['to_df']:
        exp = labelled.expected_df(rep, c['sweep'], eff_desc(c))
        return None if obs['df'] == exp else f'rows differ: real {json.dumps(obs["df"])[:300]} model {json.dumps(exp)[:300]}'
    return labelled.diff_ds(obs['ds'], labelled.expected_ds(rep, c['sweep'], eff_desc(c)))


def oracle(c, obs):
    if 'harness_exc' in obs: return None
    if c.get('kind') == 'vardims':
        # the property's side: a spelling generated from a meaning is accepted and normalised to exactly that meaning
        if c['expect'] is None: return None
        if 'err' in obs: return f'accepted spelling of var_dims rejected: {obs["err"]} {obs.get("msg", "")}'
        if obs['map'] != c['expect']: return f'var_dims spelling normalised to {json.dumps(obs["map"])}, meant {json.dumps(c["expect"])}'
        if not obs['types_ok']: return 'normalised dimensions are not tuples'
        return None
    if 'err' in obs: return f'raised {obs["err"]}: {obs.get("msg")}'
    return obs['oracle']
