"""C03 — labelled outputs name every number correctly (Dataset and DataFrame)."""
import os, json, itertools
import common, fns, sweeps, labelled
from common import canon

PROP = 'C03'
LEAN_MODULES = ['XyzProofs.Props.C03']
THEOREMS = ['ToDs.c03_dims_coords', 'ToDs.c03_sel', 'ToDs.c03_constants_resources_attrs', 'ToDs.c03_df_rows',
            'Core.processNested_get']
ANCHORS = []
RULE = ("grids (1-3 args x 1-4 values) and case sets (+ optional sub-grid), 1-3 output variables with scalar / 1-d / 2-d "
        "array outputs whose internal dimensions come from var_coords or from a constant, constants that are / are not "
        "dimensions, resources, attrs, every spelling of var_names / var_dims, functions returning a Dataset with "
        "var_names=None, through combo_runner_to_ds, case_runner_to_ds, *_to_df, Runner.run_combos / run_cases and "
        "label(...), with shuffle and thread/adversarial executors; the canonical Dataset (dims, coords, per-variable dims "
        "and data, attrs) or DataFrame rows are compared with the Lean model, and ds.sel at EVERY labelled point is "
        "checked by the oracle; non-trivial = >= 2 settings and (>= 2 outputs or an internal dimension or cases or "
        "shuffle); distinct by full case")
TRUSTED = ["xarray Dataset construction / concat (modelled, sampled)", "values of constants / attributes / coordinates are opaque to the model (checked by the oracle)"]

ENTRIES_DS = ['combo_runner_to_ds', 'case_runner_to_ds', 'runner', 'label']
ENTRIES_DF = ['combo_runner_to_df', 'case_runner_to_df', 'runner_df']


def nontrivial(c):
    return sweeps.n_settings(c['sweep']) >= 2 and (len(c['desc']['names']) >= 2 or any(c['desc']['dims'])
                                                   or c['sweep']['rows'] is not None or c['strategy'].get('shuffle') or c['strategy']['name'] != 'seq')


def _case(rng, to_df=None, auto=None, cases=None, shuffle=None):
    to_df = rng.random() < 0.3 if to_df is None else to_df
    auto = (not to_df and rng.random() < 0.2) if auto is None else auto
    cases = rng.random() < 0.4 if cases is None else cases
    if cases:
        sw = sweeps.gen_sweep(rng, n_case_args=(1, 3), n_cases=(1, 6), n_combo_args=(0, 1), n_vals=(1, 3), max_settings=60)
    else:
        sw = sweeps.gen_sweep(rng, n_combo_args=(1, 3), n_vals=(1, 4), max_settings=60)
    sw['consts'] = {}
    desc = labelled.gen_desc(rng, auto=auto, to_df=to_df)
    st = sweeps.gen_strategy(rng, heavy_ok=False)
    if shuffle: st = {'name': 'shuffle_int', 'shuffle': shuffle}
    if auto and st['name'] not in ('seq', 'shuffle_int', 'shuffle_true'): st = {'name': 'seq'}
    if cases:
        entry = rng.choice(['case_runner_to_df', 'runner_df', 'combo_runner_to_df'] if to_df else ['case_runner_to_ds', 'runner', 'label', 'combo_runner_to_ds'])
    else:
        entry = rng.choice(['combo_runner_to_df', 'runner_df'] if to_df else ['combo_runner_to_ds', 'runner', 'label'])
    if entry.startswith('case_runner') and sw['combo_args']:
        pass
    return {'sweep': sw, 'desc': desc, 'strategy': st, 'to_df': to_df, 'entry': entry, 'spell': rng.randrange(10 ** 6),
            'reuse': entry in ('runner', 'runner_df', 'label') and rng.random() < 0.3}


def cases(ctx):
    rng = ctx.rng
    out = []
    # boundary: to_df x every shuffle seed on small grids; constants naming / not naming dims; single str-like output
    for seed in range(1, 13 if ctx.tier == 'quick' else 51):
        out.append(_case(rng, to_df=True, cases=False, shuffle=seed))
        out.append(_case(rng, to_df=True, cases=True, shuffle=seed))
    for _ in range(20):
        out.append(_case(rng, to_df=False, auto=True))
    for i in range(800 if ctx.tier == 'quick' else 9000):
        out.append(_case(rng))
    for c in out:
        ctx.count('entry', c['entry']); ctx.count('n_out', len(c['desc']['names'])); ctx.count('auto', c['desc']['auto'])
        ctx.count('internal_dims', sum(1 for d in c['desc']['dims'] if d)); ctx.count('cases', c['sweep']['rows'] is not None)
        ctx.count('strategy', c['strategy']['name']); ctx.count('runner_reused', bool(c.get('reuse')))
    return out


search_cases = cases


def teardown(ctx):
    sweeps.shutdown_executors()


def run_real(c, ctx):
    import random
    import xyzpy as xyz
    sw, desc = c['sweep'], c['desc']
    rng = random.Random(c['spell'])
    f = labelled.make_fn(sw, desc)
    kw, seed, adv = sweeps.strategy_opts(c['strategy'])
    var_names = labelled.spell_var_names(desc, rng)
    var_dims = labelled.spell_var_dims(desc, rng)
    common_kw = dict(var_names=var_names, var_dims=var_dims, var_coords=desc['var_coords'] or None,
                     constants=desc['constants'] or None, resources=desc['resources'] or None, attrs=desc['attrs'] or None)
    combos = sweeps.py_combos(sw, rng.choice(['dict', 'pairs']))
    cases_d = sweeps.py_cases(sw, 'dict')
    cases_t = sweeps.py_cases(sw, 'tuple')
    e = c['entry']
    try:
        if e in ('combo_runner_to_ds', 'combo_runner_to_df'):
            fn = xyz.combo_runner_to_df if c['to_df'] else xyz.combo_runner_to_ds
            res = fn(f, combos, cases=cases_d, verbosity=0, **common_kw, **kw)
        elif e in ('case_runner_to_ds', 'case_runner_to_df'):
            fn = xyz.case_runner_to_df if c['to_df'] else xyz.case_runner_to_ds
            spelling = rng.choice(['dict', 'tuple'])
            res = fn(f, sw['case_args'], cases_t if spelling == 'tuple' else cases_d, combos=combos, verbosity=0, **common_kw, **kw)
        else:
            if e == 'label':
                r = xyz.label(fn_args=sweeps.fn_args(sw), **common_kw)(f)
            else:
                r = xyz.Runner(f, fn_args=sweeps.fn_args(sw), **common_kw)
            extra = {'to_df': True} if c['to_df'] else {}
            if c.get('reuse'):
                # the same Runner ran before with a per-run constant: it must not linger
                if sw['rows'] is not None:
                    pc0 = tuple((a, list(v)) for a, v in (combos.items() if isinstance(combos, dict) else combos)) if combos else ()
                    r.run_cases(cases_t, fn_args=sw['case_args'], combos=pc0, constants={'zz_once': 1}, verbosity=0, **extra)
                else:
                    r.run_combos(combos, constants={'zz_once': 1}, verbosity=0, **extra)
            if sw['rows'] is not None:
                # Runner.run_cases forwards `combos` unparsed (parse=False): give it the parsed form
                pc = tuple((a, list(v)) for a, v in (combos.items() if isinstance(combos, dict) else combos)) if combos else ()
                res = r.run_cases(cases_d if rng.random() < 0.5 else cases_t, fn_args=sw['case_args'], combos=pc, verbosity=0, **extra, **kw)
            else:
                res = r.run_combos(combos, verbosity=0, **extra, **kw)
            if not c['to_df'] and r.last_ds is not res: return {'err': 'last_ds', 'msg': 'Runner.last_ds is not the returned dataset'}
    except Exception as ex:
        return {'err': type(ex).__name__, 'msg': str(ex)[:300]}
    if c['to_df']:
        return {'df': labelled.canon_df(res), 'perm_seed': seed, 'adv_order': list(adv.order) if adv else None,
                'oracle': labelled.oracle_df(labelled.canon_df(res), sw, desc, sweeps.n_settings(sw))}
    return {'ds': labelled.canon_ds(res), 'perm_seed': seed, 'adv_order': list(adv.order) if adv else None,
            'oracle': labelled.oracle_ds(res, sw, desc)}


def model_request(c, obs):
    sw = c['sweep']
    rq = {'op': 'tods', 'kind': sweeps.model_kind(labelled.kind_of(c['desc'])), 'desc': labelled.model_desc(c['desc']),
          'to_df': c['to_df']}
    rq.update(sweeps.sweep_request(sw))
    st = {}
    if obs.get('perm_seed'): st['shuffled'] = common.perm(obs['perm_seed'], sweeps.n_settings(sw))
    if obs.get('adv_order') is not None: st['executor'] = obs['adv_order']
    rq['strategy'] = st
    return rq


def compare(c, obs, rep):
    if 'err' in obs or 'err' in rep:
        return None if ('err' in obs) == ('err' in rep) else f'error mismatch: real {obs.get("err")} {obs.get("msg")} model {rep.get("err")}'
    if c['to_df']:
        exp = labelled.expected_df(rep, c['sweep'], c['desc'])
        return None if obs['df'] == exp else f'rows differ: real {json.dumps(obs["df"])[:300]} model {json.dumps(exp)[:300]}'
    return labelled.diff_ds(obs['ds'], labelled.expected_ds(rep, c['sweep'], c['desc']))


def oracle(c, obs):
    if 'harness_exc' in obs: return None
    if 'err' in obs: return f'raised {obs["err"]}: {obs.get("msg")}'
    return obs['oracle']
