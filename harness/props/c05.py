"""C05 — the harvested dataset is the faithful merge of everything ever harvested."""
import os, copy, itertools, json
import common, dsutil
from common import quiet

PROP = 'C05'
LEAN_MODULES = ['XyzProofs.Props.C05', 'XyzProofs.Refine.Reap', 'XyzProofs.Refine.Harvest', 'XyzProofs.Refine.StoreIO']
THEOREMS = ['Harvest.c05_step', 'Harvest.c05_step_first', 'Harvest.c05_mem_eq_disk', 'Harvest.c05_never_dropped',
            'Harvest.c05_name_consistent', 'Harvest.c05_unsynced_block', 'Harvest.c05_expand_relabels',
            'Harvest.c05_drop_sel_only_dropped', 'Harvest.c05_unsynced_then_synced_counterexample',
            'Harvest.c05_save_merge_step',
            'Refine.autoAddExt_refines',
            'Harvest.hvLoadFull_refines', 'Harvest.hvSaveFull_refines', 'Harvest.hvAddDs_eq_spec', 'Harvest.hvAddDs_refines',
            'Harvest.hvSaveFull_error_keeps_mem', 'Harvest.hvAddDs_merge_error_no_write',
            # save_merge_ds, delete_ds, full_ds, expand_dims / drop_sel, the harvest tails as translated (Refine/StoreIO.lean)
            'Harvest.saveMergeDs_eq_spec', 'Harvest.saveMergeDs_refines', 'Harvest.saveMergeDs_default_engine',
            'Harvest.hvDeleteDs_refines', 'Harvest.hvDeleteDs_dispatch', 'Harvest.hvDeleteDs_backup', 'Harvest.hvFullDs_refines', 'Harvest.hvFullDs_mem',
            'Harvest.hvExpandDims_eq_spec', 'Harvest.hvDropSel_eq_spec', 'Harvest.rewriteSpec_refines',
            'Harvest.hvExpandDims_refines', 'Harvest.hvDropSel_refines', 'Harvest.hvDropSel_error_no_write',
            'Harvest.hvHarvest_eq_addDs', 'Harvest.hvHarvestCombos_ellipsis', 'Harvest.hvHarvest_chunks',
            'Harvest.hvHarvest_refines']
ANCHORS = ['engineExt', 'extRuleSubstring', 'extAppendCount', 'saveDsExtends', 'loadDsExtends',
           'loadFullAccessExtended', 'loadFullIsfileExtended', 'saveFullExistsExtended', 'saveFullRemoveExtended',
           'deleteRemoveExtended', 'saveMergeExistsExtended', 'saveMergeLoadsWithEngine',
           'addDsTrue', 'addDsFalse', 'addDsNone', 'saveMergeTrue', 'saveMergeFalse', 'saveMergeNone',
           'autoAddExt', 'hvLoadFull', 'hvSaveFull', 'hvAddDs',
           'saveMergeDs', 'hvDeleteDs', 'hvFullDs', 'hvExpandDims', 'hvDropSel', 'hvHarvestCombos', 'hvHarvestCases',
           'hvHarvestCombosChunks', 'hvHarvestCasesChunks']
RULE = ("a case is a history of 1-8 operations on one data file: harvest_combos / harvest_cases / add_ds (Dataset or "
        "DataArray) over sub-grids and case lists of a 4x3 coordinate box (plus a third dimension after expand_dims), "
        "values from two versions of the function (conflicts) with NaN cells, int or float results, one or two "
        "variables, overwrite in {None, True, False}, sync on/off (+ save_full_ds), save_merge_ds, expand_dims, "
        "drop_sel, engine joblib (3/4) or h5netcdf (1/4), data names with and without extension, and a new Harvester "
        "object at any step (older objects keep being used for synced harvests). Operations that use the in-memory "
        "dataset without reloading (sync=False, save_full_ds, expand_dims, drop_sel) are issued only on an object "
        "whose memory is current; the sync=False-then-sync=True pattern (known finding F1) is generated in a "
        "separate small stream. After every step full_ds, load_ds(name) and the directory listing are compared with "
        "the Lean model and with an independent fold of the overwrite policies. Non-trivial = at least two "
        "data-changing steps that overlap or come from different Harvester objects; distinct by full history")
TRUSTED = ["xarray merge / combine_first / outer join and the engines' encoders are modelled on finite maps and sampled, "
           "not verified", "the dataset a Runner produces for a grid / case list (C02, C03) is restated by the harness"]
ASSUMPTIONS = ["an unsynced harvest is saved (save_full_ds) before the next synced load of that Harvester (excluded "
               "otherwise: known finding F1)",
               "sync=False / save_full_ds / expand_dims / drop_sel are used on a Harvester whose memory is current"]
PARTIAL = {
    'c05_never_dropped': "proved for all histories of new Harvester objects (any name spelling resolving to the data "
                         "path), synced harvests by any object (stale or not) with any policy, and save_merge_ds; "
                         "expand_dims / drop_sel / unsynced blocks are covered per step (c05_expand_relabels, "
                         "c05_drop_sel_only_dropped, c05_unsynced_block), not inside the induction",
}

A, B, C0 = [1, 2, 3, 4], [1, 2, 3], 5
BSTR = ['s', 'vv', 'y']          # string labels of different lengths for dimension b (rank 1, 2, 3), when case['bstr']
BRANK = {'b': {x: i + 1 for i, x in enumerate(BSTR)}}
POL = {'none': None, 'overwrite': True, 'keep': False}


# ----------------------------------------------------------------------------------------------- data of one step

def tok(var, a, b, c, ver):
    return ver * 1000 + a * 10 + b + (100 * (c - C0) if c is not None else 0) + (500000 if var == 'y' else 0)


def points(op):
    """the (a, b, c) locations a step runs (c = None before expand_dims); a case list has one c value"""
    cs = op.get('c') or [None]
    if 'cases' in op:
        return [(a, b, cs[0]) for (a, b) in map(tuple, op['cases'])]
    return [(a, b, c) for a in op['a'] for b in op['b'] for c in cs]


def expected_new(op):
    """the dataset a Runner yields for this step, in canonical token form (restated, not taken from the real run)"""
    pts = points(op)
    has_c = op.get('c') is not None
    dims = ['a', 'b'] + (['c'] if has_c else [])
    coords = [['a', sorted({p[0] for p in pts})], ['b', sorted({p[1] for p in pts})]]
    if has_c: coords.append(['c', sorted({p[2] for p in pts})])
    nulls = {tuple(x) for x in op.get('null', [])}
    vs = []
    for var in sorted(op['vars']):
        cells = []
        for (a, b, c) in pts:
            if (a, b) in nulls: continue
            cells.append([a, b] + ([c] if has_c else []) + [tok(var, a, b, c, op['ver'])])
        vs.append([var, dims, sorted(cells)])
    return {'coords': coords, 'vars': vs, 'attrs': []}


class Fn:
    def __init__(self, op):
        self.op = op
        self.nulls = {tuple(x) for x in op.get('null', [])}

    def __call__(self, a, b, c=None):
        if isinstance(b, str): b = BSTR.index(b) + 1
        out = []
        for var in self.op['vars']:
            if (a, b) in self.nulls:
                out.append(float('nan'))
            else:
                t = tok(var, a, b, c, self.op['ver'])
                out.append(int(t) if self.op.get('ints') else float(t))
        return out[0] if len(out) == 1 else tuple(out)


def _f2(fn):
    def f(a, b): return fn(a, b)
    return f


def _f3(fn):
    def f(a, b, c): return fn(a, b, c)
    return f


def make_runner(op):
    import xyzpy as xyz
    fn = Fn(op)
    has_c = op.get('c') is not None
    return xyz.Runner(_f3(fn) if has_c else _f2(fn), var_names=list(op['vars']),
                      fn_args=['a', 'b', 'c'] if has_c else ['a', 'b'])


def run_data(runner, op, bstr=False):
    """combos or cases for the real API (dimension b labelled by strings of different lengths when bstr)"""
    has_c = op.get('c') is not None
    lb = (lambda b: BSTR[b - 1]) if bstr else (lambda b: b)
    if 'cases' in op:
        if has_c:
            cases = [dict(a=a, b=lb(b), c=c) for (a, b, c) in points(op)]
        else:
            cases = [dict(a=a, b=lb(b)) for (a, b) in map(tuple, op['cases'])]
        if op.get('tuples'):
            cases = [tuple(cs[k] for k in runner.fn_args) for cs in cases]
        return 'cases', cases
    combos = {'a': list(op['a']), 'b': [lb(b) for b in op['b']]}
    if has_c: combos['c'] = list(op['c'])
    return 'combos', combos


# ----------------------------------------------------------------------------------------------- the policy fold

def t_empty(): return None


def t_of_canon(cn):
    return {'coords': {d: set(v) for d, v in cn['coords']},
            'vars': {n: {tuple(r[:-1]): r[-1] for r in cells} for n, _, cells in cn['vars']}}


def t_canon(t):
    if t is None: return None
    dims = sorted(t['coords'])
    return {'coords': [[d, sorted(t['coords'][d])] for d in dims],
            'vars': [[n, dims, sorted(list(p) + [v] for p, v in sorted(t['vars'][n].items()))] for n in sorted(t['vars'])],
            'attrs': []}


def t_fold(t, N, policy):
    """(new truth, conflict?) — the property's reading of the three policies"""
    if t is None:
        return copy.deepcopy(N), False
    if policy == 'none':
        for n, cells in N['vars'].items():
            for p, v in cells.items():
                if n in t['vars'] and p in t['vars'][n] and t['vars'][n][p] != v:
                    return t, True
    r = copy.deepcopy(t)
    for d, cs in N['coords'].items():
        r['coords'].setdefault(d, set()).update(cs)
    for n, cells in N['vars'].items():
        tgt = r['vars'].setdefault(n, {})
        for p, v in cells.items():
            if policy == 'keep' and p in tgt: continue
            tgt[p] = v
    return r, False


def t_expand(t, dim, value):
    dims = sorted(t['coords'])
    k = sorted(dims + [dim]).index(dim)
    r = {'coords': {**{d: set(v) for d, v in t['coords'].items()}, dim: {value}}, 'vars': {}}
    for n, cells in t['vars'].items():
        r['vars'][n] = {p[:k] + (value,) + p[k:]: v for p, v in cells.items()}
    return r


def t_drop(t, dim, values):
    dims = sorted(t['coords'])
    k = dims.index(dim)
    r = {'coords': {d: set(v) - (set(values) if d == dim else set()) for d, v in t['coords'].items()}, 'vars': {}}
    for n, cells in t['vars'].items():
        r['vars'][n] = {p: v for p, v in cells.items() if p[k] not in values}
    return r


class Spec:
    """expected state under the property: what the file should hold, what each Harvester object should hold"""

    def __init__(self):
        self.disk = None
        self.mem = []          # per session: expected memory or None (nothing loaded yet)
        self.pending = []      # per session: has unsaved unsynced data
        self.ver = []          # per session: disk version its memory corresponds to
        self.disk_ver = 0
        self.names = []

    def current(self, sid):
        """would an operation that does not reload see the data the file holds?"""
        if self.mem[sid] is None:
            return True if self.disk is None else None        # None: lazily loads (full_ds) but add_ds(sync=False) does not
        return self.pending[sid] or self.ver[sid] == self.disk_ver

    def apply(self, op):
        """returns dict(expect_err, mem, disk, checks) for the acting object after the step; updates the state"""
        k = op['op']
        if k == 'new':
            self.mem.append(None); self.pending.append(False); self.ver.append(-1); self.names.append(op['name'])
            return None
        if k == 'save_merge':
            res, conflict = t_fold(self.disk, t_of_canon(expected_new(op)), op['policy'])
            if not conflict:
                self.disk = res; self.disk_ver += 1
            return {'err': 'conflict' if conflict else None, 'mem': 'skip', 'disk': self.disk, 'saved': not conflict}
        sid = op['sid']
        if k == 'harvest':
            N = t_of_canon(expected_new(op))
            if op['sync']:
                base = self.mem[sid] if self.pending[sid] else (self.disk if self.disk is not None else self.mem[sid])
                res, conflict = t_fold(base, N, op['policy'])
                if conflict:
                    self.mem[sid] = base
                else:
                    self.mem[sid] = res; self.disk = res; self.disk_ver += 1
                self.pending[sid] = False; self.ver[sid] = self.disk_ver
                return {'err': 'conflict' if conflict else None, 'mem': self.mem[sid], 'disk': self.disk, 'saved': not conflict}
            base = self.mem[sid]
            res, conflict = t_fold(base, N, op['policy'])
            if not conflict:
                self.mem[sid] = res; self.pending[sid] = True
            return {'err': 'conflict' if conflict else None, 'mem': self.mem[sid], 'disk': self.disk, 'saved': False}
        # the remaining operations read full_ds (lazy load)
        if self.mem[sid] is None and self.disk is not None:
            self.mem[sid] = self.disk; self.ver[sid] = self.disk_ver
        base = self.mem[sid]
        if k == 'flush':
            if base is None: return {'err': 'skip', 'mem': 'skip', 'disk': 'skip', 'saved': False}
            self.disk = base; self.disk_ver += 1; self.ver[sid] = self.disk_ver; self.pending[sid] = False
            return {'err': None, 'mem': base, 'disk': self.disk, 'saved': True}
        if k == 'expand':
            if base is None or op['dim'] in base['coords']:
                return {'err': 'skip', 'mem': 'skip', 'disk': 'skip', 'saved': False}
            res = t_expand(base, op['dim'], op['value'])
        elif k == 'drop':
            if base is None or op['dim'] not in base['coords'] or not set(op['values']) <= base['coords'][op['dim']]:
                return {'err': 'skip', 'mem': 'skip', 'disk': 'skip', 'saved': False}
            res = t_drop(base, op['dim'], op['values'])
        else:
            raise ValueError(k)
        self.mem[sid] = res; self.disk = res; self.disk_ver += 1; self.ver[sid] = self.disk_ver; self.pending[sid] = False
        return {'err': None, 'mem': res, 'disk': res, 'saved': True}


# ----------------------------------------------------------------------------------------------- generators

def _subgrid(rng, has_c):
    a = rng.sample(A, rng.randint(1, 3)); b = rng.sample(B, rng.randint(1, 2))
    if rng.random() < 0.7: a.sort(); b.sort()
    d = {'a': a, 'b': b}
    if has_c: d['c'] = rng.choice([[C0], [C0], [C0, C0 + 1], [C0 + 1]])
    return d


def _caselist(rng, has_c):
    box = list(itertools.product(A, B))
    cs = rng.sample(box, rng.randint(1, 5))
    d = {'cases': [list(x) for x in cs], 'tuples': rng.random() < 0.4}
    if has_c: d['c'] = [rng.choice([C0, C0 + 1])]
    return d


def _data(rng, has_c, two_vars):
    d = _subgrid(rng, has_c) if rng.random() < 0.6 else _caselist(rng, has_c)
    pts = {(a, b) for (a, b, _) in points({**d, 'vars': ['x']})}
    d['null'] = sorted([a, b] for (a, b) in pts if rng.random() < 0.15)
    d['ver'] = rng.choice([0, 0, 0, 1])
    d['ints'] = rng.random() < 0.3
    d['vars'] = ['x', 'y'] if (two_vars and rng.random() < 0.8) else ['x']
    d['policy'] = rng.choice(['none', 'none', 'overwrite', 'overwrite', 'keep'])
    return d


def gen_history(rng, engine=None, f1=False, length=None, name_mode=None):
    engine = engine or ('h5netcdf' if rng.random() < 0.25 else 'joblib')
    base = rng.choice(['h1', 'run_7', 'data'])
    name_mode = name_mode or rng.choice(['bare', 'ext', 'mixed'])

    def name():
        ext = {'bare': False, 'ext': True, 'mixed': rng.random() < 0.5}[name_mode]
        return base + (dsutil.EXT[engine] if ext else '')
    two_vars = rng.random() < 0.3
    ops = [{'op': 'new', 'name': name()}]
    sp = Spec(); sp.apply(ops[0])
    n = length or rng.randint(1, 8)
    done = 0
    f1_at = rng.randint(0, max(0, n - 2)) if f1 else None
    while done < n:
        nsess = len(sp.mem)
        pend = [i for i in range(nsess) if sp.pending[i]]
        has_c = sp.disk is not None and 'c' in sp.disk['coords']
        if pend:
            has_c = 'c' in sp.mem[pend[0]]['coords']
        r = rng.random()
        if not pend and r < 0.18:
            op = {'op': 'new', 'name': name()}
            ops.append(op); sp.apply(op)
            continue
        if pend:
            sid = pend[0]
        elif rng.random() < 0.8:
            sid = nsess - 1
        else:
            sid = rng.randrange(nsess)
        cur = sp.current(sid)
        r = rng.random()
        op = None
        if pend:
            if f1 and r < 0.6:
                op = {'op': 'harvest', 'sid': sid, 'via': 'combos', 'sync': True, **_data(rng, has_c, two_vars)}
            elif r < 0.45:
                op = {'op': 'flush', 'sid': sid}
            elif r < 0.6 and not f1:
                op = {'op': 'harvest', 'sid': sid, 'via': 'combos', 'sync': False, **_data(rng, has_c, two_vars)}
            elif r < 0.7 and not has_c:
                op = {'op': 'expand', 'sid': sid, 'dim': 'c', 'value': C0}
            elif not f1:
                op = {'op': 'flush', 'sid': sid}
            else:
                op = {'op': 'harvest', 'sid': sid, 'via': 'combos', 'sync': True, **_data(rng, has_c, two_vars)}
        elif r < 0.08:
            op = {'op': 'save_merge', 'name': name(), 'kw_engine': engine != 'h5netcdf' or rng.random() < 0.5,
                  **_data(rng, has_c, two_vars)}
        elif r < 0.14 and cur is not False and sp.disk is not None and not has_c:
            op = {'op': 'expand', 'sid': sid, 'dim': 'c', 'value': C0}
        elif r < 0.22 and cur is not False and sp.disk is not None:
            dim = rng.choice(sorted(sp.disk['coords']))
            have = sorted(sp.disk['coords'][dim])
            if have and not (dim == 'c'):
                op = {'op': 'drop', 'sid': sid, 'dim': dim, 'values': rng.sample(have, rng.randint(1, min(2, len(have))))}
        if op is None:
            via = rng.choice(['combos', 'combos', 'combos', 'add_ds', 'add_da'])
            d = _data(rng, has_c, two_vars)
            if 'cases' in d: via = rng.choice(['cases', 'cases', 'add_ds'])
            if via == 'add_da': d['vars'] = ['x']
            sync = True
            if cur is True and (rng.random() < 0.15 or (f1 and done == f1_at)):
                sync = False
            op = {'op': 'harvest', 'sid': sid, 'via': via, 'sync': sync, **d}
        ops.append(op); sp.apply(op); done += 1
    return {'engine': engine, 'ops': ops, 'bstr': rng.random() < 0.35}


def _h(engine, names, steps, bstr=False):
    """boundary helper: names = list of data-name spellings per new object; steps = list of (sid|'new', dict)"""
    ops = []
    it = iter(names)
    for s in steps:
        if s == 'new':
            ops.append({'op': 'new', 'name': next(it)})
        else:
            ops.append(s)
    return {'engine': engine, 'ops': ops, 'bstr': bstr}


def _hv(sid, a, b, policy='none', ver=0, sync=True, via='combos', **kw):
    return {'op': 'harvest', 'sid': sid, 'via': via, 'a': a, 'b': b, 'null': [], 'ver': ver, 'ints': False,
            'vars': ['x'], 'policy': policy, 'sync': sync, **kw}


def boundary():
    out = []
    # the engine given per call (not the Harvester's own) decides format AND file name, consistently over sessions
    for eng in ['joblib', 'h5netcdf']:
        for n in ['h1', 'h1' + dsutil.EXT[eng]]:
            h = _h(eng, [n, n], ['new', _hv(0, [1, 2], [1]), _hv(0, [2, 3], [2], via='add_ds'), 'new', _hv(1, [3], [1, 2], 'keep', via='cases')])
            h['call_engine'] = True
            out.append(h)
    for eng in ['joblib', 'h5netcdf']:
        e = dsutil.EXT[eng]
        for n1, n2 in [('h1', 'h1'), ('h1' + e, 'h1' + e), ('h1', 'h1' + e), ('h1' + e, 'h1')]:
            # first vs second session, disjoint data
            out.append(_h(eng, [n1, n2], ['new', _hv(0, [1, 2], [1]), 'new', _hv(1, [3], [1])]))
            # same session twice, then conflict, then the two overwrite policies
            out.append(_h(eng, [n1, n2], ['new', _hv(0, [1, 2], [1, 2]), _hv(0, [2, 3], [2], ver=1),
                                          _hv(0, [2, 3], [2], 'overwrite', ver=1), 'new', _hv(1, [1, 2, 3], [1, 2], 'keep')]))
            # save_merge_ds twice, then a Harvester on the same file
            out.append(_h(eng, [n2], [{'op': 'save_merge', 'name': n1, 'kw_engine': True, **{k: v for k, v in _hv(0, [1], [1, 2]).items() if k not in ('op', 'sid', 'sync', 'via')}},
                                      {'op': 'save_merge', 'name': n1, 'kw_engine': True, **{k: v for k, v in _hv(0, [2], [1, 2]).items() if k not in ('op', 'sid', 'sync', 'via')}},
                                      'new', _hv(0, [3], [3])]))
        # string labels of growing length along b (the loaded coordinate must not keep its old width)
        out.append(_h(eng, ['h' + e], ['new', _hv(0, [1], [3]), _hv(0, [1], [3, 1, 2], 'keep')], bstr=True))
        out.append(_h(eng, ['h', 'h'], ['new', _hv(0, [1, 2], [1]), 'new', _hv(1, [2], [2, 3]), _hv(1, [3], [2], 'overwrite')], bstr=True))
        # unsynced block saved explicitly; expand_dims and drop_sel
        out.append(_h(eng, ['h1', 'h1'], ['new', _hv(0, [1], [1]), _hv(0, [2], [1], sync=False), _hv(0, [3], [1], sync=False),
                                    {'op': 'flush', 'sid': 0}, 'new', _hv(1, [4], [1])]))
        out.append(_h(eng, ['h1', 'h1'], ['new', _hv(0, [1, 2], [1, 2]), {'op': 'expand', 'sid': 0, 'dim': 'c', 'value': C0},
                                          'new', _hv(1, [3], [1], c=[C0, C0 + 1]), {'op': 'drop', 'sid': 1, 'dim': 'a', 'values': [1]}]))
    return out


F1_WITNESS = _h('joblib', ['h1.dmp'], ['new', _hv(0, [1], [1]), _hv(0, [2], [1], sync=False), _hv(0, [3], [1])])


def exhaustive_small():
    """all histories of length ≤ 3 over a 2x2 box: 5 sub-grids x 3 policies per step, version 1 at the second step,
    a new Harvester object before the last step, bare data name"""
    grids = [([1], [1]), ([1, 2], [1]), ([2], [1, 2]), ([1, 2], [1, 2]), ([2], [2])]
    opts = [(g, p) for g in grids for p in ['none', 'overwrite', 'keep']]
    out = []
    for L in (1, 2, 3):
        for combo in itertools.product(opts, repeat=L):
            steps = ['new']; sid = 0
            for i, ((a, b), p) in enumerate(combo):
                if i == L - 1 and L > 1:
                    steps.append('new'); sid += 1
                steps.append(_hv(sid, a, b, p, ver=1 if i == 1 else 0))
            out.append(_h('joblib', ['h1', 'h1'], steps))
    return out


def cases(ctx):
    rng = ctx.rng
    out = boundary()
    nrand, nf1 = (400, 12) if ctx.tier == 'quick' else (5000, 100)
    for _ in range(nrand):
        out.append(gen_history(rng))
    for _ in range(nf1):
        out.append(gen_history(rng, engine='joblib', f1=True, length=rng.randint(3, 6)))
    if ctx.tier == 'thorough':
        out += exhaustive_small()
    for c in out:
        ctx.count('engine', c['engine']); ctx.count('b_labels', 'str' if c.get('bstr') else 'int')
        ctx.count('length', sum(1 for o in c['ops'] if o['op'] != 'new'))
        ctx.count('sessions', sum(1 for o in c['ops'] if o['op'] == 'new'))
        names = {o['name'] for o in c['ops'] if 'name' in o}
        ctx.count('names', 'mixed' if len(names) > 1 else ('ext' if '.' in next(iter(names)) else 'bare'))
        for o in c['ops']:
            if o['op'] == 'harvest':
                ctx.count('op', o['via'] + ('' if o['sync'] else '/nosync')); ctx.count('policy', o['policy'])
            elif o['op'] != 'new':
                ctx.count('op', o['op'])
    return out


def search_cases(ctx):
    rng = ctx.rng
    out = boundary()
    for _ in range(600):
        out.append(gen_history(rng, engine='joblib', length=rng.randint(1, 4)))
    return out


def nontrivial(c):
    data_ops = [o for o in c['ops'] if o['op'] in ('harvest', 'save_merge')]
    if len(data_ops) < 2: return False
    if sum(1 for o in c['ops'] if o['op'] == 'new') > 1: return True
    seen = set()
    for o in data_ops:
        pts = {(a, b) for (a, b, _) in points(o)}
        if pts & seen: return True
        seen |= pts
    return False


def shrink_candidates(c):
    ops = c['ops']
    for i in range(len(ops) - 1, 0, -1):
        if ops[i]['op'] == 'new':
            # removable only if no later op refers to it or a later session
            sid = sum(1 for o in ops[:i] if o['op'] == 'new')
            if any(o.get('sid', -1) >= sid for o in ops[i + 1:]): continue
        yield {**c, 'ops': ops[:i] + ops[i + 1:]}


# ----------------------------------------------------------------------------------------------- the real run

def run_real(c, ctx):
    import xyzpy as xyz, xarray as xr
    d = common.fresh_dir('c05')
    eng = c['engine']
    bstr = bool(c.get('bstr'))
    rank = BRANK if bstr else None
    sessions, obs = [], []

    def canon(ds): return dsutil.canon_tok_ds(ds, coord_rank=rank)

    def disk(name):
        try:
            return canon(xyz.load_ds(os.path.join(d, name), engine=eng))
        except FileNotFoundError:
            return None
        except Exception as e:
            return 'ERR'
    try:
        for op in c['ops']:
            k = op['op']
            if k == 'new':
                r = xyz.Runner(lambda a, b: 0.0, var_names='x')
                # with `call_engine` the object's own engine is the OTHER one and every call names `eng` explicitly
                own = eng if not c.get('call_engine') else ('h5netcdf' if eng == 'joblib' else 'joblib')
                sessions.append(xyz.Harvester(r, data_name=os.path.join(d, op['name']), engine=own))
                obs.append({'ls': dsutil.listing(d)})
                continue
            err, extra = None, {}
            try:
                with quiet():
                    if k == 'save_merge':
                        runner = make_runner(op)
                        kind, data = run_data(runner, op, bstr)
                        ds = runner.run_combos(data, verbosity=0) if kind == 'combos' else runner.run_cases(data, verbosity=0)
                        kw = {'engine': eng} if op.get('kw_engine') or eng != 'h5netcdf' else {}
                        xyz.save_merge_ds(ds, os.path.join(d, op['name']), overwrite=POL[op['policy']], **kw)
                    else:
                        hv = sessions[op['sid']]
                        if k == 'harvest':
                            runner = make_runner(op)
                            hv.runner = runner
                            kind, data = run_data(runner, op, bstr)
                            kw = dict(sync=op['sync'], overwrite=POL[op['policy']])
                            if c.get('call_engine'): kw['engine'] = eng
                            if op['via'] in ('add_ds', 'add_da'):
                                ds = runner.run_combos(data, verbosity=0) if kind == 'combos' else runner.run_cases(data, verbosity=0)
                                extra['new'] = canon(ds)
                                hv.add_ds(ds['x'] if op['via'] == 'add_da' else ds, **kw)
                            else:
                                try:
                                    if kind == 'combos': hv.harvest_combos(data, verbosity=0, **kw)
                                    else: hv.harvest_cases(data, verbosity=0, **kw)
                                finally:
                                    if hv.last_ds is not None: extra['new'] = canon(hv.last_ds)
                        elif k == 'expand':
                            hv.expand_dims(op['dim'], op['value'])
                        elif k == 'drop':
                            vals = list(op['values'])
                            if bstr and op['dim'] == 'b': vals = [BSTR[v - 1] for v in vals]
                            hv.drop_sel({op['dim']: vals})
                        elif k == 'flush':
                            hv.save_full_ds()
                        else:
                            raise ValueError(k)
            except Exception as e:      # exceptions of the library are observations
                err = dsutil.err_enum(e)
            o = {'err': err, 'ls': dsutil.listing(d), **extra}
            if k == 'save_merge':
                o['disk'] = disk(op['name'])
            else:
                hv = sessions[op['sid']]
                try:
                    if c.get('call_engine') and hv._full_ds is None: hv.load_full_ds(engine=eng)
                    o['mem'] = canon(hv.full_ds)
                except Exception as e:
                    o['mem'] = 'ERR'
                o['disk'] = disk(os.path.basename(hv.data_name))
            obs.append(o)
        return {'obs': obs}
    finally:
        for hv in sessions:
            try:
                if hv._full_ds is not None: hv._full_ds.close()
            except Exception:
                pass
        common.rm(d)


# ----------------------------------------------------------------------------------------------- model

def model_request(c, obs):
    ops = []
    for op in c['ops']:
        k = op['op']
        if k == 'new': ops.append({'op': 'new', 'name': op['name']})
        elif k == 'harvest':
            ops.append({'op': 'harvest', 'sid': op['sid'], 'N': expected_new(op), 'policy': op['policy'], 'sync': op['sync']})
        elif k == 'save_merge':
            ops.append({'op': 'save_merge', 'name': op['name'], 'N': expected_new(op), 'policy': op['policy']})
        elif k == 'expand': ops.append({'op': 'expand', 'sid': op['sid'], 'dim': op['dim'], 'value': op['value']})
        elif k == 'drop': ops.append({'op': 'drop', 'sid': op['sid'], 'dim': op['dim'], 'values': op['values']})
        elif k == 'flush': ops.append({'op': 'flush', 'sid': op['sid']})
    return {'op': 'harvest', 'engine': c['engine'], 'ops': ops}


def compare(c, obs, rep):
    if 'obs' not in obs: return None
    for i, (op, o, m) in enumerate(zip(c['ops'], obs['obs'], rep['obs'])):
        for key in ('err', 'mem', 'disk', 'ls'):
            if key in o and key in m and o[key] != m[key]:
                return (f'step {i} ({op["op"]}): {key} differs: real {json.dumps(o[key])[:300]} '
                        f'model {json.dumps(m[key])[:300]}')
    return None


# ----------------------------------------------------------------------------------------------- oracle

def _oracle(c, obs):
    """(message, step index) of the first step at which the property fails on the real observation"""
    if 'harness_exc' in obs: return None, None
    sp = Spec()
    eng = c['engine']
    for i, (op, o) in enumerate(zip(c['ops'], obs['obs'])):
        was_pending = op.get('sid') is not None and op['sid'] < len(sp.pending) and sp.pending[op['sid']]
        exp = sp.apply(op)
        if exp is None: continue
        where = f'step {i} ({op["op"]}' + (f' via {op["via"]}, overwrite={POL[op["policy"]]}, sync={op["sync"]}' if op['op'] == 'harvest' else '') + ')'
        if op['op'] == 'harvest' and 'new' in o and o['new'] != expected_new(op):
            return f'{where}: the run itself did not produce the requested data', i
        if exp['err'] == 'skip': continue
        if exp['err'] == 'conflict':
            if o['err'] != 'conflict':
                return f'{where}: conflicting data did not raise a merge error (got {o["err"]})', i
        elif o['err'] is not None:
            return f'{where}: raised {o["err"]} although the data is identical or disjoint / a policy was given', i
        if exp['mem'] != 'skip' and o.get('mem') != t_canon(exp['mem']):
            what = 'changed although the step failed' if exp['err'] else 'is not the merge decided by the overwrite policy'
            return f'{where}: full_ds {what}: {_diff(o.get("mem"), t_canon(exp["mem"]))}', i
        if o.get('disk') != t_canon(exp['disk']):
            return f'{where}: the dataset on disk is not what was harvested so far: {_diff(o.get("disk"), t_canon(exp["disk"]))}', i
        if exp['saved'] and op['op'] != 'save_merge' and o.get('mem') != o.get('disk'):
            return f'{where}: memory and disk differ after a synced step', i
        name = op['name'] if op['op'] == 'save_merge' else sp.names[op['sid']]
        want = [] if sp.disk is None else [dsutil.documented_path(name, eng)]
        if o['ls'] != want:
            return f'{where}: files on disk {o["ls"]}, expected exactly {want}', i
    return None, None


def _diff(real, exp):
    if real is None or exp is None or isinstance(real, str): return f'real {json.dumps(real)[:120]} expected {json.dumps(exp)[:120]}'
    rv = {(n, tuple(r[:-1])): r[-1] for n, _, cells in real['vars'] for r in cells}
    ev = {(n, tuple(r[:-1])): r[-1] for n, _, cells in exp['vars'] for r in cells}
    lost = sorted(k for k in ev if k not in rv)
    changed = sorted(k for k in ev if k in rv and rv[k] != ev[k])
    extra = sorted(k for k in rv if k not in ev)
    return f'points lost {lost[:6]}, altered {changed[:6]}, unexpected {extra[:6]}, coords real {real["coords"]} expected {exp["coords"]}'


def oracle(c, obs):
    return _oracle(c, obs)[0]


def finding_key(c, obs):
    msg, i = _oracle(c, obs)
    if i is None:
        # model/implementation disagreement without oracle failure: no key
        return None
    # F1: the failing step is a synced harvest by an object holding unsaved sync=False data
    sp = Spec()
    for j, op in enumerate(c['ops']):
        if j == i:
            if op['op'] == 'harvest' and op['sync'] and sp.pending[op['sid']]:
                return 'F1-unsynced-then-synced'
            return None
        sp.apply(op)
    return None
