"""C19 — running statistics equal the statistics of the whole sample.

real:   xyzpy.utils.RunningStatistics / RunningCovariance / RunningCovarianceMatrix / estimate_from_repeats on floats
model:  Lean `Stats` on the exact rationals of the same floats (Welford bodies and loop guards extracted from the source)
oracle: exact `fractions.Fraction` statistics of the whole sample (two-pass definitions, nothing running), compared with
        the real floats under a tolerance relative to the data scale; the stopping rule re-evaluated exactly on every prefix.

Floating point is not reasoned about in Lean.  The gap between the floats and the exact values is the run-time-checked
tolerance below (u = 2^-52, n = number of samples, |x|max = largest magnitude fed, sd = exact standard deviation):

    mean       |mean - mean_e|        <= CM * n*u*|x|max
    var        |var - var_e|          <= CV * ( n*u*(|x|max*sd + var_e) + (n*u*|x|max)^2 )        =: tolV
    std        |std^2 - var_e|        <= tolV          (std^2 evaluated exactly from the reported float)
    err        |err^2 * n - var_e|    <= 2 * tolV
    covar      |cov - cov_e|          <= CC * ( n*u*(|x|max*sd_y + |y|max*sd_x + |cov_e|) + (n*u)^2*|x|max*|y|max )

Calibration on the unchanged tree (9000 streams: gaussian, uniform, two-point, outliers, ramps, sorted, steps, spikes;
n up to 500; offsets up to 1e9; spreads 1e-3..1e6): the largest observed ratio error/bound with CM = CV = CC = 1 was
0.25 (mean), 0.27 (var, std), 0.47 (err, against tolV), 0.25 (covar).  The constants below are 2 (and 2*tolV for err):
a margin of 8x, 7x, 8x and 8x.  A naive sum-of-squares variance (Σx² − (Σx)²/n), algebraically identical, misses the
bound by about nine orders of magnitude on the ill-conditioned streams of the boundary suite (offset 1e9, spread 1e-3).
"""
import math, random, itertools
from fractions import Fraction as F

PROP = 'C19'
LEAN_MODULES = ['XyzProofs.Props.C19', 'XyzProofs.Refine.Num', 'XyzProofs.Props.C19Src']
THEOREMS = ['Stats.c19_mean', 'Stats.c19_M2', 'Stats.c19_var', 'Stats.c19_cov', 'Stats.c19_covar', 'Stats.c19_cov_matrix',
            'Stats.c19_chunking', 'Stats.c19_permutation', 'Stats.c19_stop',
            # the hand-written models are the method bodies translated from the source (harness/anchors_numfn.py) ...
            'Stats.rsInit_refines', 'Stats.rsUpdate_refines', 'Stats.rsUpdateFromIt_refines', 'Stats.rsVar_refines',
            'Stats.rsVar_fresh', 'Stats.rsStd_sq', 'Stats.rsErr_sq', 'Stats.rsConverged_refines',
            'Stats.rcInit_refines', 'Stats.rcUpdate_refines', 'Stats.rcUpdateFromIt_refines', 'Stats.rcCovar_refines',
            'Stats.forCount_loop', 'Stats.estimateFromRepeats_loop', 'Stats.estimateFromRepeats_refines',
            'Stats.loop_fuel', 'Stats.estimateFromRepeats_refines_fuel',
            # ... and the property statements on the translated source
            'Stats.c19_src_var', 'Stats.c19_src_covar', 'Stats.c19_src_stop', 'Stats.c19_src_sample_count']
ANCHORS = ['welfordCount', 'welfordMean', 'welfordM2', 'statVar', 'convRhs', 'covCount', 'covXmean', 'covYmean', 'covC',
           'covCovar', 'covSample', 'repCheck', 'repRtol', 'repAtol', 'repHitMax',
           'rsInit', 'rsUpdate', 'rsUpdateFromIt', 'rsVar', 'rsStd', 'rsErr', 'rsRelErr', 'rsConverged',
           'rcInit', 'rcUpdate', 'rcUpdateFromIt', 'rcCovar', 'rcSampleCovar', 'estimateFromRepeats']
PARTIAL = {}
RULE = ("three kinds of cases. stats: a sequence of 1..500 finite floats (offset 0..±1e9, spread 1e-3..1e6; gaussian, uniform, "
        "two-point, outliers, ramp, sorted, step, spike, constant), shuffled by a seeded permutation and fed to a fresh "
        "RunningStatistics in seeded chunks (a chunk of one through update, longer ones through update_from_it). cov: 2-4 "
        "correlated series fed to RunningCovarianceMatrix (rows through update, column chunks through update_from_it) and, for "
        "two series, also to RunningCovariance. rep: estimate_from_repeats on a pre-drawn sample stream (constant, zero, "
        "alternating, decaying, gaussian noise) for (rtol, tol_scale, min_samples, max_samples >= 1) from a grid plus random "
        "values. Boundary suite first (n = 1, 2; constant streams; offset 1e9 with spread 1e-3 at n = 500; convergence exactly "
        "at min_samples + 1; max_samples = 1, 2; min_samples >= max_samples; rtol = 0). The real floats are compared with the "
        "Lean model's exact values and with independent exact Fraction statistics under the data-scale tolerance of the module "
        "docstring; the model's exact values must equal the whole-sample values exactly. non-trivial = at least 3 samples, not "
        "all equal (stats/cov) or a stream on which the loop runs at least 3 iterations (rep); distinct by full case description")
EXHAUSTIVE = {'quick': False, 'thorough': False}
TRUSTED = ["harness/pynum2lean.py + anchors_numfn.py: that the translated method bodies mean in Lean what the Python means over an abstract "
           "ordered field K (abs, `** 0.5` = sqrt and np.inf are parameters; the n-th call of fn returns f n; the progress-bar / print "
           "statements guarded by `verbosity` have no effect on the statistics; KeyboardInterrupt is not modelled)",
           "fractions.Fraction arithmetic and float.as_integer_ratio (exact)",
           "the tolerance formula and its calibration (module docstring): it bounds the float/exact gap, it is not proved"]
ASSUMPTIONS = ["floating point is not reasoned about in Lean: the theorems are exact-arithmetic identities; the float/exact gap is the "
               "run-time-checked, data-scale-relative tolerance stated in harness/props/c19.py",
               "estimate_from_repeats: max_samples >= 1 (with max_samples <= 0 the loop still draws one sample; domain restriction, "
               "hypothesis `hmax` of Stats.c19_stop)",
               "a convergence test whose exact margin |err - rhs| / rhs is below 1e-9 + tolV/var (the relative tolerance granted to the float "
               "variance) is treated as undetermined: either outcome is accepted there"]

U = 2.0 ** -52
CM, CV, CC = 2.0, 2.0, 2.0
AMBIG = 1e-9
_CTX = None


# ----------------------------------------------------------------------------- data

DISTS = ('gauss', 'uniform', 'two', 'outlier', 'ramp', 'sorted', 'rsorted', 'step', 'spike', 'const')
OFFS = (0.0, 1.0, -7.3, 1e3, 1e6, -1e6, 1e9, -1e9)
SPREADS = (1e-3, 1e-2, 1.0, 10.0, 1e3, 1e6)


def series(rng, n, off, sp, dist):
    if dist == 'gauss': return [off + sp * rng.gauss(0, 1) for _ in range(n)]
    if dist == 'uniform': return [off + sp * rng.uniform(-1, 1) for _ in range(n)]
    if dist == 'two': return [off + sp * rng.choice((-1, 1)) for _ in range(n)]
    if dist == 'outlier': return [off + sp * (rng.gauss(0, 1) if rng.random() < 0.95 else 1e3 * rng.gauss(0, 1)) for _ in range(n)]
    if dist == 'ramp': return [off + sp * i for i in range(n)]
    if dist == 'sorted': return sorted(off + sp * rng.gauss(0, 1) for _ in range(n))
    if dist == 'rsorted': return sorted((off + sp * rng.gauss(0, 1) for _ in range(n)), reverse=True)
    if dist == 'step': return [off + (sp if i >= n // 2 else -sp) for i in range(n)]
    if dist == 'spike': return [off] * (n - 1) + [off + sp * 1e3]
    return [off + sp] * n


def chunking(rng, n, style):
    """list of chunk sizes summing to n"""
    if style == 'single': return [1] * n
    if style == 'whole': return [n]
    if style == 'halves': return [n // 2, n - n // 2] if n > 1 else [n]
    out, left = [], n
    while left:
        s = min(left, rng.choice((1, 1, 2, 3, 7, 20, 100)))
        if rng.random() < 0.1: out.append(0)
        out.append(s); left -= s
    return out


def stats_data(c):
    """the floats of a stats case in feeding order, and the chunk sizes"""
    if 'xs' in c:
        xs = [float(x) for x in c['xs']]
        return xs, c.get('chunks') or [len(xs)]
    rng = random.Random(c['seed'])
    xs = series(rng, c['n'], c['off'], c['sp'], c['dist'])
    if c.get('perm') is not None:
        random.Random(c['perm']).shuffle(xs)
    return xs, chunking(random.Random(c['chseed']), len(xs), c['chunk'])


def cov_data(c):
    """k series (lists of floats) in feeding order and the feeding steps [('rows'|'cols', size), ...]"""
    if 'cols' in c:
        cols = [[float(v) for v in col] for col in c['cols']]
        n = len(cols[0])
        return cols, c.get('steps') or [['cols', n]]
    rng = random.Random(c['seed'])
    n, k = c['n'], c['k']
    base = series(rng, n, c['offs'][0], c['sps'][0], c['dists'][0])
    cols = [base]
    for j in range(1, k):
        own = series(rng, n, c['offs'][j], c['sps'][j], c['dists'][j])
        a = c['mix'][j]
        cols.append([a * b + o for b, o in zip(base, own)] if a else own)
    if c.get('perm') is not None:
        order = list(range(n)); random.Random(c['perm']).shuffle(order)
        cols = [[col[i] for i in order] for col in cols]
    sizes = chunking(random.Random(c['chseed']), n, c['chunk'])
    r2 = random.Random(c['chseed'] + 1)
    steps = [[('rows' if (s == 1 or r2.random() < 0.4) else 'cols'), s] for s in sizes]
    return cols, steps


def rep_stream(c):
    """the values fn returns, in order (as many as could ever be drawn)"""
    if 'samples' in c:
        return [float(v) for v in c['samples']]
    n = max(1, c['max'])
    rng = random.Random(c['seed'])
    g, a, b = c['gen'], c['a'], c['b']
    if g == 'const': return [a] * n
    if g == 'alt': return [a + (b if i % 2 else -b) for i in range(n)]
    if g == 'decay': return [a + b / (i + 1) ** 2 * (1 if i % 2 else -1) for i in range(n)]
    if g == 'noisy': return [rng.gauss(a, b) for _ in range(n)]
    if g == 'drift': return [a + b * i for i in range(n)]
    return [a] * n


# ----------------------------------------------------------------------------- cases

def boundary_suite():
    out = []
    # single values, pairs, constants
    for x in (0.0, 1.0, -2.5, 1e9, -1e9, 1e-3, 123456789.123):
        out.append({'kind': 'stats', 'xs': [x], 'chunks': [1], 'g': 'b-n1'})
        out.append({'kind': 'stats', 'xs': [x, x, x, x], 'chunks': [1, 3], 'g': 'b-const'})
    out.append({'kind': 'stats', 'xs': [1.1, 1.4, 1.2, 1.5, 1.3, 1.6], 'chunks': [1, 1, 1, 3], 'g': 'b-docstring'})
    out.append({'kind': 'stats', 'xs': [1.0, 2.0], 'chunks': [2], 'g': 'b-n2'})
    out.append({'kind': 'stats', 'xs': [1e9, 1e9 + 1e-3], 'chunks': [1, 1], 'g': 'b-n2'})
    # ill-conditioned: huge offset, tiny spread (where a sum-of-squares formula loses everything)
    for i, (off, sp, n, dist) in enumerate(((1e9, 1e-3, 500, 'gauss'), (-1e9, 1e-3, 500, 'uniform'), (1e9, 1e-2, 200, 'two'),
                                            (1e9, 1.0, 500, 'gauss'), (1e6, 1e-3, 100, 'gauss'), (1e9, 1e-3, 30, 'gauss'),
                                            (1e9, 1e-3, 500, 'sorted'), (1e9, 1e-3, 5, 'uniform'), (1e6, 1e-3, 500, 'outlier'))):
        for ch in ('whole', 'single', 'random'):
            out.append({'kind': 'stats', 'seed': 1000 + i, 'n': n, 'off': off, 'sp': sp, 'dist': dist, 'perm': 5 + i,
                        'chunk': ch, 'chseed': 77 + i, 'g': 'b-illcond'})
    # same multiset, different orders and chunkings
    for perm in (None, 1, 2, 3):
        for ch in ('whole', 'single', 'halves', 'random'):
            out.append({'kind': 'stats', 'seed': 4242, 'n': 60, 'off': 1e3, 'sp': 10.0, 'dist': 'outlier', 'perm': perm,
                        'chunk': ch, 'chseed': 9, 'g': 'b-orders'})
    # covariance: docstring example, perfectly (anti)correlated, ill-conditioned, n = 1, 2
    out.append({'kind': 'cov', 'cols': [[1.0, 3.0, 2.0], [2.0, 6.0, 4.0]], 'steps': [['cols', 3]], 'rc': True, 'g': 'b-docstring'})
    out.append({'kind': 'cov', 'cols': [[1.0, 3.0, 2.0], [-2.0, -6.0, -4.0]], 'steps': [['rows', 1], ['cols', 2]], 'rc': True, 'g': 'b-anti'})
    out.append({'kind': 'cov', 'cols': [[5.0], [7.0]], 'steps': [['rows', 1]], 'rc': True, 'g': 'b-n1'})
    out.append({'kind': 'cov', 'cols': [[5.0, 6.0], [7.0, 7.0], [1e9, 1e9 + 1]], 'steps': [['cols', 2]], 'rc': False, 'g': 'b-n2'})
    for i, (k, n) in enumerate(((2, 500), (3, 200), (4, 100), (2, 30), (4, 500))):
        for ch in ('whole', 'single', 'random'):
            out.append({'kind': 'cov', 'seed': 2000 + i, 'n': n, 'k': k, 'offs': [1e9, -1e9, 1e6, 1e9][:k],
                        'sps': [1e-3, 1e-3, 1e-2, 1.0][:k], 'dists': ['gauss', 'gauss', 'uniform', 'gauss'][:k],
                        'mix': [0, 1.0, -0.5, 2.0][:k], 'perm': 3 + i, 'chunk': ch, 'chseed': 31 + i, 'rc': k == 2, 'g': 'b-illcond'})
    # stopping rule
    R = lambda **kw: out.append({'kind': 'rep', 'seed': 1, **kw})
    for mn in (0, 1, 2, 5, 9):
        R(gen='const', a=3.5, b=0.0, rtol=0.02, ts=1.0, min=mn, max=50, g='b-conv-at-min+1')      # converges as soon as looked at
        R(gen='const', a=0.0, b=0.0, rtol=0.02, ts=1.0, min=mn, max=50, g='b-zero-mean')
        R(gen='const', a=0.0, b=0.0, rtol=0.02, ts=0.0, min=mn, max=12, g='b-zero-atol')          # rhs = 0: never converged
    for mx in (1, 2, 3, 7):
        R(gen='drift', a=1.0, b=1.0, rtol=1e-6, ts=1.0, min=0, max=mx, g='b-hit-max')
        R(gen='const', a=2.0, b=0.0, rtol=0.02, ts=1.0, min=0, max=mx, g='b-max-vs-conv')
        R(gen='const', a=2.0, b=0.0, rtol=0.02, ts=1.0, min=mx, max=mx, g='b-min>=max')
        R(gen='const', a=2.0, b=0.0, rtol=0.02, ts=1.0, min=mx - 1, max=mx, g='b-min=max-1')
        R(gen='const', a=2.0, b=0.0, rtol=0.02, ts=1.0, min=mx - 2, max=mx, g='b-min=max-2')
        R(gen='const', a=2.0, b=0.0, rtol=0.02, ts=1.0, min=mx + 5, max=mx, g='b-min>max')
    R(gen='const', a=2.0, b=0.0, rtol=0.0, ts=1.0, min=3, max=20, g='b-rtol0')
    R(gen='alt', a=10.0, b=1.0, rtol=0.02, ts=1.0, min=5, max=300, g='b-alt')                      # err = 1/sqrt(n): stops in the middle
    R(gen='alt', a=10.0, b=1.0, rtol=0.005, ts=1.0, min=5, max=300, g='b-alt')
    R(gen='alt', a=0.0, b=1.0, rtol=0.1, ts=1.0, min=5, max=300, g='b-alt-zero-mean')
    R(gen='alt', a=0.0, b=1.0, rtol=0.1, ts=3.0, min=5, max=300, g='b-alt-tolscale')
    R(gen='alt', a=1e9, b=1e-3, rtol=1e-13, ts=1.0, min=2, max=200, g='b-alt-illcond')
    R(gen='decay', a=1.0, b=5.0, rtol=0.05, ts=1.0, min=3, max=100, g='b-decay')
    R(gen='noisy', a=5.0, b=1.0, rtol=0.02, ts=1.0, min=5, max=400, g='b-noisy')
    R(gen='noisy', a=5.0, b=1.0, rtol=0.02, ts=1.0, min=5, max=40, g='b-noisy-cut')
    R(gen='noisy', a=-5.0, b=1.0, rtol=0.02, ts=1.0, min=5, max=400, g='b-noisy-negmean')
    return out


def _rand_stats(rng):
    n = rng.choice((1, 2, 3, 4, 5, 8, 13, 30, 64, 100, 200, 333, 500))
    return {'kind': 'stats', 'seed': rng.randrange(10 ** 9), 'n': n,
            'off': rng.choice(OFFS + (1e9 * rng.uniform(-1, 1),)), 'sp': rng.choice(SPREADS), 'dist': rng.choice(DISTS),
            'perm': rng.choice((None, rng.randrange(10 ** 6))), 'chunk': rng.choice(('whole', 'single', 'halves', 'random', 'random')),
            'chseed': rng.randrange(10 ** 6), 'g': 'random'}


def _rand_cov(rng):
    k = rng.choice((2, 2, 3, 4))
    n = rng.choice((1, 2, 3, 5, 13, 40, 100, 250, 500))
    return {'kind': 'cov', 'seed': rng.randrange(10 ** 9), 'n': n, 'k': k,
            'offs': [rng.choice(OFFS) for _ in range(k)], 'sps': [rng.choice(SPREADS) for _ in range(k)],
            'dists': [rng.choice(DISTS) for _ in range(k)],
            'mix': [0] + [rng.choice((0, 0, 1.0, -1.0, 0.5, -3.0, rng.uniform(-2, 2))) for _ in range(k - 1)],
            'perm': rng.choice((None, rng.randrange(10 ** 6))), 'chunk': rng.choice(('whole', 'single', 'halves', 'random', 'random')),
            'chseed': rng.randrange(10 ** 6), 'rc': k == 2 and rng.random() < 0.7, 'g': 'random'}


def _rand_rep(rng):
    gen = rng.choice(('const', 'alt', 'alt', 'decay', 'noisy', 'noisy', 'noisy', 'drift'))
    a = rng.choice((0.0, 1.0, -3.0, 10.0, 1e3, 1e9, rng.uniform(-5, 5)))
    b = rng.choice((1e-3, 0.1, 1.0, 5.0, abs(a) * rng.uniform(0.01, 2) or 1.0))
    mx = rng.choice((1, 2, 3, 5, 10, 30, 100, 300))
    mn = rng.choice((0, 1, 2, 5, 5, 10, mx - 2, mx - 1, mx, mx + 3))
    rtol = rng.choice((0.0, 1e-3, 0.01, 0.02, 0.1, 0.5, 10 ** rng.uniform(-4, 0)))
    ts = rng.choice((0.0, 1.0, 1.0, 0.1, 10.0, 10 ** rng.uniform(-3, 3)))
    return {'kind': 'rep', 'seed': rng.randrange(10 ** 9), 'gen': gen, 'a': a, 'b': b, 'rtol': rtol, 'ts': ts,
            'min': max(mn, -1), 'max': mx, 'g': 'random'}


def _gen(ctx, n_stats, n_cov, n_rep):
    rng = ctx.rng
    out = boundary_suite()
    out += [_rand_stats(rng) for _ in range(n_stats)]
    out += [_rand_cov(rng) for _ in range(n_cov)]
    out += [_rand_rep(rng) for _ in range(n_rep)]
    return out


def cases(ctx):
    global _CTX
    _CTX = ctx
    out = _gen(ctx, 400, 160, 400) if ctx.tier == 'quick' else _gen(ctx, 8000, 3000, 8000)
    # the container a chunk is handed over in (the values are the same floats): list, tuple, generator, numpy array
    for j, c in enumerate(out):
        if c['kind'] in ('stats', 'cov') and 'as' not in c:
            c['as'] = ('list', 'nparray', 'gen', 'tuple', 'nparray')[j % 5]
    for c in out:
        ctx.count('kind', c['kind'])
        ctx.count('generator', c['g'])
        if c['kind'] in ('stats', 'cov'): ctx.count('chunk container', c.get('as', 'list'))
        if c['kind'] == 'stats':
            xs, ch = stats_data(c)
            ctx.count('n', len(xs)); ctx.count('chunks', 'one' if len(ch) == 1 else 'all-single' if all(s == 1 for s in ch) else 'mixed')
            ctx.count('offset', 'explicit' if 'xs' in c else f"{c['off']:.0e}"); ctx.count('spread', 'explicit' if 'xs' in c else c['sp'])
            ctx.count('distribution', c.get('dist', 'explicit')); ctx.count('permuted', c.get('perm') is not None)
        elif c['kind'] == 'cov':
            cols, st = cov_data(c)
            ctx.count('cov series', len(cols)); ctx.count('n', len(cols[0]))
            ctx.count('cov feeding', '+'.join(sorted({s[0] for s in st})))
        else:
            ctx.count('rep generator', c['gen']); ctx.count('rep max_samples', c['max']); ctx.count('rep min_samples', c['min'])
    return out


def search_cases(ctx):
    sub = type(ctx)(ctx.prop, ctx.tier, ctx.seed + 7919)
    sub.rng = random.Random(ctx.seed * 1000003 + 19)
    return _gen(sub, 1500, 500, 1500)


def nontrivial(c):
    if c['kind'] == 'stats':
        xs, _ = stats_data(c)
        return len(xs) >= 3 and len(set(xs)) > 1
    if c['kind'] == 'cov':
        cols, _ = cov_data(c)
        return len(cols[0]) >= 3 and all(len(set(col)) > 1 for col in cols)
    return c['max'] >= 3


# ----------------------------------------------------------------------------- real

def _num(v):
    """JSON-able observation of a reported number: a float stays a float, anything else (complex, nan, inf) its repr"""
    try:
        if isinstance(v, complex): return {'bad': repr(v)}
        f = float(v)
    except Exception:
        return {'bad': repr(v)}
    if not math.isfinite(f): return {'bad': repr(f)}
    return f


def _rs_obs(rs):
    return {'count': int(rs.count), 'mean': _num(rs.mean), 'var': _num(rs.var), 'std': _num(rs.std), 'err': _num(rs.err)}


def _as(chunk, how):
    """a chunk of floats in the container the case asks for"""
    if how == 'nparray':
        import numpy as np
        return np.asarray(chunk, dtype=float)
    if how == 'gen': return (x for x in chunk)
    if how == 'tuple': return tuple(chunk)
    return list(chunk)


def run_real(c, ctx):
    import xyzpy.utils as U_
    try:
        if c['kind'] == 'stats':
            xs, chunks = stats_data(c)
            rs = U_.RunningStatistics()
            i = 0
            for s in chunks:
                if s == 1: rs.update(xs[i])
                else: rs.update_from_it(_as(xs[i:i + s], c.get('as')))
                i += s
            return _rs_obs(rs)
        if c['kind'] == 'cov':
            cols, steps = cov_data(c)
            k, n = len(cols), len(cols[0])
            rcm = U_.RunningCovarianceMatrix(n=k)
            rc = U_.RunningCovariance() if c.get('rc') and k == 2 else None
            i = 0
            for how, s in steps:
                if how == 'rows':
                    for r in range(i, i + s):
                        rcm.update(*[col[r] for col in cols])
                        if rc is not None: rc.update(cols[0][r], cols[1][r])
                else:
                    rcm.update_from_it(*[_as(col[i:i + s], c.get('as')) for col in cols])
                    if rc is not None: rc.update_from_it(_as(cols[0][i:i + s], c.get('as')), _as(cols[1][i:i + s], c.get('as')))
                i += s
            obs = {'count': int(rcm.count), 'counts': sorted({int(r.count) for r in rcm.rcs.values()}),
                   'means': [_num(rcm.rcs[j, j].xmean) for j in range(k)],
                   'covar': [[_num(v) for v in row] for row in rcm.covar_matrix.tolist()]}
            if n >= 2:
                obs['sample'] = [[_num(v) for v in row] for row in rcm.sample_covar_matrix.tolist()]
            if rc is not None:
                obs['rc'] = {'count': int(rc.count), 'xmean': _num(rc.xmean), 'ymean': _num(rc.ymean), 'covar': _num(rc.covar)}
                if n >= 2: obs['rc']['sample'] = _num(rc.sample_covar)
            return obs
        stream = rep_stream(c)
        calls = [0]

        # the estimated function takes arguments (every second case): they must reach it unchanged on every call
        fa, fk = ((3, 'p'), {'scale': 2.5}) if c['max'] % 2 else ((), {})
        bad_args = []

        def fn(*a, **k):
            if (a, k) != (fa, fk): bad_args.append((a, k))
            i = calls[0]; calls[0] += 1
            if i >= len(stream): raise IndexError('stream exhausted: more samples drawn than max_samples')
            return stream[i]
        rs, xs = U_.estimate_from_repeats(fn, *fa, rtol=c['rtol'], tol_scale=c['ts'], min_samples=c['min'], max_samples=c['max'],
                                          get='samples', **fk)
        obs = _rs_obs(rs)
        if bad_args: return {'raised': 'WrongArguments', 'msg': 'the function was called with %r' % (bad_args[0],)}
        obs['calls'] = calls[0]; obs['returned'] = len(xs)
        obs['prefix_ok'] = [float(v) for v in xs] == stream[:len(xs)]
        return obs
    except Exception as e:       # an exception of the library is an observation
        return {'raised': type(e).__name__, 'msg': str(e)[:160]}


# ----------------------------------------------------------------------------- exact references and tolerances

def q(v): return list(v.as_integer_ratio())
def fr(p): return F(int(p[0]), int(p[1]))


def exact_stats(xs):
    X = [F(x) for x in xs]
    n = len(X)
    m = sum(X) / n
    v = sum((x - m) ** 2 for x in X) / n
    return n, m, v


def exact_cov(xs, ys):
    X = [F(x) for x in xs]; Y = [F(y) for y in ys]
    n = len(X)
    mx, my = sum(X) / n, sum(Y) / n
    return sum((x - mx) * (y - my) for x, y in zip(X, Y)) / n


def tol_mean(n, amax): return CM * n * U * amax


def tol_var(n, amax, v):
    sd = math.sqrt(float(v))
    return CV * (n * U * (amax * sd + float(v)) + (n * U * amax) ** 2)


def tol_cov(n, ax, ay, vx, vy, cv):
    return CC * (n * U * (ax * math.sqrt(float(vy)) + ay * math.sqrt(float(vx)) + abs(float(cv))) + (n * U) ** 2 * ax * ay)


def _isnum(v): return isinstance(v, float)


def check_rs(obs, xs, what='whole sample'):
    """the reported count/mean/var/std/err against the exact statistics of `xs` (list of floats)"""
    n, m, v = exact_stats(xs)
    return check_rs_exact(obs, n, m, v, max(abs(x) for x in xs), what)


def check_rs_exact(obs, n, m, v, amax, what):
    if obs['count'] != n: return f'count {obs["count"]} but {n} samples were fed'
    for k in ('mean', 'var', 'std', 'err'):
        if not _isnum(obs[k]): return f'{k} is not a finite real number: {obs[k]}'
    tm, tv = tol_mean(n, amax), tol_var(n, amax, v)
    if abs(F(obs['mean']) - m) > tm:
        return f'mean {obs["mean"]!r} differs from the mean of the {what} {float(m)!r} by {float(abs(F(obs["mean"]) - m)):.3e} > tolerance {tm:.3e}'
    if abs(F(obs['var']) - v) > tv:
        return f'var {obs["var"]!r} differs from the variance of the {what} {float(v)!r} by {float(abs(F(obs["var"]) - v)):.3e} > tolerance {tv:.3e}'
    if obs['std'] < 0 or abs(F(obs['std']) ** 2 - v) > tv:
        return f'std {obs["std"]!r}: its square differs from the variance of the {what} {float(v)!r} by more than {tv:.3e}'
    if obs['err'] < 0 or abs(F(obs['err']) ** 2 * n - v) > 2 * tv:
        return f'err {obs["err"]!r}: err^2 * n differs from the variance of the {what} {float(v)!r} by more than {2 * tv:.3e}'
    return None


def check_cov(obs, cols):
    k, n = len(cols), len(cols[0])
    if obs['count'] != n or obs['counts'] != [n]: return f'count {obs["count"]} / per-pair counts {obs["counts"]} but {n} rows were fed'
    st = [exact_stats(col) for col in cols]
    amax = [max(abs(x) for x in col) for col in cols]
    for j in range(k):
        if not _isnum(obs['means'][j]): return f'mean[{j}] not a finite number: {obs["means"][j]}'
        if abs(F(obs['means'][j]) - st[j][1]) > tol_mean(n, amax[j]):
            return f'mean of series {j} {obs["means"][j]!r} differs from the whole-sample mean {float(st[j][1])!r}'
    for name, scale in (('covar', F(1)), ('sample', F(n, n - 1) if n > 1 else None)):
        if name not in obs: continue
        M = obs[name]
        for i in range(k):
            for j in range(k):
                if not _isnum(M[i][j]): return f'{name}[{i}][{j}] is not a finite number: {M[i][j]}'
                if M[i][j] != M[j][i]: return f'{name} matrix not symmetric at ({i},{j}): {M[i][j]!r} vs {M[j][i]!r}'
                cv = exact_cov(cols[i], cols[j])
                t = tol_cov(n, amax[i], amax[j], st[i][2], st[j][2], cv) * float(scale)
                if abs(F(M[i][j]) - cv * scale) > t:
                    return (f'{name}[{i}][{j}] = {M[i][j]!r} differs from the whole-sample value {float(cv * scale)!r} by '
                            f'{float(abs(F(M[i][j]) - cv * scale)):.3e} > tolerance {t:.3e}')
    if 'rc' in obs:
        r = obs['rc']
        if r['count'] != n: return f'RunningCovariance.count {r["count"]} but {n} pairs were fed'
        cv = exact_cov(cols[0], cols[1])
        t = tol_cov(n, amax[0], amax[1], st[0][2], st[1][2], cv)
        for nm, val, ref, tt in (('xmean', r['xmean'], st[0][1], tol_mean(n, amax[0])), ('ymean', r['ymean'], st[1][1], tol_mean(n, amax[1])),
                                 ('covar', r['covar'], cv, t)) + ((('sample_covar', r['sample'], cv * F(n, n - 1), t * n / (n - 1)),) if 'sample' in r else ()):
            if not _isnum(val): return f'RunningCovariance.{nm} not a finite number: {val}'
            if abs(F(val) - ref) > tt:
                return f'RunningCovariance.{nm} = {val!r} differs from the whole-sample value {float(ref)!r} by more than {tt:.3e}'
    return None


def rule_trace(stream, rtol, ts, mn, mx, upto):
    """exact evaluation of the stopping rule after each of the first `upto` samples:
    list of (allowed: True/False/None(undetermined), why)"""
    out = []
    S = Q = F(0)
    R, T = F(rtol), F(ts)
    amax = 0.0
    for i in range(upto):
        x = F(stream[i]); S += x; Q += x * x
        amax = max(amax, abs(stream[i]))
        n = i + 1
        m = S / n
        v = Q / n - m * m
        err2 = v / n
        rhs = R * abs(m) + T * R
        if rhs <= 0: conv = False
        elif err2 == 0: conv = True
        else:
            # the float `err` may be off by the relative tolerance granted to the variance (halved by the square root)
            slack = AMBIG + tol_var(n, amax, v) / float(v)
            margin = abs(math.sqrt(float(err2)) - float(rhs)) / float(rhs)
            conv = None if margin < slack else (err2 < rhs * rhs)
        hit = i >= mx - 1
        if hit: allowed = True
        elif i > mn: allowed = conv
        else: allowed = False
        out.append(allowed)
    return out


# ----------------------------------------------------------------------------- model

def model_request(c, obs):
    if c['kind'] == 'stats':
        xs, chunks = stats_data(c)
        ch, i = [], 0
        for s in chunks:
            ch.append([q(x) for x in xs[i:i + s]]); i += s
        return {'op': 'stats', 'chunks': ch, 'alt': [q(x) for x in sorted(xs)]}
    if c['kind'] == 'cov':
        cols, steps = cov_data(c)
        st, i = [], 0
        for how, s in steps:
            if how == 'rows': st.append({'rows': [[q(col[r]) for col in cols] for r in range(i, i + s)]})
            else: st.append({'cols': [[q(v) for v in col[i:i + s]] for col in cols]})
            i += s
        return {'op': 'cov', 'k': len(cols), 'steps': st}
    stream = rep_stream(c)
    return {'op': 'repeats', 'samples': [q(v) for v in stream], 'rtol': q(float(c['rtol'])), 'tol_scale': q(float(c['ts'])),
            'min': c['min'], 'max': c['max']}


def compare(c, obs, rep):
    if 'err' in rep: return f'model error {rep["err"]}'
    if 'raised' in obs: return f'real raised {obs["raised"]}: {obs.get("msg")}; the model returns count {rep.get("count")}'
    if c['kind'] == 'stats':
        xs, _ = stats_data(c)
        n, m, v = exact_stats(xs)
        if rep['count'] != n or fr(rep['mean']) != m or fr(rep['var']) != v or fr(rep['errSq']) != v / n:
            return 'model (exact Welford recurrence with the extracted bodies) differs from the whole-sample statistics'
        if not rep.get('same'): return 'model: final state depends on the order / chunking of the same sample'
        return check_rs_exact(obs, rep['count'], fr(rep['mean']), fr(rep['var']), max(abs(x) for x in xs), 'model')
    if c['kind'] == 'cov':
        cols, _ = cov_data(c)
        k, n = len(cols), len(cols[0])
        if rep['count'] != n or set(rep['counts']) != {n}: return f'model count {rep["count"]} vs {n} rows'
        for i in range(k):
            if fr(rep['means'][i]) != exact_stats(cols[i])[1]: return 'model mean differs from the whole-sample mean'
            for j in range(k):
                cv = exact_cov(cols[i], cols[j])
                if fr(rep['covar'][i][j]) != cv: return f'model covar[{i}][{j}] differs from the whole-sample covariance'
                if n > 1 and fr(rep['sample'][i][j]) != cv * F(n, n - 1): return f'model sample covar[{i}][{j}] differs'
        return None     # real vs exact is the oracle's comparison (same reference values)
    stream = rep_stream(c)
    if rep.get('short'): return 'model wanted more samples than the stream holds'
    if obs['count'] != rep['count']:
        lo = min(obs['count'], rep['count'])
        tr = rule_trace(stream, c['rtol'], c['ts'], c['min'], c['max'], lo)
        if tr and tr[lo - 1] is None:
            if _CTX is not None: _CTX.count('rep undetermined convergence test', 'model/real differ')
            return None
        return f'number of samples drawn: real {obs["count"]} vs model {rep["count"]}'
    xs = stream[:rep['count']]
    return check_rs_exact(obs, rep['count'], fr(rep['mean']), fr(rep['var']), max(abs(x) for x in xs) or 0.0, 'model (drawn prefix)')


# ----------------------------------------------------------------------------- oracle

def oracle(c, obs):
    if 'harness_exc' in obs: return 'harness: ' + obs['harness_exc']
    if 'raised' in obs: return f'{c["kind"]}: raised {obs["raised"]}: {obs.get("msg")}'
    if c['kind'] == 'stats':
        xs, _ = stats_data(c)
        return check_rs(obs, xs)
    if c['kind'] == 'cov':
        cols, _ = cov_data(c)
        return check_cov(obs, cols)
    stream = rep_stream(c)
    cnt, mx = obs['count'], c['max']
    if obs['calls'] != cnt or obs['returned'] != cnt or not obs['prefix_ok']:
        return f'fn was called {obs["calls"]} times, {obs["returned"]} samples returned, statistics hold {cnt} samples'
    if cnt > mx: return f'{cnt} samples drawn, more than max_samples = {mx}'
    if cnt < 1: return 'no sample drawn'
    r = check_rs(obs, stream[:cnt], 'samples drawn')
    if r: return r
    tr = rule_trace(stream, c['rtol'], c['ts'], c['min'], mx, cnt)
    if _CTX is not None:
        _CTX.count('rep stopped because', 'max_samples' if cnt - 1 >= mx - 1 else 'converged')
        _CTX.count('rep samples drawn', cnt if cnt < 10 else f'{10 * (cnt // 10)}+')
    if tr[cnt - 1] is False:
        return (f'stopped after {cnt} samples (i = {cnt - 1}) although neither the requested relative error is met '
                f'(with i > min_samples = {c["min"]}) nor the limit max_samples = {mx} reached')
    for i in range(cnt - 1):
        if tr[i] is True:
            return f'kept sampling after i = {i} although the rule allowed stopping there (stopped only at i = {cnt - 1})'
    if any(t is None for t in tr) and _CTX is not None: _CTX.count('rep undetermined convergence test', 'accepted')
    return None


def finding_key(c, obs):
    return None


def shrink_candidates(c):
    if c['kind'] == 'stats':
        xs, chunks = stats_data(c)
        n = len(xs)
        if n > 1:
            for cut in (xs[:n // 2], xs[n // 2:], xs[:-1], xs[1:]):
                if cut: yield {'kind': 'stats', 'xs': cut, 'chunks': [len(cut)], 'g': 'shrunk'}
        if 'xs' not in c or c.get('chunks') != [n]:
            yield {'kind': 'stats', 'xs': xs, 'chunks': [n], 'g': 'shrunk'}
    elif c['kind'] == 'cov':
        cols, steps = cov_data(c)
        n = len(cols[0])
        if n > 1:
            for a, b in ((0, n // 2), (n // 2, n), (0, n - 1), (1, n)):
                if b > a: yield {'kind': 'cov', 'cols': [col[a:b] for col in cols], 'steps': [['cols', b - a]], 'rc': c.get('rc', False), 'g': 'shrunk'}
        if len(cols) > 2:
            yield {'kind': 'cov', 'cols': cols[:2], 'steps': [['cols', n]], 'rc': True, 'g': 'shrunk'}
            yield {'kind': 'cov', 'cols': cols[1:], 'steps': [['cols', n]], 'rc': len(cols) == 3, 'g': 'shrunk'}
    else:
        if c['max'] > 1:
            for mx in (c['max'] // 2, c['max'] - 1):
                if mx >= 1: yield {**{k: v for k, v in c.items() if k != 'samples'}, 'max': mx, 'g': 'shrunk'}
        if c['min'] > 0:
            yield {**c, 'min': c['min'] // 2, 'g': 'shrunk'}
            yield {**c, 'min': c['min'] - 1, 'g': 'shrunk'}
