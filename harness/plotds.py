"""Datasets for the plotting checks (C17, C18): explicit JSON-able descriptions, construction of the xarray object,
an injective table float-bit-pattern -> value token, decoding of drawn floats, artist extraction helpers and a small
pure-python reference evaluator (index loops only) used by the independent oracles.

A dataset description:
    {'dims': [{'name': 'x', 'coords': [1.5, 2.0, ...] | ['a', 'b', ...]}, ...],
     'vars': [{'name': 'y', 'dims': ['x', 'z'], 'cells': [ints in C order]}, ...],
     'off': int}
cell codes: k >= 0 -> the finite float VAL(k, off); -1 -> NaN; -2 -> +inf; -3 -> -inf.
All finite floats of a dataset (data values and numeric coordinates) are pairwise distinct dyadic rationals, so a drawn
float can be mapped back to the cell it came from by its exact bit pattern: data passed through unchanged decodes to its
token, anything computed from it (jitter, interpolation, a wrong variable) decodes to '?'.
Tokens: data value k -> k; coordinate k of dimension number d -> 10000 + 100 * d + k.
"""
import math, struct, itertools
import numpy as np

NAN, PINF, NINF = -1, -2, -3
COORD0 = 10000


def val(k, off=0):
    """finite float of data token k: distinct for k < 509, positive, dyadic (exact in binary), never an integer or a
    multiple of 1/8 (so it cannot collide with coordinates), not monotone in k"""
    return (((k * 37 + off) % 509) + 4) / 8.0 + 0.0625


def cell_float(c, off=0):
    if c >= 0: return val(c, off)
    return {NAN: math.nan, PINF: math.inf, NINF: -math.inf}[c]


def bits(f):
    return struct.pack('<d', float(f))


def coord_token(d, k):
    return COORD0 + 100 * d + k


def is_num(v):
    return isinstance(v, (int, float)) and not isinstance(v, bool)


class DS:
    """decoded description + lookup tables"""

    def __init__(self, desc):
        self.desc = desc
        self.off = desc.get('off', 0)
        self.dims = [d['name'] for d in desc['dims']]
        self.coords = {d['name']: list(d['coords']) for d in desc['dims']}
        self.size = {d: len(self.coords[d]) for d in self.dims}
        self.vars = {v['name']: v for v in desc['vars']}
        self.table = {}
        self.coordval = {}
        for v in desc['vars']:
            for c in v['cells']:
                if c >= 0: self.table[bits(val(c, self.off))] = c
        for di, d in enumerate(self.dims):
            for k, cv in enumerate(self.coords[d]):
                if is_num(cv):
                    b = bits(cv)
                    assert self.table.get(b, COORD0) >= COORD0, ('coordinate equals a data value', d, cv)
                    self.table.setdefault(b, coord_token(di, k))   # equal coordinates of two dims: first one wins
                    self.coordval[coord_token(di, k)] = float(cv)
        self.tokval = {}
        for b, t in self.table.items():
            self.tokval[t] = struct.unpack('<d', b)[0]
        self.tokval.update(self.coordval)

    # ------------------------------------------------------------------ xarray object
    def to_xarray(self):
        import xarray as xr
        coords = {}
        for d in self.dims:
            cs = self.coords[d]
            if cs and all(isinstance(c, str) for c in cs):
                coords[d] = np.array(cs, dtype=str)
            elif cs and all(isinstance(c, int) for c in cs):
                # integer coordinates come in the integer dtypes users have (chosen by the values, so a case is reproducible)
                coords[d] = np.array(cs, dtype=[np.int64, np.uint16, np.int32, np.uint64][sum(cs) % 4])
            else:
                coords[d] = np.array(cs, dtype=float)
        data = {}
        for v in self.desc['vars']:
            shape = [self.size[d] for d in v['dims']]
            arr = np.array([cell_float(c, self.off) for c in v['cells']], dtype=float).reshape(shape)
            data[v['name']] = (tuple(v['dims']), arr)
        return xr.Dataset(coords=coords, data_vars=data)

    # ------------------------------------------------------------------ decoding of drawn floats
    def decode(self, f):
        """drawn float -> token (int), 'nan', 'inf', '-inf' or '?'"""
        f = float(f)
        if math.isnan(f): return 'nan'
        if math.isinf(f): return 'inf' if f > 0 else '-inf'
        return self.table.get(bits(f), '?')

    def decode_arr(self, a):
        a = np.ma.filled(np.ma.asarray(a, dtype=float), np.nan) if np.ma.isMaskedArray(a) else np.asarray(a, dtype=float)
        return [self.decode(f) for f in a.ravel()]

    # ------------------------------------------------------------------ reference evaluator (index loops only)
    def is_coord(self, name):
        return name in self.size and name not in self.vars

    def var_dims(self, name):
        return [name] if self.is_coord(name) else list(self.vars[name]['dims'])

    def at(self, name, env):
        """token code of variable / coordinate `name` at the index assignment env (dict dim -> index)"""
        if self.is_coord(name):
            k = env[name]
            cv = self.coords[name][k]
            return coord_token(self.dims.index(name), k)
        v = self.vars[name]
        idx = 0
        for d in v['dims']:
            idx = idx * self.size[d] + env[d]
        return v['cells'][idx]

    def request(self):
        """the dataset part of a request to the Lean driver: coordinates become variables holding their tokens"""
        from common import canon
        dims = [{'name': d, 'labels': [label(c) for c in self.coords[d]], 'tlabels': [prettify(c) for c in self.coords[d]]}
                for d in self.dims]
        vs = [{'name': d, 'dims': [d], 'cells': [coord_token(di, k) for k in range(self.size[d])]}
              for di, d in enumerate(self.dims)]
        vs += [{'name': v['name'], 'dims': list(v['dims']), 'cells': list(v['cells'])} for v in self.desc['vars']]
        return {'dims': dims, 'vars': vs}


def tok_out(c):
    """cell code (model / reference side) -> the same vocabulary `DS.decode` produces"""
    if c >= 0: return c
    return {NAN: 'nan', PINF: 'inf', NINF: '-inf'}[c]


def finite(c):
    return c >= 0


def label(c):
    """str() of a coordinate value the way numpy scalars print (what `str(z)` gives inside the library)"""
    if isinstance(c, str): return c
    if isinstance(c, int): return str(c)
    return str(np.float64(c))


def prettify(c):
    """independent re-statement of the grid-title formatting: floats with 4 decimals, trailing zeros stripped"""
    if isinstance(c, float):
        s = '%0.4f' % c
        s = s.rstrip('0')
        if s.endswith('.'): s += '0'
        return s
    return str(c)


def bdims(ds, names, fixed):
    """dimension order of xr.broadcast: first appearance over the arguments, selected dimensions removed"""
    out = []
    for n in names:
        for d in ds.var_dims(n):
            if d not in fixed and d not in out: out.append(d)
    return out


def points(ds, bd):
    return itertools.product(*(range(ds.size[d]) for d in bd))


def flat(ds, name, bd, fixed):
    return [ds.at(name, {**fixed, **dict(zip(bd, p))}) for p in points(ds, bd)]


# ---------------------------------------------------------------------- generators of coordinates / cells

def gen_coords(rng, n, kind, base):
    """n distinct coordinate values. base: a number making numeric coordinates of different dims disjoint and disjoint
    from data values (all data values are < 70)"""
    if kind == 'str':
        pool = ['a', 'b', 'c', 'dd', 'e', 'f', 'g', 'hh', 'k', 'm', 'n', 'p', 'q', 'r', 's', 't']
        return rng.sample(pool, n)
    if kind == 'int':
        return sorted(rng.sample(range(100 + 40 * base, 100 + 40 * base + 39), n)) if rng.random() < 0.7 else \
            rng.sample(range(100 + 40 * base, 100 + 40 * base + 39), n)
    if kind == 'uniform':      # equally spaced, increasing (heat-map axes)
        x0 = 100 + 40 * base + rng.randint(0, 4) + 0.125
        dx = rng.choice([0.5, 1.0, 2.0])
        return [x0 + k * dx for k in range(n)]
    vals = [100 + 40 * base + k / 8 + 0.0625 for k in rng.sample(range(0, 300), n)]
    return sorted(vals) if rng.random() < 0.6 else vals


def gen_cells(rng, n, ids, pattern):
    """n cells taking fresh ids from the iterator `ids`; pattern: 'full' | 'nan' (25% NaN) | 'inf' (NaN and +-inf)"""
    out = []
    for _ in range(n):
        r = rng.random()
        if pattern == 'nan' and r < 0.3: out.append(NAN)
        elif pattern == 'inf' and r < 0.2: out.append(NAN)
        elif pattern == 'inf' and r < 0.35: out.append(rng.choice([PINF, NINF]))
        else: out.append(next(ids))
    return out


def blank_slice(ds_desc, var, dim, k):
    """set every cell of `var` at index k of `dim` to NaN (an all-NaN series)"""
    sizes = {d['name']: len(d['coords']) for d in ds_desc['dims']}
    v = next(v for v in ds_desc['vars'] if v['name'] == var)
    if dim not in v['dims']: return
    shape = [sizes[d] for d in v['dims']]
    ax = v['dims'].index(dim)
    for flat_i, p in enumerate(itertools.product(*(range(s) for s in shape))):
        if p[ax] == k: v['cells'][flat_i] = NAN


# ---------------------------------------------------------------------- matplotlib side

def close_all():
    import matplotlib.pyplot as plt
    plt.close('all')


def rgba(c):
    import matplotlib.colors as mc
    try:
        return [round(float(v), 9) for v in mc.to_rgba(c)]
    except Exception:
        return repr(c)


def same_rgba(a, b, tol=1e-6):
    return isinstance(a, list) and isinstance(b, list) and len(a) == len(b) and all(abs(x - y) <= tol for x, y in zip(a, b))


def grid_pos(ax):
    """(row, col) of an Axes inside its grid; (0, 0) for free-standing axes"""
    try:
        ss = ax.get_subplotspec()
    except Exception:
        ss = None
    if ss is None: return (0, 0)
    return (ss.rowspan.start, ss.colspan.start)


def is_colorbar(ax):
    return ax.get_label() == '<colorbar>'
