"""Translate a small sub-language of Python expressions to Lean 4 terms (DESIGN.md §3.2).

Supported: names/attributes (mapped to declared parameters through `env`, which is keyed by the
`ast.unparse` text of a sub-expression and is consulted first at every node), int/bool/str constants,
+ - * // % (and / in Rat context), unary - / not, and/or, chained comparisons, `x in (a, b)`,
int(<bool>), abs, min, max, math.ceil(a / b) (exact ceiling division; valid below 2**53), conditional
expressions.  Anything else raises Untranslatable and the anchor falls back to its committed default.

Division caveat (trusted base): Python's // and % are floor division; Lean's Int / and % are Euclidean.
They agree whenever the divisor is positive, which is the only way the model calls them (the code raises
before reaching them otherwise).
"""
import ast


class Untranslatable(Exception):
    pass


CMP = {ast.Lt: '<', ast.LtE: '≤', ast.Gt: '>', ast.GtE: '≥', ast.Eq: '=', ast.NotEq: '≠'}
BIN = {ast.Add: '+', ast.Sub: '-', ast.Mult: '*', ast.FloorDiv: '/', ast.Mod: '%'}


def lean_str(s):
    out = ['"']
    for ch in s:
        if ch == '\\': out.append('\\\\')
        elif ch == '"': out.append('\\"')
        elif ch == '\n': out.append('\\n')
        elif ch == '\t': out.append('\\t')
        elif ch == '\r': out.append('\\r')
        elif ord(ch) < 32 or ord(ch) > 126: out.append('\\u{%x}' % ord(ch))
        else: out.append(ch)
    out.append('"')
    return ''.join(out)


class Tr:
    def __init__(self, env, num='Int'):
        self.env = env          # unparse-text -> (lean term, type)
        self.num = num          # 'Int' or 'Rat'

    def lookup(self, e):
        key = ast.unparse(e)
        if key in self.env:
            return self.env[key]
        return None

    def expr(self, e):
        """returns (lean_term, type) with type in {'num','bool','str'}"""
        hit = self.lookup(e)
        if hit is not None:
            return hit
        if isinstance(e, ast.Constant):
            if isinstance(e.value, bool):
                return ('true' if e.value else 'false'), 'bool'
            if isinstance(e.value, int):
                return f'({e.value} : {self.num})', 'num'
            if isinstance(e.value, float) and self.num == 'Rat':
                from fractions import Fraction
                fr = Fraction(repr(e.value))
                return f'(({fr.numerator} : Rat) / {fr.denominator})', 'num'
            if isinstance(e.value, str):
                return lean_str(e.value), 'str'
            raise Untranslatable(ast.dump(e))
        if isinstance(e, ast.BinOp):
            l, lt = self.expr(e.left); r, rt = self.expr(e.right)
            if lt == 'str' and rt == 'str' and isinstance(e.op, ast.Add):
                return f'({l} ++ {r})', 'str'
            if lt != 'num' or rt != 'num':
                raise Untranslatable('non-numeric binop ' + ast.unparse(e))
            if isinstance(e.op, ast.Div):
                if self.num != 'Rat':
                    raise Untranslatable('true division in Int context: ' + ast.unparse(e))
                return f'({l} / {r})', 'num'
            if isinstance(e.op, ast.Pow):
                if isinstance(e.right, ast.Constant) and isinstance(e.right.value, int) and e.right.value >= 0:
                    return f'({l} ^ {e.right.value})', 'num'
                raise Untranslatable('pow ' + ast.unparse(e))
            if type(e.op) not in BIN:
                raise Untranslatable(ast.unparse(e))
            if self.num == 'Rat' and isinstance(e.op, (ast.FloorDiv, ast.Mod)):
                raise Untranslatable('floor division in Rat context')
            return f'({l} {BIN[type(e.op)]} {r})', 'num'
        if isinstance(e, ast.UnaryOp):
            v, t = self.expr(e.operand)
            if isinstance(e.op, ast.Not):
                if t != 'bool': raise Untranslatable('not on non-bool')
                return f'(!{v})', 'bool'
            if isinstance(e.op, ast.USub):
                if t != 'num': raise Untranslatable('neg on non-num')
                return f'(-{v})', 'num'
            raise Untranslatable(ast.unparse(e))
        if isinstance(e, ast.BoolOp):
            parts = []
            for v in e.values:
                t, ty = self.expr(v)
                if ty != 'bool': raise Untranslatable('boolop on non-bool: ' + ast.unparse(v))
                parts.append(t)
            op = ' && ' if isinstance(e.op, ast.And) else ' || '
            return '(' + op.join(parts) + ')', 'bool'
        if isinstance(e, ast.Compare):
            parts = []
            left = e.left
            for o, right in zip(e.ops, e.comparators):
                if isinstance(o, (ast.In, ast.NotIn)):
                    if not isinstance(right, (ast.Tuple, ast.List, ast.Set)):
                        raise Untranslatable('in non-literal')
                    l, lt = self.expr(left)
                    alts = []
                    for el in right.elts:
                        r, rt = self.expr(el)
                        if rt != lt: raise Untranslatable('in: mixed types')
                        alts.append(f'decide ({l} = {r})')
                    t = '(' + ' || '.join(alts) + ')' if alts else 'false'
                    parts.append(t if isinstance(o, ast.In) else f'(!{t})')
                elif isinstance(o, (ast.Is, ast.IsNot)):
                    l, lt = self.expr(left); r, rt = self.expr(right)
                    if lt != 'bool' or rt != 'bool': raise Untranslatable('is on non-bool')
                    t = f'({l} == {r})'
                    parts.append(t if isinstance(o, ast.Is) else f'(!{t})')
                else:
                    l, lt = self.expr(left); r, rt = self.expr(right)
                    if lt != rt: raise Untranslatable('compare mixed types: ' + ast.unparse(e))
                    if lt == 'bool':
                        if isinstance(o, ast.Eq): parts.append(f'({l} == {r})')
                        elif isinstance(o, ast.NotEq): parts.append(f'({l} != {r})')
                        else: raise Untranslatable('ordering on bool')
                    else:
                        parts.append(f'decide ({l} {CMP[type(o)]} {r})')
                left = right
            return '(' + ' && '.join(parts) + ')', 'bool'
        if isinstance(e, ast.IfExp):
            c, ct = self.expr(e.test); a, at = self.expr(e.body); b, bt = self.expr(e.orelse)
            if ct != 'bool' or at != bt: raise Untranslatable('ifexp types')
            return f'(if {c} then {a} else {b})', at
        if isinstance(e, ast.Call):
            fn = ast.unparse(e.func)
            if e.keywords: raise Untranslatable('kwargs in call')
            if fn == 'math.ceil' and len(e.args) == 1 and isinstance(e.args[0], ast.BinOp) \
                    and isinstance(e.args[0].op, ast.Div) and self.num == 'Int':
                a, at = self.expr(e.args[0].left); b, bt = self.expr(e.args[0].right)
                if at != 'num' or bt != 'num': raise Untranslatable('ceil args')
                return f'(({a} + {b} - 1) / {b})', 'num'
            args = [self.expr(a) for a in e.args]
            if fn == 'int' and len(args) == 1 and args[0][1] == 'bool':
                return f'(if {args[0][0]} then (1 : {self.num}) else 0)', 'num'
            if fn == 'int' and len(args) == 1 and args[0][1] == 'num' and self.num == 'Int':
                return args[0]
            if fn == 'abs' and len(args) == 1 and args[0][1] == 'num':
                return (f'((Int.natAbs {args[0][0]} : Nat) : Int)' if self.num == 'Int' else f'(|{args[0][0]}|)'), 'num'
            if fn in ('min', 'max') and len(args) == 2 and all(t == 'num' for _, t in args):
                return f'({fn} {args[0][0]} {args[1][0]})', 'num'
            raise Untranslatable('call ' + ast.unparse(e))
        raise Untranslatable(ast.dump(e)[:120])


def translate(e, env, want, num='Int'):
    t, ty = Tr(env, num).expr(e)
    if ty != want:
        raise Untranslatable(f'wanted {want}, got {ty}: {ast.unparse(e)}')
    return t
