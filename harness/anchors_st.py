"""State skeletons of the farmers' storage methods (pyst2lean): `Harvester.load_full_ds / save_full_ds / add_ds` and
`Sampler.load_full_df / save_full_df / add_df` (xyzpy/gen/farming.py) translated on every run to Lean functions over an
abstract state `S` and a record of operations `o : Gen.StoreOps S D G E` (`lean/XyzModel/Gen/DefaultSt.lean`).

What the translation keeps from the source: the order of the file operations, which *name* each one is given (the bare
`data_name`, the name with the engine's extension, the temporary next to it — `Gen.NameRef`), which *engine* value it is
given (the per-call one, defaulted to the object's when `None`), the tests that decide whether the file is read, what is
merged with what under which `overwrite` value, whether and when memory is updated, what a `finally` block does.
What it abstracts: the data themselves (`D`), what an operation does to the state (given by the instance).

`XyzProofs/Refine/Harvest.lean` / `Refine/SamplerSt.lean` instantiate the operations on the models' stores and prove that
the hand-written `Harvest.addDs`, `Harvest.loadFull`, `Harvest.saveFullNew`, `Sampler.addDf` ARE these functions.
"""
import ast
from extract import find, one, NotFound
from pyexpr2lean import Untranslatable
from pyst2lean import StSpec, translate_st
from anchors_data import _merge_kind

FILES = {'farming': 'xyzpy/gen/farming.py'}


def boo(n): return (n, 'bool')


# ---------------------------------------------------------------------------------------------- names and engines
class _Deep(ast.NodeTransformer):
    """replace local names bound to pure syntax (aliases) by that syntax, recursively"""

    def __init__(self, env):
        self.env = env

    def visit_Name(self, n):
        hit = self.env.get(n.id)
        if hit is not None and hit[1] == 'ast':
            return self.visit(hit[0])
        return n


def deep(e, env):
    import copy
    return _Deep(env).visit(copy.deepcopy(e))


def opt_engine(tr, e):
    """an engine expression as an `Option G` term"""
    if e is None or (isinstance(e, ast.Constant) and e.value is None):
        return 'none'
    t, ty = tr.expr(e)
    if ty == 'otok': return t
    if ty == 'tok': return f'(some {t})'
    raise Untranslatable('engine expected: ' + ast.unparse(e))


def nameref(e, tr, env):
    """which file name an expression denotes (Gen.NameRef): self.data_name, auto_add_extension(self.data_name, engine), or
    the temporary `<dir of F>/.tmp-<pid>-<base of F>` next to such a name F"""
    e = deep(e, env)
    if ast.unparse(e) == 'self.data_name':
        return '.bare'
    if isinstance(e, ast.Call) and ast.unparse(e.func) == 'auto_add_extension' and len(e.args) == 2 and not e.keywords \
            and ast.unparse(e.args[0]) == 'self.data_name':
        return f'(.ext {opt_engine(tr, e.args[1])})'
    if isinstance(e, ast.Call) and ast.unparse(e.func) == 'os.path.join' and len(e.args) == 2 and not e.keywords:
        head, last = e.args
        if isinstance(head, ast.Call) and ast.unparse(head.func) == '$dirname' and len(head.args) == 1:
            F = head.args[0]
            # the last component: a string built from a literal starting with '.tmp-', the pid and the base name of F
            parts = None
            if isinstance(last, ast.JoinedStr):
                parts = [v.value if isinstance(v, ast.Constant) else v.value for v in last.values]
            elif isinstance(last, ast.Call) and isinstance(last.func, ast.Attribute) and last.func.attr == 'format' \
                    and isinstance(last.func.value, ast.Constant) and isinstance(last.func.value.value, str) and not last.keywords:
                lit = last.func.value.value.split('{}')
                if len(lit) == len(last.args) + 1:
                    parts = []
                    for s, a in zip(lit, list(last.args) + [None]):
                        if s: parts.append(s)
                        if a is not None: parts.append(a)
            if parts and isinstance(parts[0], str) and parts[0].startswith('.tmp-'):
                nodes = [p for p in parts if not isinstance(p, str)]
                texts = [ast.unparse(p) for p in nodes]
                if 'os.getpid()' in texts and f'$basename({ast.unparse(F)})' in texts and len(nodes) == 2:
                    return f'(.tmp {nameref(F, tr, env)})'
    raise Untranslatable('file name not recognised: ' + ast.unparse(e)[:90])


def _kwarg(call, name, pos=None):
    for k in call.keywords:
        if k.arg == name: return k.value
    if pos is not None and len(call.args) > pos: return call.args[pos]
    return None


def _call_of(st, names):
    v = st.value if isinstance(st, (ast.Expr, ast.Assign)) else None
    if isinstance(v, ast.Call) and ast.unparse(v.func) in names: return v
    return None


def _later_writes(func, st, value):
    """is a name read by `value` assigned after statement `st` in `func`? (an alias is evaluated where it is used)"""
    reads = {n.id for n in ast.walk(value) if isinstance(n, ast.Name)}
    for n in ast.walk(func):
        if isinstance(n, (ast.Assign, ast.AugAssign)) and n.lineno > st.lineno:
            for t in (n.targets if isinstance(n, ast.Assign) else [n.target]):
                for m in (t.elts if isinstance(t, ast.Tuple) else [t]):
                    if isinstance(m, ast.Name) and m.id in reads: return True
    return False


def handlers(func, O, mem, new_names, kind):
    """statement handlers shared by the Harvester and the Sampler methods.
    mem: python text of the in-memory attribute (`self._full_ds`); kind: 'ds' / 'df' (names of the library calls)"""
    load_fn, save_fn = ('load_ds', 'save_ds') if kind == 'ds' else ('load_df', 'save_df')
    load_m, save_m = ('self.load_full_ds', 'self.save_full_ds') if kind == 'ds' else ('self.load_full_df', 'self.save_full_df')
    load_sk, save_sk = ('hvLoadFull', 'hvSaveFull') if kind == 'ds' else ('smLoadFull', 'smSaveFull')

    def is_alias(st):
        return isinstance(st, ast.Assign) and len(st.targets) == 1 and isinstance(st.targets[0], ast.Name) and \
            isinstance(st.value, (ast.Call, ast.JoinedStr)) and \
            (ast.unparse(st.value).startswith(('auto_add_extension(', 'os.path.join(')))

    def h_alias(st, tr, env):
        if _later_writes(func, st, st.value): raise Untranslatable('name re-assigned after being used in a path')
        return [('alias', st.targets[0].id, st.value)]

    def is_split(st):
        return isinstance(st, ast.Assign) and len(st.targets) == 1 and isinstance(st.targets[0], ast.Tuple) and \
            len(st.targets[0].elts) == 2 and all(isinstance(x, ast.Name) for x in st.targets[0].elts) and \
            isinstance(st.value, ast.Call) and ast.unparse(st.value.func) == 'os.path.split' and len(st.value.args) == 1

    def h_split(st, tr, env):
        if _later_writes(func, st, st.value): raise Untranslatable('name re-assigned after os.path.split')
        F = st.value.args[0]
        mk = lambda f: ast.Call(func=ast.Name(id=f), args=[F], keywords=[])
        return [('alias', st.targets[0].elts[0].id, mk('$dirname')), ('alias', st.targets[0].elts[1].id, mk('$basename'))]

    def is_set_mem(st):
        return isinstance(st, ast.Assign) and len(st.targets) == 1 and ast.unparse(st.targets[0]) == mem

    def h_set_mem(st, tr, env):
        st_ = env['$trace'][0]
        c = st.value
        if isinstance(c, ast.Call) and ast.unparse(c.func) == load_fn:
            nm = nameref(c.args[0], tr, env) if c.args else None
            if nm is None or len(c.args) != 1: raise Untranslatable(load_fn + ' arguments')
            eng = opt_engine(tr, _kwarg(c, 'engine'))
            return [('val', f'{O}.loadData {st_} {nm} {eng}', [('$loaded', 'loaded', 'data')]),
                    ('set', f'{O}.setMem {st_} loaded')]
        t, ty = tr.expr(c)
        if ty != 'data': raise Untranslatable('memory set to a non-dataset: ' + ast.unparse(c))
        return [('set', f'{O}.setMem {st_} {t}')]

    def h_save(st, tr, env):
        c = _call_of(st, (save_fn,))
        if len(c.args) != 2: raise Untranslatable(save_fn + ' arguments')
        d, dty = tr.expr(c.args[0])
        if dty != 'data': raise Untranslatable(save_fn + ' of a non-dataset')
        nm = nameref(c.args[1], tr, env)
        eng = opt_engine(tr, _kwarg(c, 'engine'))
        st_ = env['$trace'][0]
        steps = [('op', f'{O}.saveData {st_} {d} {nm} {eng}')]
        key = ast.unparse(c.args[0])
        if key == mem:
            # the writer may rewrite the object it is given in place (attributes): memory holds that object
            steps.append(('set', f'{O}.setMem {st_} ({O}.afterSave {eng} {d})'))
        elif key in env and isinstance(c.args[0], ast.Name):
            steps.append(('let', key, f'({O}.afterSave {eng} {d})', 'data'))
        else:
            raise Untranslatable('saved object is not a name')
        return steps

    def h_fileop(opname, nargs):
        def h(st, tr, env):
            c = st.value
            if len(c.args) != nargs or c.keywords: raise Untranslatable(opname + ' arguments')
            names = ' '.join(nameref(a, tr, env) for a in c.args)
            return [('op', f'{O}.{opname} {env["$trace"][0]} {names}')]
        return h

    def h_inner(sk, with_new):
        def h(st, tr, env):
            c = st.value
            # positional index of `engine`: load_full_ds(chunks, engine), load_full_df(engine), save_full_*(new, engine)
            pos = 1 if (with_new or kind == 'ds') else 0
            eng = opt_engine(tr, _kwarg(c, 'engine', pos))
            st_ = env['$trace'][0]
            if with_new:
                new = _kwarg(c, 'new_full_' + kind, 0)
                if new is None: raise Untranslatable('saving without a new table from the add method')
                d, dty = tr.expr(new)
                if dty != 'data': raise Untranslatable('new table type')
                pre = 'dataNameNone ' if kind == 'ds' else ''
                return [('op', f'{sk} {O} {pre}true {d} {eng} {st_}')]
            return [('op', f'{sk} {O} {eng} {st_}')]
        return h

    def after_try(s, tr, env):
        """the writer rewrites the object it is given in place: a local handed to it inside a `try` body (at its top
        level, so it was certainly reached when the code after the `try` runs) is that rewritten object afterwards"""
        steps = []
        for b in s.body:
            c = _call_of(b, (save_fn,)) if isinstance(b, ast.Expr) else None
            if c is not None and len(c.args) == 2 and isinstance(c.args[0], ast.Name) and c.args[0].id in env \
                    and env[c.args[0].id][1] == 'data':
                d, _ = tr.expr(c.args[0])
                steps.append(('let', c.args[0].id, f'({O}.afterSave {opt_engine(tr, _kwarg(c, "engine"))} {d})', 'data'))
        return steps

    def is_noeffect(st):
        """statements outside the modelled domain (inputs are plain datasets, no dask chunks) or without effect on it"""
        if isinstance(st, ast.If) and not st.orelse:
            t = ast.unparse(st.test)
            names = {n.id for n in ast.walk(st.test) if isinstance(n, ast.Name)}
            if t.startswith('isinstance(new_') and all(isinstance(b, ast.Assign) for b in st.body): return True
            if names == {'chunks'} or (names <= {'chunks', 'self'} and 'chunks' in names):
                return all(isinstance(b, ast.Assign) and ast.unparse(b.targets[0]) in ('chunks', 'new_ds') for b in st.body)
            if t == f'{mem} is not None' and len(st.body) == 1 and ast.unparse(st.body[0]) == f'{mem}.close()': return True
        if isinstance(st, ast.If) and ast.unparse(st.test) == 'chunks is None' and not st.orelse: return True
        return False

    def is_pass_elif(st):
        return False

    def h_merge(st, tr, env):
        key = st.targets[0].id
        v = st.value
        st_ = env['$trace'][0]
        if isinstance(v, ast.Call) and isinstance(v.func, ast.Attribute) and v.func.attr == 'copy' and \
                ast.unparse(v.func.value) in new_names:
            src, _ = tr.expr(v.func.value)
            return [('let', key, f'({O}.copy {src})', 'data')]
        if kind == 'ds':
            mk = _merge_kind(v, mem, new_names[0])
            return [('val', f'{O}.merge {mk} ({O}.mem {st_}) {tr.expr(ast.Name(id=new_names[0]))[0]}', [(key, _lean(key), 'data')])]
        if isinstance(v, ast.Call) and ast.unparse(v.func) == 'pd.concat' and len(v.args) == 1 and \
                ast.unparse(v.args[0]) in (f'[{mem}, {new_names[0]}]', f'({mem}, {new_names[0]})'):
            kw = {k.arg: ast.unparse(k.value) for k in v.keywords}
            if kw.get('ignore_index') == 'True' and set(kw) <= {'ignore_index', 'sort'}:
                return [('let', key, f'({O}.concat ({O}.mem {st_}) {tr.expr(ast.Name(id=new_names[0]))[0]})', 'data')]
        raise NotFound('merge expression not recognised: ' + ast.unparse(v)[:80])

    def is_merge(st):
        return isinstance(st, ast.Assign) and len(st.targets) == 1 and isinstance(st.targets[0], ast.Name) and \
            st.targets[0].id.startswith('new_full_') and isinstance(st.value, ast.Call)

    return after_try, [
        (is_noeffect, lambda st, tr, env: []),
        (is_split, h_split),
        (is_alias, h_alias),
        (is_set_mem, h_set_mem),
        (is_merge, h_merge),
        (lambda st: isinstance(st, ast.Expr) and _call_of(st, (save_fn,)) is not None, h_save),
        (lambda st: isinstance(st, ast.Expr) and _call_of(st, ('os.replace',)) is not None, h_fileop('replace', 2)),
        (lambda st: isinstance(st, ast.Expr) and _call_of(st, ('os.remove',)) is not None, h_fileop('remove', 1)),
        (lambda st: isinstance(st, ast.Expr) and _call_of(st, ('shutil.rmtree',)) is not None, h_fileop('rmtree', 1)),
        (lambda st: isinstance(st, ast.Expr) and _call_of(st, (load_m,)) is not None, h_inner(load_sk, False)),
        (lambda st: isinstance(st, ast.Expr) and _call_of(st, (save_m,)) is not None, h_inner(save_sk, True)),
    ]


def _lean(key):
    name = key.strip('_')
    return ''.join(w if i == 0 else w.capitalize() for i, w in enumerate(name.split('_')))


class _QueryEnv(dict):
    """environment whose look-ups also recognise file queries `os.access(<name>, os.W_OK)`, `os.path.isfile(<name>)`,
    `os.path.exists(<name>)` on a recognised name"""
    pass


def _base_env(O, mem, kind):
    return {
        'self.engine': (f'({O}.selfEngine st)', 'tok'),
        'engine': ('engine', 'otok'),
        "engine == 'zarr'": (f'({O}.isZarr engine)', 'bool'),
        mem: (f'({O}.mem st)', 'data'),
        f'{mem} is None': (f'({O}.memIsNone st)', 'bool'),
        f'{mem} is not None': (f'(!{O}.memIsNone st)', 'bool'),
        'self.data_name is None': ('dataNameNone', 'bool'),
        'self.data_name is not None': ('(!dataNameNone)', 'bool'),
    }


from pyst2lean import StTr
from pyfn2lean import Tr2


class _Tr(Tr2):
    """expression translator that knows the three file queries"""
    O = 'o'
    fenv = None

    def expr(self, e):
        if isinstance(e, ast.Call) and not e.keywords:
            fn = ast.unparse(e.func)
            q = {'os.access': 'accessW', 'os.path.isfile': 'isFile', 'os.path.exists': 'pathExists'}.get(fn)
            if q and ((fn == 'os.access' and len(e.args) == 2 and ast.unparse(e.args[1]) == 'os.W_OK') or
                      (fn != 'os.access' and len(e.args) == 1)):
                return f'({self.O}.{q} {self.env["$trace"][0]} {nameref(e.args[0], self, self.env)})', 'bool'
        return super().expr(e)


class _StTr(StTr):
    def tr(self, env):
        return _Tr(env, self.spec.num)


def _translate(spec, T):
    f = find(T[spec.file], spec.path)
    tr = _StTr(spec, T, find)
    return '\n' + tr.block(list(f.body), dict(spec.env), '  ')


def _method(T, cls, name):
    return find(T['farming'], [cls, name])


# ---------------------------------------------------------------------------------------------- Harvester / Sampler
def _sk(cls, meth, mem, new_names, kind, extra):
    def a(T):
        f = _method(T, cls, meth)
        env = _base_env('o', mem, kind)
        env.update(extra)
        after_try, hs = handlers(f, 'o', mem, new_names, kind)
        spec = StSpec('farming', [cls, meth], env, handlers=hs)
        spec.after_try = after_try
        spec.mem_attr = mem
        return _translate(spec, T)
    return a


def _new(nm, lean):
    return {nm: (lean, 'data'), f'{nm} is not None': ('newGiven', 'bool'), f'{nm} is None': ('(!newGiven)', 'bool')}


a_hvLoadFull = _sk('Harvester', 'load_full_ds', 'self._full_ds', ['new_ds'], 'ds', {})
a_hvSaveFull = _sk('Harvester', 'save_full_ds', 'self._full_ds', ['new_full_ds'], 'ds', _new('new_full_ds', 'newFullDs'))
a_hvAddDs = _sk('Harvester', 'add_ds', 'self._full_ds', ['new_ds'], 'ds',
                {'new_ds': ('newDs', 'data'), 'sync': boo('sync'), 'overwrite': ('overwrite', 'obool')})
a_smLoadFull = _sk('Sampler', 'load_full_df', 'self._full_df', ['new_df'], 'df', {})
a_smSaveFull = _sk('Sampler', 'save_full_df', 'self._full_df', ['new_full_df'], 'df', _new('new_full_df', 'newFullDf'))
a_smAddDf = _sk('Sampler', 'add_df', 'self._full_df', ['new_df'], 'df', {'new_df': ('newDf', 'data'), 'sync': boo('sync')})


_OPS = '{S D G E : Type} (o : StoreOps S D G E)'
_RES = '(st : S) : S × Option E'
ANCHORS = [
    ('hvLoadFull', f'{_OPS} (engine : Option G) {_RES}', a_hvLoadFull),
    ('hvSaveFull', f'{_OPS} (dataNameNone newGiven : Bool) (newFullDs : D) (engine : Option G) {_RES}', a_hvSaveFull),
    ('hvAddDs', f'{_OPS} (dataNameNone sync : Bool) (overwrite : Option Bool) (newDs : D) (engine : Option G) {_RES}', a_hvAddDs),
    ('smLoadFull', f'{_OPS} (engine : Option G) {_RES}', a_smLoadFull),
    ('smSaveFull', f'{_OPS} (newGiven : Bool) (newFullDf : D) (engine : Option G) {_RES}', a_smSaveFull),
    ('smAddDf', f'{_OPS} (dataNameNone sync : Bool) (newDf : D) (engine : Option G) {_RES}', a_smAddDf),
]
