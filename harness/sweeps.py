"""Generators, real-API drivers and canonicalisers shared by the sweep properties (C01, C02, C03, ...)."""
import os, random, itertools, math, json
import common, fns
from common import canon

KINDS_BASIC = [
    {'scalar': 'num'}, {'scalar': 'str'}, {'scalar': 'bool'}, {'scalar': 'int'},
    {'tuple': [[[], 'num'], [[], 'num']]}, {'tuple': [[[], 'num'], [[2], 'num'], [[], 'int']]},
    {'tuple': [[[2, 2], 'num'], [[], 'num']]},
    {'arr': [[3], 'num']}, {'arr': [[2, 3], 'num']},
]
KIND_DS = {'ds': [['u', [], 'num'], ['v', [2], 'num']]}


def model_kind(kind):
    """the model only knows leaves num/bool/str"""
    def lf(l): return 'num' if l == 'int' else l
    k = next(iter(kind)); v = kind[k]
    if k == 'scalar': return {'scalar': lf(v)}
    if k == 'arr': return {'arr': [v[0], lf(v[1])]}
    if k == 'tuple': return {'tuple': [[sh, lf(l)] for sh, l in v]}
    return {'ds': [[n, sh, lf(l)] for n, sh, l in v]}


def n_outputs(kind):
    k = next(iter(kind))
    return len(kind[k]) if k == 'tuple' else 0


def gen_values(rng, k, allow_mixed=False, numix=False):
    if allow_mixed and k >= 2 and rng.random() < 0.2:
        return common.make_values(rng, k, 'mixed')        # combos are never sorted: any rank order will do
    if numix and k >= 2 and rng.random() < 0.2:
        return sorted(common.make_values(rng, k, 'numix'))   # ints and floats in one case argument: the union is sorted by value
    return sorted(common.make_values(rng, k))


def gen_sweep(rng, n_case_args=0, n_cases=0, n_combo_args=(1, 5), n_vals=(1, 4), max_settings=300, mixed=False):
    """a sweep description: names, sorted distinct values per arg, combo order (ranks), case rows (ranks)"""
    while True:
        nca = n_case_args if isinstance(n_case_args, int) else rng.randint(*n_case_args)
        ncb = n_combo_args if isinstance(n_combo_args, int) else rng.randint(*n_combo_args)
        names = common.ARG_NAMES[:]
        rng.shuffle(names)
        case_args, combo_args = names[:nca], names[nca:nca + ncb]
        values, combo_order = {}, {}
        total = 1
        for a in combo_args:
            k = rng.randint(*n_vals)
            values[a] = gen_values(rng, k, allow_mixed=mixed)
            order = list(range(k)); rng.shuffle(order)
            combo_order[a] = order
            total *= k
        rows = None
        if nca:
            for a in case_args:
                values[a] = gen_values(rng, rng.randint(1, 4), numix=True)
            box = list(itertools.product(*(range(len(values[a])) for a in case_args)))
            nc = n_cases if isinstance(n_cases, int) else rng.randint(*n_cases)
            nc = max(1, min(nc, len(box)))
            rows = [list(r) for r in rng.sample(box, nc)]
            # coordinates are the union of the values that actually occur: re-rank
            for j, a in enumerate(case_args):
                used = sorted({r[j] for r in rows})
                values[a] = [values[a][u] for u in used]
                for r in rows: r[j] = used.index(r[j])
            total *= nc
        if total <= max_settings:
            break
    consts = {}
    for i in range(rng.choice([0, 0, 1, 2])):
        consts['k%d' % i] = rng.choice([7, 2.5, 'cc'])
    return {'case_args': case_args, 'combo_args': combo_args, 'values': values, 'combo_order': combo_order,
            'rows': rows, 'consts': consts}


def sweep_request(sw):
    rq = {'caseArgs': sw['case_args'], 'comboArgs': sw['combo_args'],
          'comboVals': [sw['combo_order'][a] for a in sw['combo_args']]}
    if sw['rows'] is not None:
        rq['caseRows'] = sw['rows']
    return rq


def py_combos(sw, spelling='dict'):
    pairs = [(a, [sw['values'][a][r] for r in sw['combo_order'][a]]) for a in sw['combo_args']]
    if not pairs: return None
    if spelling == 'dict': return dict(pairs)
    if spelling == 'pairs': return [(a, tuple(v)) for a, v in pairs]
    if spelling == 'single' and len(pairs) == 1: return (pairs[0][0], pairs[0][1])
    return pairs


def py_cases(sw, spelling='dict'):
    if sw['rows'] is None: return None
    rows = [[sw['values'][a][r] for a, r in zip(sw['case_args'], row)] for row in sw['rows']]
    if spelling == 'dict': return [dict(zip(sw['case_args'], r)) for r in rows]
    if spelling == 'dict_anyorder':
        # the same cases, each dict built in its own key order (the first keeps the canonical one: it defines case_args)
        out = []
        for i, r in enumerate(rows):
            items = list(zip(sw['case_args'], r))
            if i: items = items[i % len(items):] + items[:i % len(items)]
            out.append(dict(items))
        return out
    if spelling == 'bare' and len(sw['case_args']) == 1:
        return [r[0] for r in rows]             # one argument: the bare values, not 1-tuples
    return [tuple(r) for r in rows]


def fn_args(sw): return sw['case_args'] + sw['combo_args']
def sizes(sw): return [len(sw['values'][a]) for a in fn_args(sw)]


def make_rec(sw, kind, **extra):
    spec = {'args': fn_args(sw), 'values': sw['values'], 'kind': kind}
    spec.update(extra)
    return fns.Rec(spec)


def n_settings(sw):
    n = 1
    for a in sw['combo_args']: n *= len(sw['values'][a])
    return n * (len(sw['rows']) if sw['rows'] is not None else 1)


# ----------------------------------------------------------------------------- rendering model output

def render_val(v):
    """canonical form of a model Val (placeholder kinds)"""
    k = next(iter(v)); x = v[k]

    def leaf(l): return 'nan' if l == 'nan' else None if l == 'none' else '?' + l

    def fill(sh, l):
        if not sh: return leaf(l)
        return [fill(sh[1:], l) for _ in range(sh[0])]
    if k == 'scalar': return leaf(x)
    if k == 'arr': return fill(x[0], x[1])
    if k == 'tuple': return [fill(sh, l) for sh, l in x]
    if k == 'ds': return {n: fill(sh, l) for n, sh, l in x}


def expected(out, kind, sz):
    """substitute the model's symbolic leaves by the canonical value a recording function of `kind` returns"""
    if isinstance(out, list):
        return [expected(o, kind, sz) for o in out]
    if 'r' in out:
        return canon(fns.render(kind, fns.code_of_ranks(out['r'], sz)))
    if 'c' in out:
        loc, j = out['c']
        return canon(fns.render(kind, fns.code_of_ranks(loc, sz))[j])
    if 'm' in out:
        return render_val(out['m'])
    raise ValueError(out)


def canon_result(x):
    """canonical form of what the real API returned (nested tuples, numpy arrays, Datasets, dicts)"""
    import numpy as np
    try:
        import xarray as xr
        if isinstance(x, xr.Dataset):
            return {str(n): canon(x[n].values) for n in x.data_vars}
        if isinstance(x, xr.DataArray):
            return {str(x.name): canon(x.values)} if x.name is not None else canon(x.values)
    except ImportError:
        pass
    if isinstance(x, (tuple, list)):
        return [canon_result(v) for v in x]
    if isinstance(x, dict):
        def is_pair(v): return isinstance(v, tuple) and len(v) == 2 and isinstance(v[0], tuple) and all(isinstance(d, str) for d in v[0])
        return {str(k): (canon(np.asarray(v[1])) if is_pair(v) else canon_result(v)) for k, v in x.items()}
    return canon(x)


def canon_log(log, sw):
    """call log → sorted list of (ranks in fn_args order, sorted constants)"""
    out = []
    fa = fn_args(sw)
    for kw in log:
        try:
            ranks = [sw['values'][a].index(kw[a]) for a in fa]
            # the value itself must have been handed on, not something merely equal to it (1 == 1.0 == True)
            if any(type(kw[a]) is not type(sw['values'][a][r]) for a, r in zip(fa, ranks)):
                ranks = ['?type']
        except (KeyError, ValueError):
            ranks = ['?']
        rest = sorted((k, repr(v)) for k, v in kw.items() if k not in fa)
        out.append([ranks, rest])
    return out


# ----------------------------------------------------------------------------- executors

class _AdvFuture:
    def __init__(self, ex, i, style):
        self.ex, self.i = ex, i
        if style == 'submit':
            self.result = self._get
        else:
            self.get = self._get

    def _get(self):
        self.ex.force(self.i)
        r = self.ex.results[self.i]
        if isinstance(r, BaseException): raise r
        return r


class AdversarialExecutor:
    """completes the submitted calls lazily, in a seeded arbitrary order: asking for one result runs that call
    together with a random subset of the other pending ones, in random order"""

    def __init__(self, seed, style):
        self.rng = random.Random(seed)
        self.style = style
        self.calls, self.results, self.order = [], {}, []
        if style == 'submit':
            self.submit = self._submit
        else:
            self.apply_async = self._submit

    def _submit(self, fn, *args, **kw):
        i = len(self.calls)
        self.calls.append((fn, args, kw))
        return _AdvFuture(self, i, self.style)

    def force(self, i):
        if i in self.results: return
        pending = [j for j in range(len(self.calls)) if j not in self.results and j != i]
        batch = self.rng.sample(pending, self.rng.randint(0, len(pending))) + [i]
        self.rng.shuffle(batch)
        for j in batch:
            fn, args, kw = self.calls[j]
            try:
                self.results[j] = fn(*args, **kw)
            except Exception as e:
                self.results[j] = e
            self.order.append(j)


_POOLS = {}


def get_executor(name):
    import concurrent.futures as cf, multiprocessing, multiprocessing.pool
    if name not in _POOLS:
        if name == 'cf_thread': _POOLS[name] = cf.ThreadPoolExecutor(3)
        elif name == 'cf_process': _POOLS[name] = cf.ProcessPoolExecutor(2, mp_context=multiprocessing.get_context('spawn'))
        elif name == 'mp_pool': _POOLS[name] = multiprocessing.get_context('spawn').Pool(2)
        elif name == 'mp_thread': _POOLS[name] = multiprocessing.pool.ThreadPool(3)
    return _POOLS[name]


def shutdown_executors():
    for n, p in list(_POOLS.items()):
        try:
            if hasattr(p, 'shutdown'): p.shutdown(wait=True, cancel_futures=True)
            else: p.terminate(); p.join()
        except Exception:
            pass
    _POOLS.clear()
    try:
        from joblib.externals.loky import get_reusable_executor
        get_reusable_executor().shutdown(wait=True, kill_workers=True)
    except Exception:
        pass


STRATEGIES = ['seq', 'shuffle_true', 'shuffle_int', 'parallel_true', 'num_workers', 'parallel_int',
              'cf_thread', 'cf_process', 'mp_pool', 'mp_thread', 'adv_submit', 'adv_apply']


def strategy_opts(st):
    """(kwargs for the runner, shuffle seed or 0, adversarial executor or None)"""
    name, seed = st['name'], st.get('shuffle', 0)
    kw, adv = {}, None
    if name == 'shuffle_true': seed = 1; kw['shuffle'] = True
    elif seed: kw['shuffle'] = seed
    w = st.get('workers')              # size of the library's own (default) process pool, where the strategy has one
    if name == 'parallel_true':
        kw['parallel'] = True
        if w: kw['num_workers'] = w
    elif name == 'num_workers': kw['num_workers'] = w or 2
    elif name == 'parallel_int': kw['parallel'] = w or 2
    elif name in ('cf_thread', 'cf_process', 'mp_pool', 'mp_thread'): kw['executor'] = get_executor(name)
    elif name in ('adv_submit', 'adv_apply'):
        adv = AdversarialExecutor(st.get('adv_seed', 0), 'submit' if name == 'adv_submit' else 'apply')
        kw['executor'] = adv
    return kw, seed, adv


def gen_strategy(rng, heavy_ok=True):
    light = ['seq', 'shuffle_true', 'shuffle_int', 'adv_submit', 'adv_apply', 'cf_thread', 'mp_thread']
    heavy = ['parallel_true', 'num_workers', 'parallel_int', 'cf_process', 'mp_pool']
    name = rng.choice(light * 3 + (heavy if heavy_ok else []))
    st = {'name': name}
    if name == 'shuffle_int': st['shuffle'] = rng.randint(1, 50)
    elif name not in ('seq', 'shuffle_true') and rng.random() < 0.4: st['shuffle'] = rng.randint(1, 50)
    if name.startswith('adv'): st['adv_seed'] = rng.randrange(10 ** 6)
    return st


def strategy_request(st, n, seed, adv):
    s = {}
    if seed: s['shuffled'] = common.perm(seed, n)
    if adv is not None: s['executor'] = list(adv.order)
    return s
