"""Extraction anchors for C16 (generated cluster scripts), DESIGN.md Appendix D rows "cropping.py: templates / decision chain".

* every module-level script-template constant of `xyzpy/gen/cropping.py` is evaluated from the AST by a tiny safe
  evaluator (string constants, `+`, earlier names; the module is never imported) and emitted as a Lean `String`;
* the decision logic of `gen_cluster_script` that C16 depends on is recovered by a small *concrete walker* of the
  function body: for each configuration (scheduler, mode, array_mode) the `if` tests that compare these three names with
  string constants are evaluated, and the assignments to `script` / `opts[...]` that are reached are collected.
  From these: which templates are concatenated (`scriptPieces`), `run_start`, `run_stop` per array mode, the
  "compute ids dynamically" override of single mode, the PBS size-1 rewrite;
* the `batch_ids` / `array_mode` decision chain is translated test by test (`scriptIdsChoice`).

Anything whose shape is not recognised raises NotFound/Untranslatable => the anchor falls back to
`Gen.Default.<name>` (lean/XyzModel/Gen/DefaultScript.lean) and is reported as `fallback`.
"""
import ast
from pyexpr2lean import translate, Untranslatable, lean_str

FILES = {'cropping': 'xyzpy/gen/cropping.py'}


class NotFound(ValueError):
    """shape not recognised (a ValueError, so that extract.generate records it as `fallback`)"""


# ----------------------------------------------------------------------------- module constants

TEMPLATES = [
    ('_SGE_HEADER', 'tplSgeHeader'), ('_SGE_ARRAY_HEADER', 'tplSgeArrayHeader'),
    ('_PBS_HEADER', 'tplPbsHeader'), ('_PBS_ARRAY_HEADER', 'tplPbsArrayHeader'),
    ('_SLURM_HEADER', 'tplSlurmHeader'), ('_SLURM_ARRAY_HEADER', 'tplSlurmArrayHeader'),
    ('_BASE', 'tplBase'), ('_ARRAY_GROW_KWARGS', 'tplArrayGrowKwargs'),
    ('_CLUSTER_SGE_GROW_ALL_SCRIPT', 'tplSgeGrowAll'), ('_CLUSTER_PBS_GROW_ALL_SCRIPT', 'tplPbsGrowAll'),
    ('_CLUSTER_SLURM_GROW_ALL_SCRIPT', 'tplSlurmGrowAll'),
    ('_CLUSTER_SGE_GROW_PARTIAL_SCRIPT', 'tplSgeGrowPartial'), ('_CLUSTER_PBS_GROW_PARTIAL_SCRIPT', 'tplPbsGrowPartial'),
    ('_CLUSTER_SLURM_GROW_PARTIAL_SCRIPT', 'tplSlurmGrowPartial'),
    ('_BASE_CLUSTER_GROW_SINGLE', 'tplGrowSingle'), ('_BASE_CLUSTER_SCRIPT_END', 'tplScriptEnd'),
]
PY2LEAN = dict(TEMPLATES)


class _NotConst(Exception):
    pass


def chars(s):
    """a Python str as a Lean `List Char`: `chars! "..."` is expanded to a char-list literal when the generated file is
    elaborated (macro in Gen/DefaultScript.lean), so the kernel never has to decode a `String` in the proofs"""
    return 'chars! ' + lean_str(s)


def _ev(e, env):
    """value of a module-level constant expression: str constants, earlier names, `+`"""
    if isinstance(e, ast.Constant) and isinstance(e.value, str):
        return e.value
    if isinstance(e, ast.Name) and e.id in env:
        return env[e.id]
    if isinstance(e, ast.BinOp) and isinstance(e.op, ast.Add):
        return _ev(e.left, env) + _ev(e.right, env)
    raise _NotConst(ast.dump(e)[:80])


def module_constants(tree):
    env = {}
    for st in tree.body:
        if isinstance(st, ast.Assign) and len(st.targets) == 1 and isinstance(st.targets[0], ast.Name):
            try:
                env[st.targets[0].id] = _ev(st.value, env)
            except _NotConst:
                env.pop(st.targets[0].id, None)
    return env


def _tpl(pyname):
    def f(T):
        env = module_constants(T['cropping'])
        if pyname not in env:
            raise NotFound('module constant ' + pyname)
        return chars(env[pyname])
    return f


# ----------------------------------------------------------------------------- concrete walker of gen_cluster_script

CFG_NAMES = ('scheduler', 'mode', 'array_mode')
SCHEDS, MODES, AMODES = ('sge', 'pbs', 'slurm'), ('array', 'single'), ('all', 'partial')


def _func(T):
    for n in T['cropping'].body:
        if isinstance(n, ast.FunctionDef) and n.name == 'gen_cluster_script':
            return n
    raise NotFound('gen_cluster_script')


class _Unknown(Exception):
    pass


def _test(e, cfg):
    """concrete value of a test that only compares scheduler/mode/array_mode with string constants"""
    if isinstance(e, ast.BoolOp):
        vals = [_test(v, cfg) for v in e.values]
        return all(vals) if isinstance(e.op, ast.And) else any(vals)
    if isinstance(e, ast.UnaryOp) and isinstance(e.op, ast.Not):
        return not _test(e.operand, cfg)
    if isinstance(e, ast.Compare) and len(e.ops) == 1 and isinstance(e.left, ast.Name) and e.left.id in CFG_NAMES:
        l, op, r = cfg[e.left.id], e.ops[0], e.comparators[0]
        if isinstance(r, ast.Constant) and isinstance(r.value, str):
            if isinstance(op, ast.Eq): return l == r.value
            if isinstance(op, ast.NotEq): return l != r.value
        if isinstance(r, (ast.Tuple, ast.List, ast.Set)) and all(isinstance(x, ast.Constant) for x in r.elts):
            if isinstance(op, ast.In): return l in [x.value for x in r.elts]
            if isinstance(op, ast.NotIn): return l not in [x.value for x in r.elts]
    raise _Unknown(ast.unparse(e))


def _target(t):
    if isinstance(t, ast.Name): return t.id
    if isinstance(t, ast.Subscript) and isinstance(t.value, ast.Name) and t.value.id == 'opts':
        return ast.unparse(t)
    return None


def _mentions(node, name):
    return any(isinstance(n, ast.Name) and n.id == name for n in ast.walk(node))


def _walk(stmts, cfg, guards, out):
    for st in stmts:
        if isinstance(st, ast.Assign) and len(st.targets) == 1 and _target(st.targets[0]) is not None:
            tg, v = _target(st.targets[0]), st.value
            if isinstance(v, ast.BinOp) and isinstance(v.op, ast.Add) and isinstance(v.left, ast.Name) and v.left.id == tg:
                out.append((tg, v.right, tuple(guards), 'add'))          # `x = x + e` is `x += e`
            else:
                out.append((tg, v, tuple(guards), 'set'))
        elif isinstance(st, ast.AugAssign) and _target(st.target) is not None:
            if not isinstance(st.op, ast.Add): raise NotFound('augmented assignment other than +=')
            out.append((_target(st.target), st.value, tuple(guards), 'add'))
        elif isinstance(st, ast.If):
            try:
                v = _test(st.test, cfg)
            except _Unknown:
                _walk(st.body, cfg, guards + [st.test], out)
                _walk(st.orelse, cfg, guards + [ast.UnaryOp(ast.Not(), st.test)], out)
            else:
                _walk(st.body if v else st.orelse, cfg, guards, out)
        elif isinstance(st, (ast.For, ast.While, ast.With, ast.Try, ast.FunctionDef)):
            for sub in ast.walk(st):
                if isinstance(sub, (ast.Assign, ast.AugAssign)):
                    ts = sub.targets if isinstance(sub, ast.Assign) else [sub.target]
                    if any(_target(t) in ('script',) for t in ts):
                        raise NotFound('script assembled inside a compound statement')
    return out


def events(T, sched, mode, am):
    return _walk(_func(T).body, {'scheduler': sched, 'mode': mode, 'array_mode': am}, [], [])


def pieces(T, sched, mode, am):
    """Lean names of the templates concatenated into `script` for this configuration"""
    acc = None
    for tgt, val, guards, kind in events(T, sched, mode, am):
        if tgt != 'script': continue
        if kind == 'set' and _mentions(val, 'script'):
            # post-processing (format / replace): separate anchors.  Anything else that rebuilds `script` from itself is not
            # understood here: fall back rather than miss a piece
            v = val
            while isinstance(v, ast.Call) and isinstance(v.func, ast.Attribute) and v.func.attr in ('format', 'replace'):
                v = v.func.value
            if not (isinstance(v, ast.Name) and v.id == 'script'):
                raise NotFound('script rebuilt from itself in an unknown way: ' + ast.unparse(val)[:60])
            continue
        if guards:
            raise NotFound('template choice under a test that is not about scheduler/mode/array_mode')
        if not (isinstance(val, ast.Name) and val.id in PY2LEAN):
            raise NotFound('script piece is not a known template: ' + ast.unparse(val))
        if kind == 'set': acc = [PY2LEAN[val.id]]
        else:
            if acc is None: raise NotFound('script += before script =')
            acc.append(PY2LEAN[val.id])
    if not acc: raise NotFound('no script pieces')
    return acc


def a_scriptPieces(T):
    rows = []
    for s in SCHEDS:
        for m in MODES:
            for a in AMODES:
                ps = pieces(T, s, m, a)
                rows.append(f'if sched == {chars(s)} && mode == {chars(m)} && am == {chars(a)} then [{", ".join(ps)}]')
    return ' else '.join(rows) + ' else []'


def _opt_value(T, key, mode, am, allow_guards=False):
    """the value last assigned to opts[key] in array/single mode with this array_mode — must be the same for every scheduler"""
    dumps, node = set(), None
    for s in SCHEDS:
        evs = [(v, g) for tgt, v, g, k in events(T, s, mode, am) if tgt == f"opts['{key}']" and k == 'set']
        if not evs: raise NotFound(f'opts[{key!r}] not assigned for ({s}, {mode}, {am})')
        v, g = evs[-1]
        if g and not allow_guards: raise NotFound(f'opts[{key!r}] assigned under an unrecognised test')
        dumps.add(ast.dump(v)); node = v
    if len(dumps) != 1: raise NotFound(f'opts[{key!r}] differs between schedulers')
    return node


NUM_ENV = {'crop.num_batches': ('numBatches', 'num'), "len(opts['batch_ids'])": ('lenIds', 'num'),
           'len(batch_ids)': ('lenIds', 'num')}


def a_scriptRunStart(T):
    return translate(_opt_value(T, 'run_start', 'array', 'all'), NUM_ENV, 'num')


def a_scriptRunStopAll(T):
    if ast.dump(_opt_value(T, 'run_start', 'array', 'all')) != ast.dump(_opt_value(T, 'run_start', 'array', 'partial')):
        raise NotFound('run_start differs between array modes')
    return translate(_opt_value(T, 'run_stop', 'array', 'all'), NUM_ENV, 'num')


def a_scriptRunStopPartial(T):
    return translate(_opt_value(T, 'run_stop', 'array', 'partial'), NUM_ENV, 'num')


# ----------------------------------------------------------------------------- which ids: the batch_ids / array_mode chain

IDS_ENV = {'batch_ids is not None': ('explicitGiven', 'bool'), 'batch_ids is None': ('(!explicitGiven)', 'bool'),
           'crop.num_results': ('numResults', 'num'), 'crop._num_results': ('numResults', 'num'),
           'crop.num_batches': ('numBatches', 'num')}


def _ids_chain(T):
    f = _func(T)
    cands = [n for n in f.body if isinstance(n, ast.If)
             and any(isinstance(x, ast.Assign) and _target(x.targets[0]) == 'array_mode' for x in n.body)]
    if len(cands) != 1: raise NotFound(f'array_mode decision chain: {len(cands)} candidates')
    node, arms = cands[0], []
    while True:
        arms.append((node.test, node.body))
        if len(node.orelse) == 1 and isinstance(node.orelse[0], ast.If):
            node = node.orelse[0]
        else:
            arms.append((None, node.orelse)); break
    return arms


def _arm(body):
    am, src = None, None
    for st in body:
        if not (isinstance(st, ast.Assign) and len(st.targets) == 1): raise NotFound('statement in decision arm')
        t = _target(st.targets[0])
        if t == 'array_mode' and isinstance(st.value, ast.Constant) and st.value.value in AMODES:
            am = st.value.value
        elif t == "opts['batch_ids']":
            src = st.value
        else:
            raise NotFound('unexpected assignment in decision arm: ' + ast.unparse(st))
    if am is None or src is None: raise NotFound('decision arm incomplete')
    u = ast.unparse(src)
    if u == 'tuple(batch_ids)': sel = 0
    elif isinstance(src, ast.Call) and ast.unparse(src.func) == 'range' and len(src.args) in (1, 2) and not src.keywords: sel = 1
    elif u == 'crop.missing_results()': sel = 2
    else: raise NotFound('ids source not recognised: ' + u)
    return sel, am, src


def a_scriptIdsChoice(T):
    """(selector, array_mode == "all"): selector 0 = the requested ids, 1 = range(start, stop), 2 = crop.missing_results()"""
    out, close = '', ''
    for test, body in _ids_chain(T):
        sel, am, _ = _arm(body)
        val = f'(({sel} : Nat), {"true" if am == "all" else "false"})'
        if test is None:
            out += val
        else:
            out += f'(if {translate(test, IDS_ENV, "bool")} then {val} else '
            close += ')'
    return out + close


def _range_arg(T, i):
    rs = [src for sel, am, src in (_arm(b) for _, b in _ids_chain(T)) if sel == 1]
    if len(rs) != 1: raise NotFound('range(...) arm')
    args = rs[0].args
    if len(args) == 1:
        return '(0 : Int)' if i == 0 else translate(args[0], IDS_ENV, 'num')
    return translate(args[i], IDS_ENV, 'num')


def a_scriptAllRangeStart(T): return _range_arg(T, 0)
def a_scriptAllRangeStop(T): return _range_arg(T, 1)


# ----------------------------------------------------------------------------- single mode: ids computed by the job itself

def _single_dynamic(T):
    found = None
    for s in SCHEDS:
        for a in AMODES:
            evs = [(v, g) for tgt, v, g, k in events(T, s, 'single', a) if tgt == "opts['batch_ids']" and k == 'set'
                   and isinstance(v, ast.Constant) and isinstance(v.value, str)]
            if len(evs) != 1 or len(evs[0][1]) != 1: raise NotFound('single-mode dynamic ids')
            key = (evs[0][0].value, ast.dump(evs[0][1][0]))
            if found is not None and key != found[0]: raise NotFound('single-mode dynamic ids differ')
            found = (key, evs[0])
            if any(tgt == "opts['batch_ids']" and isinstance(v, ast.Constant) for tgt, v, g, k in events(T, s, 'array', a)):
                raise NotFound('dynamic ids also in array mode')
    return found[1]


def a_scriptSingleDynamic(T):
    v, g = _single_dynamic(T)
    return translate(g[0], IDS_ENV, 'bool')


def a_scriptSingleDynamicIds(T):
    v, g = _single_dynamic(T)
    return chars(v.value)


# ----------------------------------------------------------------------------- PBS size-1 rewrite

def _pbs_if(T):
    f = _func(T)
    cands = []
    for n in f.body:
        if isinstance(n, ast.If) and len(n.body) == 1 and isinstance(n.body[0], ast.Assign) \
                and _target(n.body[0].targets[0]) == 'script' and 'replace' in ast.unparse(n.body[0].value):
            cands.append(n)
    if len(cands) != 1: raise NotFound(f'PBS rewrite: {len(cands)} candidates')
    if cands[0].orelse: raise NotFound('PBS rewrite has an else')
    return cands[0]


def a_scriptPbsRewrite(T):
    env = {"scheduler == 'pbs'": ('isPbs', 'bool'), "len(opts['batch_ids'])": ('lenIds', 'num')}
    return translate(_pbs_if(T).test, env, 'bool')


def a_scriptPbsReplacements(T):
    v = _pbs_if(T).body[0].value
    pairs = []
    while isinstance(v, ast.Call) and isinstance(v.func, ast.Attribute) and v.func.attr == 'replace':
        if len(v.args) != 2 or v.keywords or not all(isinstance(a, ast.Constant) and isinstance(a.value, str) for a in v.args):
            raise NotFound('replace arguments')
        pairs.append((v.args[0].value, v.args[1].value))
        v = v.func.value
    if not (isinstance(v, ast.Name) and v.id == 'script') or not pairs: raise NotFound('replace chain')
    pairs.reverse()                                     # innermost call is applied first
    return '[' + ', '.join(f'({chars(a)}, {chars(b)})' for a, b in pairs) + ']'


ANCHORS = [(lean, ': List Char', _tpl(py)) for py, lean in TEMPLATES] + [
    ('scriptPieces', '(sched mode am : List Char) : List (List Char)', a_scriptPieces),
    ('scriptIdsChoice', '(explicitGiven : Bool) (numResults numBatches : Int) : Nat × Bool', a_scriptIdsChoice),
    ('scriptAllRangeStart', '(numBatches : Int) : Int', a_scriptAllRangeStart),
    ('scriptAllRangeStop', '(numBatches : Int) : Int', a_scriptAllRangeStop),
    ('scriptRunStart', '(numBatches lenIds : Int) : Int', a_scriptRunStart),
    ('scriptRunStopAll', '(numBatches lenIds : Int) : Int', a_scriptRunStopAll),
    ('scriptRunStopPartial', '(numBatches lenIds : Int) : Int', a_scriptRunStopPartial),
    ('scriptSingleDynamic', '(explicitGiven : Bool) : Bool', a_scriptSingleDynamic),
    ('scriptSingleDynamicIds', ': List Char', a_scriptSingleDynamicIds),
    ('scriptPbsRewrite', '(isPbs : Bool) (lenIds : Int) : Bool', a_scriptPbsRewrite),
    ('scriptPbsReplacements', ': List (List Char × List Char)', a_scriptPbsReplacements),
]
