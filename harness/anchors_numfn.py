"""Function-level extraction for the numerical family (C19, C20): whole method bodies of xyzpy/utils.py translated to
Lean on every run by harness/pynum2lean.py.

    RunningStatistics.__init__ / update / var / std / err / rel_err / converged / update_from_it
                                            ↦ Gen.rsInit rsUpdate rsVar rsStd rsErr rsRelErr rsConverged rsUpdateFromIt
    RunningCovariance.__init__ / update / covar / sample_covar / update_from_it
                                            ↦ Gen.rcInit rcUpdate rcCovar rcSampleCovar rcUpdateFromIt
    estimate_from_repeats (the whole body: the counted loop with its two tests in source order, the get= modes)
                                            ↦ Gen.estimateFromRepeats
    format_number_with_error (the whole body)
                                            ↦ Gen.fmtNumberWithError

Real numbers are an abstract type `K` (field operations, `<`, numerals) with `abs`, `sqrt` (`** 0.5`) and `inf`
(`np.inf`) as parameters; floats whose *decimal formatting* matters are an opaque type `F` with the formatting
primitives as parameters.  `XyzProofs/Refine/Num.lean` and `Refine/Fmt.lean` prove that the hand-written models
`Stats.*` / `Fmt.format` are these definitions instantiated with the models' primitives, and state the stopping-rule
and read-back theorems directly on them.  Last-good definitions: `Gen/DefaultNumFn.lean` (tools/update_default_numfn.py).
"""
import ast
from pyexpr2lean import Untranslatable
from pynum2lean import Fn, Method, Ex, FmtEx, translate_body


class NotFound(ValueError):
    pass


def find(node, path):
    for name in path:
        for n in ast.walk(node):
            if isinstance(n, (ast.FunctionDef, ast.ClassDef)) and n.name == name and n is not node:
                node = n
                break
        else:
            raise NotFound('/'.join(path))
    return node


KALG = '{K : Type} [Add K] [Sub K] [Mul K] [Div K] [NatCast K] [LT K] [DecidableLT K] [DecidableEq K]'
KFULL = KALG + ' (abs sqrt : K → K) (inf : K)'
PRE = 'abs sqrt inf'

RS_ATTRS = ['count', 'mean', 'M2']
RC_ATTRS = ['count', 'xmean', 'ymean', 'C']


def _prop(lean, state, prefix):
    m = Method(lean, prefix, state, ret='k'); m.is_prop = True
    return m


def _meth(lean, state, prefix, args, ret=None, updates=None):
    m = Method(lean, prefix, state, args=args, ret=ret, updates=updates); m.is_prop = False
    return m


METHODS = {
    'RS': {
        'update': _meth('rsUpdate', RS_ATTRS, '', ['k'], updates=RS_ATTRS),
        'update_from_it': _meth('rsUpdateFromIt', RS_ATTRS, '', ['klist'], updates=RS_ATTRS),
        'var': _prop('rsVar', RS_ATTRS, PRE),
        'std': _prop('rsStd', RS_ATTRS, PRE),
        'err': _prop('rsErr', RS_ATTRS, PRE),
        'rel_err': _prop('rsRelErr', RS_ATTRS, PRE),
        'converged': _meth('rsConverged', RS_ATTRS, PRE, ['k', 'k'], ret='bool'),
    },
    'RC': {
        'update': _meth('rcUpdate', RC_ATTRS, '', ['k', 'k'], updates=RC_ATTRS),
        'update_from_it': _meth('rcUpdateFromIt', RC_ATTRS, '', ['klist', 'klist'], updates=RC_ATTRS),
        'covar': _prop('rcCovar', RC_ATTRS, ''),
        'sample_covar': _prop('rcSampleCovar', RC_ATTRS, ''),
    },
}
CLASSES = {
    'RunningStatistics': ('RS', [(a, a, 'k') for a in RS_ATTRS], '(rsInit (K := K))'),
    'RunningCovariance': ('RC', [(a, a, 'k') for a in RC_ATTRS], '(rcInit (K := K))'),
}


def _self_env(attrs, extra=None):
    env = {f'self.{a}': (a, 'k') for a in attrs}
    env['np.inf'] = ('inf', 'k')
    env.update(extra or {})
    return env


def _method(cls_py, cls_key, attrs, name, params=None, value=None):
    """translator of one method; `value` = type of the returned value (None: the method updates the state)"""
    def go(T):
        f = find(T['utils'], [cls_py, name])
        args = [a.arg for a in f.args.args]
        want = ['self'] + [p for p, _ in (params or [])]
        if args != want or f.args.vararg or f.args.kwarg or f.args.kwonlyargs or f.args.defaults:
            raise NotFound(f'{cls_py}.{name}: parameters {args}')
        env = _self_env(attrs, {p: (p, ty) for p, ty in (params or [])})
        if value is None:
            def ret(fn, e, v):
                if v is not None and not (isinstance(v, ast.Constant) and v.value is None):
                    raise Untranslatable('unexpected return value')
                return '(' + ', '.join(e[f'self.{a}'][0] for a in attrs) + ')'
            end = lambda e: '(' + ', '.join(e[f'self.{a}'][0] for a in attrs) + ')'
        else:
            def ret(fn, e, v):
                if v is None: raise Untranslatable('return without a value')
                ex = fn.ex(e, fn)
                if value == 'k': return ex.to_k(v)
                t, ty = ex.expr(v)
                if ty != value: raise Untranslatable(f'returned {ty}, declared {value}')
                return t

            def end(e):
                raise Untranslatable('a path returns nothing')
        fn = Fn(env, objects={'self': cls_key}, methods=METHODS, ret=ret, classes=CLASSES)
        return translate_body(fn, f.body, end)
    return go


# ----------------------------------------------------------------------------- estimate_from_repeats

def _skip_progress(s):
    """statements about the progress bar / printing: no effect on the statistics"""
    if isinstance(s, ast.If) and 'verbosity' in ast.unparse(s.test):
        names = {ast.unparse(t) for n in ast.walk(s) if isinstance(n, (ast.Assign, ast.AugAssign))
                 for t in (n.targets if isinstance(n, ast.Assign) else [n.target])}
        if names <= {'repeats'} and not any(isinstance(n, (ast.Break, ast.Return, ast.Continue, ast.Raise)) for n in ast.walk(s)):
            calls = {ast.unparse(n.func) for n in ast.walk(s) if isinstance(n, ast.Call)}
            if calls <= {'progbar', 'repeats.set_description', 'repeats.close', 'sys.stderr.flush', 'print',
                         'format_number_with_error'}:
                return True
    return False


def a_estimate(T):
    f = find(T['utils'], ['estimate_from_repeats'])
    kw = [a.arg for a in f.args.kwonlyargs]
    for need in ('rtol', 'tol_scale', 'get', 'min_samples', 'max_samples'):
        if need not in kw:
            raise NotFound('estimate_from_repeats: keyword ' + need)
    env = {'rtol': ('rtol', 'k'), 'tol_scale': ('tolScale', 'k'),
           "get == 'samples'": ('getSamples', 'bool'), "get == 'mean'": ('getMean', 'bool'),
           'min_samples': ('minSamples', 'int'), 'max_samples': ('maxSamples', 'int'),
           '$calls': ('calls', 'nat'), '$fuel': ('fuel', 'nat'), 'xs': ('xs', 'klist')}

    def ret(fn, e, v):
        calls = e['$calls'][0]
        if v is None: raise Untranslatable('return without a value')
        def stats(name):
            if fn.objects.get(name) != 'RS': raise Untranslatable('returned object')
            return ' '.join(e[f'{name}.{a}'][0] for a in RS_ATTRS)
        if isinstance(v, ast.Name) and v.id in fn.objects:
            return f'(.stats {stats(v.id)}, {calls})'
        if isinstance(v, ast.Tuple) and len(v.elts) == 2 and isinstance(v.elts[0], ast.Name) and v.elts[0].id in fn.objects:
            t, ty = fn.ex(e, fn).expr(v.elts[1])
            if ty != 'klist': raise Untranslatable('second component')
            return f'(.samples {stats(v.elts[0].id)} {t}, {calls})'
        return f'(.mean {fn.ex(e, fn).to_k(v)}, {calls})'

    def end(e):
        raise Untranslatable('a path returns nothing')
    fn = Fn(env, methods=METHODS, stream={'fn': 'f'}, skip=_skip_progress, ret=ret, classes=CLASSES)
    return '\n  let calls : Nat := 0\n  let xs : List K := []' + translate_body(fn, f.body, end)


# ----------------------------------------------------------------------------- format_number_with_error

def a_fmt(T):
    f = find(T['utils'], ['format_number_with_error'])
    if [a.arg for a in f.args.args] != ['x', 'err'] or f.args.vararg or f.args.kwarg or f.args.kwonlyargs:
        raise NotFound('format_number_with_error parameters')

    def ret(fn, e, v):
        if v is None: raise Untranslatable('return without a value')
        t, ty = fn.ex(e, fn).expr(v)
        if ty != 'pieces': raise Untranslatable('returned ' + str(ty))
        return t

    def end(e):
        raise Untranslatable('a path returns nothing')
    fn = Fn({'x': ('x', 'flt'), 'err': ('err', 'flt')}, ret=ret, ex=FmtEx)
    return translate_body(fn, f.body, end)


RS3 = '(count mean M2 : K)'
RC4 = '(count xmean ymean C : K)'
FMT_SIG = ('{F MS ES M : Type} (sciSplit : F → Nat → MS × ES) (intOf : ES → Int) (dropDot : MS → M) '
           '(ltAbsDiv : F → F → Int → Bool) (scale : F → Int → Int → F) (x err : F) : List (Gen.Piece F M)')

ANCHORS = [
    ('rsInit', f'{KALG} : K × K × K', _method('RunningStatistics', 'RS', RS_ATTRS, '__init__')),
    ('rsUpdate', f'{KALG} {RS3} (x : K) : K × K × K', _method('RunningStatistics', 'RS', RS_ATTRS, 'update', [('x', 'k')])),
    ('rsUpdateFromIt', f'{KALG} {RS3} (xs : List K) : K × K × K',
     _method('RunningStatistics', 'RS', RS_ATTRS, 'update_from_it', [('xs', 'klist')])),
    ('rsVar', f'{KFULL} {RS3} : K', _method('RunningStatistics', 'RS', RS_ATTRS, 'var', value='k')),
    ('rsStd', f'{KFULL} {RS3} : K', _method('RunningStatistics', 'RS', RS_ATTRS, 'std', value='k')),
    ('rsErr', f'{KFULL} {RS3} : K', _method('RunningStatistics', 'RS', RS_ATTRS, 'err', value='k')),
    ('rsRelErr', f'{KFULL} {RS3} : K', _method('RunningStatistics', 'RS', RS_ATTRS, 'rel_err', value='k')),
    ('rsConverged', f'{KFULL} {RS3} (rtol atol : K) : Bool',
     _method('RunningStatistics', 'RS', RS_ATTRS, 'converged', [('rtol', 'k'), ('atol', 'k')], value='bool')),
    ('rcInit', f'{KALG} : K × K × K × K', _method('RunningCovariance', 'RC', RC_ATTRS, '__init__')),
    ('rcUpdate', f'{KALG} {RC4} (x y : K) : K × K × K × K',
     _method('RunningCovariance', 'RC', RC_ATTRS, 'update', [('x', 'k'), ('y', 'k')])),
    ('rcUpdateFromIt', f'{KALG} {RC4} (xs ys : List K) : K × K × K × K',
     _method('RunningCovariance', 'RC', RC_ATTRS, 'update_from_it', [('xs', 'klist'), ('ys', 'klist')])),
    ('rcCovar', f'{KALG} {RC4} : K', _method('RunningCovariance', 'RC', RC_ATTRS, 'covar', value='k')),
    ('rcSampleCovar', f'{KALG} {RC4} : K', _method('RunningCovariance', 'RC', RC_ATTRS, 'sample_covar', value='k')),
    ('estimateFromRepeats', f'{KFULL} (f : Nat → K) (fuel : Nat) (rtol tolScale : K) (getSamples getMean : Bool) '
     '(minSamples maxSamples : Int) : Gen.EstResult K × Nat', a_estimate),
    ('fmtNumberWithError', FMT_SIG, a_fmt),
]
