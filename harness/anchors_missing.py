"""Missing-data discovery (C13): `is_case_missing`, `find_missing_cases`, `parse_into_cases` (xyzpy/gen/case_runner.py)
translated from the source on every run, over ABSTRACT dataset operations `o : Gen.MissOps D M R V`
(lean/XyzModel/Gen/DefaultMissing.lean):

    ds.sel(setting)          o.sel ds setting : Except MErr D          (KeyError = a label / dimension that is not there)
    x.isnull()               o.isnull x : M        ~np.isfinite(x)     o.notFinite x : M          (boolean dataset)
    m.all()                  o.allM m : R                                                         (one 0-d answer per variable)
    r.to_array()             o.toArray r : Except MErr (List Bool)     (AttributeError for a DataArray)
    a.all() / a.any()        a.all id / a.any id  on the array over the variables;   r.item()   o.item r
    ds.dims                  o.dims ds : List String                   ds[arg].data / .values     o.coordValues ds arg : List V

1. `isCaseMissing`  — the body of `is_case_missing` incl. both `try` blocks: a small typed statement translator (`McTr`, below):
   an operation that can raise becomes `match … with | .error e => ⟦the handlers in scope, innermost first⟧ | .ok v => …`;
   a handler sees the variables as they are at the raising point; `raise C(..)` is dispatched statically.
2. `findMissing`, `parseIntoCases` — `pyloop2lean.LoopTr` extended (`MissTr`): loops whose body calls `is_case_missing` become
   `List.foldlM` in `Except MErr` (the first error ends the loop); a short-circuit test with a raising operand is unnested;
   a local generator function consumed once (`tuple(gen())`) is the list of what it yields; set literals / `set()` /
   `{**a, **b}` / `tuple(d)`;  DYNAMICALLY TYPED PARAMETERS (`ignore_dims`: None | str | collection;  `combos`, `cases`,
   `ds`: None | value) are split into variants — the body is translated once per variant with `isinstance(x, str)`,
   `x is None` and the truth value of `x` decided by the variant.

Anything else raises `Untranslatable` / `NotFound` and the anchor falls back to `Gen.Default.<name>`.
"""
import ast, copy
from extract import find, NotFound
from pyexpr2lean import Untranslatable, lean_str
from pyloop2lean import (Spec, LoopTr, body_slice, V, S, B, N, NONE, L, P, D, is_list, is_dict, is_pair, lean_name, lean_ty,
                         paren, LEAN_KEYWORDS)

LEAN_KEYWORDS.add('case')        # a tactic keyword, hence a token everywhere: the loop variable `case` becomes `case'`

FILES = {'case_runner': 'xyzpy/gen/case_runner.py'}
DS = 'Dset'          # an xarray object (opaque)
ERRS = {'KeyError': 'MErr.keyError', 'ValueError': 'MErr.valueError', 'AttributeError': 'MErr.attributeError',
        'TypeError': 'MErr.typeError'}


def _u(e): return ast.unparse(e)


def _is_doc(st): return isinstance(st, ast.Expr) and isinstance(st.value, ast.Constant)


def _params(f, want, defaults):
    a = f.args
    names = [x.arg for x in a.args]
    if names != want or a.vararg or a.kwarg or a.kwonlyargs or a.posonlyargs:
        raise NotFound(f'{f.name} parameters {names}')
    got = [d.value if isinstance(d, ast.Constant) else '?' for d in a.defaults]
    if len(got) != len(defaults) or any(w != '*' and g != w for g, w in zip(got, defaults)):
        raise NotFound(f'{f.name} defaults {got}')


# ================================================================================================ 1. is_case_missing
class McTr:
    """statements: import (dropped), x = e, if / elif / else, try / except C: …, raise C(..), return e, pass, docstrings.
    types: Dset, M (boolean dataset), R (reduced), LB (array over the variables), B, S, St (the setting)"""

    def __init__(self):
        self.fresh = 0
        self.nodes = 0

    def new(self, stem):
        self.fresh += 1
        return f'{stem}{self.fresh}'

    # -------------------------------------------------------------- expressions: (term, type), raising parts -> binders
    def expr(self, e, env, binders):
        if isinstance(e, ast.Name):
            if e.id in env: return env[e.id]
            raise Untranslatable('unknown name ' + e.id)
        if isinstance(e, ast.Constant):
            if isinstance(e.value, bool): return ('true' if e.value else 'false'), 'B'
            if isinstance(e.value, str): return lean_str(e.value), 'S'
            raise Untranslatable('constant ' + repr(e.value))
        if isinstance(e, ast.Compare) and len(e.ops) == 1 and isinstance(e.ops[0], (ast.Eq, ast.NotEq)):
            a, at = self.expr(e.left, env, binders); b, bt = self.expr(e.comparators[0], env, binders)
            if at == bt == 'S':
                return (f'({a} == {b})' if isinstance(e.ops[0], ast.Eq) else f'({a} != {b})'), 'B'
            raise Untranslatable('comparison ' + _u(e))
        if isinstance(e, ast.UnaryOp) and isinstance(e.op, ast.Not):
            a, at = self.expr(e.operand, env, binders)
            if at == 'B': return f'(!{a})', 'B'
            raise Untranslatable('not of ' + at)
        if isinstance(e, ast.UnaryOp) and isinstance(e.op, ast.Invert):
            # ~np.isfinite(x)
            c = e.operand
            if isinstance(c, ast.Call) and _u(c.func) in ('np.isfinite', 'numpy.isfinite') and len(c.args) == 1 and not c.keywords:
                a, at = self.expr(c.args[0], env, binders)
                if at == DS: return f'(o.notFinite {a})', 'M'
            raise Untranslatable('~ of ' + _u(c)[:60])
        if isinstance(e, ast.Call) and isinstance(e.func, ast.Attribute):
            recv, rt = self.expr(e.func.value, env, binders)
            m, args = e.func.attr, e.args
            plain = not e.keywords and not any(isinstance(a, ast.Starred) for a in args)
            if m == 'sel' and rt == DS and plain and len(args) == 1:
                s, st = self.expr(args[0], env, binders)
                if st != 'St': raise Untranslatable('sel of a ' + st)
                v = self.new('x'); binders.append((f'o.sel {recv} {s}', v)); return v, DS
            if m == 'isnull' and rt == DS and plain and not args: return f'(o.isnull {recv})', 'M'
            if m == 'all' and rt == 'M' and plain and not args: return f'(o.allM {recv})', 'R'
            if m == 'to_array' and rt == 'R' and plain and not args:
                v = self.new('x'); binders.append((f'o.toArray {recv}', v)); return v, 'LB'
            if m in ('all', 'any') and rt == 'LB' and plain and not args: return f'({recv}.{m} id)', 'B'
            if m == 'item' and rt == 'B' and plain and not args: return recv, 'B'
            if m == 'item' and rt == 'R' and plain and not args: return f'(o.item {recv})', 'B'
            raise Untranslatable(f'method {m} of a {rt}')
        raise Untranslatable('expression ' + _u(e)[:80])

    # -------------------------------------------------------------- statements
    def dispatch(self, cls_or_var, env, handlers, ind, static):
        """what happens to an exception: static = a class name known at translation time, else a Lean variable"""
        if static:
            for cls, h in handlers:
                if cls == cls_or_var: return h(env, ind)
            if cls_or_var not in ERRS: return ind + '.error MErr.other'
            return ind + '.error ' + ERRS[cls_or_var]
        if not handlers:
            return f'{ind}.error {cls_or_var}'
        (cls, h), rest = handlers[0], handlers[1:]
        return (f'{ind}if {cls_or_var} = {ERRS[cls]} then\n{h(env, ind + "  ")}\n{ind}else\n'
                + self.dispatch(cls_or_var, env, rest, ind + '  ', False))

    def with_binders(self, binders, env, handlers, ind, body):
        """match every raising operation in order; body(ind) is the text once all succeeded"""
        if not binders: return body(ind)
        (term, v), rest = binders[0], binders[1:]
        e = self.new('e')
        return (f'{ind}(match {term} with\n{ind}| .error {e} =>\n{self.dispatch(e, env, handlers, ind + "  ", False)}\n'
                f'{ind}| .ok {v} =>\n{self.with_binders(rest, env, handlers, ind + "  ", body)})')

    def block(self, stmts, env, handlers, ind, k):
        """k(env, ind): the text of what follows this statement list when it ends normally"""
        self.nodes += 1
        if self.nodes > 400: raise Untranslatable('too large')
        if not stmts: return k(env, ind)
        s, rest = stmts[0], list(stmts[1:])
        if isinstance(s, (ast.Import, ast.ImportFrom, ast.Pass)) or _is_doc(s):
            return self.block(rest, env, handlers, ind, k)
        if isinstance(s, ast.Assign) and len(s.targets) == 1 and isinstance(s.targets[0], ast.Name):
            binders = []
            t, ty = self.expr(s.value, env, binders)
            name = s.targets[0].id
            def body(i2):
                env2 = dict(env); nm = lean_name(name); env2[name] = (nm, ty)
                return f'{i2}let {nm} := {t}\n' + self.block(rest, env2, handlers, i2, k)
            return self.with_binders(binders, env, handlers, ind, body)
        if isinstance(s, ast.Return):
            if s.value is None: raise Untranslatable('bare return')
            binders = []
            t, ty = self.expr(s.value, env, binders)
            if ty != 'B': raise Untranslatable('returns a ' + ty)
            return self.with_binders(binders, env, handlers, ind, lambda i2: f'{i2}.ok {t}')
        if isinstance(s, ast.Raise):
            if s.exc is None or s.cause is not None: raise Untranslatable('re-raise')
            exc = s.exc.func if isinstance(s.exc, ast.Call) else s.exc
            if not isinstance(exc, ast.Name): raise Untranslatable('raise ' + _u(exc))
            for n in ast.walk(s.exc):            # the message may only be built from strings
                if isinstance(n, ast.Call) and n is not s.exc and not (isinstance(n.func, ast.Attribute) and n.func.attr == 'format'):
                    raise Untranslatable('raise argument ' + _u(n)[:60])
            return self.dispatch(exc.id, env, handlers, ind, True)
        if isinstance(s, ast.If):
            binders = []
            c, ct = self.expr(s.test, env, binders)
            if ct != 'B' or binders: raise Untranslatable('test ' + _u(s.test))
            a = self.block(list(s.body) + rest, env, handlers, ind + '  ', k)
            b = self.block(list(s.orelse) + rest, env, handlers, ind + '  ', k)
            return f'{ind}if {c} then\n{a}\n{ind}else\n{b}'
        if isinstance(s, ast.Try):
            if s.finalbody or s.orelse or not s.handlers: raise Untranslatable('try shape')
            after = lambda env2, i2: self.block(rest, env2, handlers, i2, k)
            mine = []
            for h in s.handlers:
                if not isinstance(h.type, ast.Name) or h.type.id not in ERRS or h.name is not None:
                    raise Untranslatable('except ' + (_u(h.type) if h.type is not None else '(bare)'))
                mine.append((h.type.id, (lambda env2, i2, h=h: self.block(list(h.body), env2, handlers, i2, after))))
            return self.block(list(s.body), env, mine + handlers, ind, after)
        raise Untranslatable('statement ' + type(s).__name__ + ': ' + _u(s)[:60])


def a_isCaseMissing(T):
    f = find(T['case_runner'], ['is_case_missing'])
    _params(f, ['ds', 'setting', 'method'], ['*'])
    tr = McTr()
    env = {'ds': ('ds', DS), 'setting': ('setting', 'St'), 'method': ('method', 'S')}
    def fell_off(env2, ind): raise Untranslatable('a path returns nothing')
    return '\n' + tr.block(list(f.body), env, [], '  ', fell_off)


def _default_of_method(T, name):
    f = find(T['case_runner'], [name])
    names = [x.arg for x in f.args.args]
    if 'method' not in names: raise NotFound(name + ' has no parameter `method`')
    i = names.index('method') - (len(names) - len(f.args.defaults))
    if i < 0: raise NotFound('method has no default in ' + name)
    d = f.args.defaults[i]
    if not (isinstance(d, ast.Constant) and isinstance(d.value, str)): raise NotFound('default of method in ' + name)
    return lean_str(d.value)


def a_missingDefaultMethod(T):
    """the default of `method` in `is_case_missing` (what a call that leaves `method` out means)"""
    return _default_of_method(T, 'is_case_missing')


def a_missingEntryDefaults(T):
    """the defaults of `method` in `find_missing_cases` and `parse_into_cases`"""
    return '[' + ', '.join(_default_of_method(T, n) for n in ('find_missing_cases', 'parse_into_cases')) + ']'


# ================================================================================================ 2. the loops
class MissTr(LoopTr):
    RAISING = ('is_case_missing',)

    def __init__(self, spec, retype=()):
        super().__init__(spec)
        self.retype = set(retype)
        self.monadic = 0

    # ---------- static facts about the variant
    def static_test(self, e, env):
        """True / False when the variant decides the test, else None"""
        if isinstance(e, ast.Compare) and len(e.ops) == 1 and isinstance(e.ops[0], (ast.Is, ast.IsNot)) \
                and isinstance(e.comparators[0], ast.Constant) and e.comparators[0].value is None and isinstance(e.left, ast.Name) \
                and e.left.id in env and env[e.left.id][1] != 'ast':
            r = env[e.left.id][1] == NONE
            return r if isinstance(e.ops[0], ast.Is) else (not r)
        if isinstance(e, ast.Call) and _u(e.func) == 'isinstance' and len(e.args) == 2 and not e.keywords \
                and isinstance(e.args[0], ast.Name) and e.args[0].id in env and _u(e.args[1]) == 'str':
            return env[e.args[0].id][1] == S
        if isinstance(e, ast.Name) and e.id in env and env[e.id][1] == NONE:
            return False
        if isinstance(e, ast.UnaryOp) and isinstance(e.op, ast.Not):
            r = self.static_test(e.operand, env)
            return None if r is None else (not r)
        return None

    def decided(self, test, env):
        r = self.static_test(test, env)
        if r is not None: return r
        return super().decided(test, env)

    def truthy(self, e, env):
        r = self.static_test(e, env)
        if r is not None: return 'true' if r else 'false'
        if isinstance(e, ast.Name) and e.id in env and env[e.id][1] == S:
            return f'({env[e.id][0]} != "")'
        return super().truthy(e, env)

    # ---------- expressions
    def _expr(self, e, env, want):
        hit = self.lookup(e, env)
        if hit is not None: return hit
        if isinstance(e, ast.IfExp):
            r = self.decided(e.test, env)
            if r is not None:
                return self._expr(e.body if r else e.orelse, env, want)
        if isinstance(e, ast.Set):
            if any(isinstance(x, ast.Starred) for x in e.elts): raise Untranslatable('starred element')
            parts = [self.expr(x, env, want[1] if is_list(want) else None) for x in e.elts]
            if len({t for _, t in parts}) != 1: raise Untranslatable('heterogeneous set')
            return '[' + ', '.join(p for p, _ in parts) + ']', L(parts[0][1])
        if isinstance(e, ast.Dict):
            if not e.keys: return '[]', L(None)
            acc = None
            for k, v in zip(e.keys, e.values):
                if k is None:
                    t, ty = self.expr(v, env, want if is_dict(want) else None)
                    if not is_dict(ty): raise Untranslatable('** of a ' + str(ty))
                    acc = (t, ty) if acc is None else (f'(Py.dictUpdate {acc[0]} {t})', acc[1])
                    if acc[1] != ty: raise Untranslatable('dict merge of different types')
                else:
                    if acc is None: raise Untranslatable('dict literal starting with a key')
                    kt, _ = self.expr(k, env, acc[1][1]); vt, _ = self.expr(v, env, acc[1][2])
                    acc = (f'(Py.dictSet {acc[0]} {kt} {vt})', acc[1])
            return acc
        if isinstance(e, ast.Attribute):
            if e.attr == 'dims' and isinstance(e.value, ast.Name) and env.get(e.value.id, (0, 0))[1] == DS:
                return f'(o.dims {env[e.value.id][0]})', L(S)
            if e.attr in ('data', 'values') and isinstance(e.value, ast.Subscript) and isinstance(e.value.value, ast.Name) \
                    and env.get(e.value.value.id, (0, 0))[1] == DS:
                k, kt = self.expr(e.value.slice, env, S)
                if kt != S: raise Untranslatable('ds[…] of a ' + str(kt))
                return f'(o.coordValues {env[e.value.value.id][0]} {k})', L(V)
        return super()._expr(e, env, want)

    def call(self, e, env, want):
        fn = _u(e.func)
        plain = not e.keywords and not any(isinstance(a, ast.Starred) for a in e.args)
        if fn in ('set', 'frozenset', 'tuple', 'list') and plain and len(e.args) == 1:
            t, ty = self.expr(e.args[0], env)
            if ty == S and fn in ('set', 'frozenset'):
                return f'({t}.toList.map Char.toString)', L(S)            # the characters of a string
            if is_dict(ty): return f'({t}.map Prod.fst)', L(ty[1])          # iterating a dict: its keys
            if is_list(ty) and ty[1] is not None: return t, ty
            raise Untranslatable(f'{fn}() of {ty}')
        if fn in ('set', 'frozenset') and plain and not e.args:
            return '[]', L(None)
        return super().call(e, env, want)

    # ---------- statements
    def bind(self, kind, *payload):
        if kind == 'exc' and self.pure and self.monadic == self.pure and not self.scope and self.binders is not None:
            self.binders.append((kind,) + payload)
            return
        super().bind(kind, *payload)

    def let(self, env, key, term, ty):
        if key in self.retype and key in env:
            env = dict(env); del env[key]
        return super().let(env, key, term, ty)

    def raising_in(self, node):
        return any(isinstance(n, ast.Call) and _u(n.func) in self.RAISING for n in ast.walk(node))

    def if_(self, s, rest, env, ind, done):
        d = self.decided(s.test, env)
        if d is not None:
            return self.block((list(s.body) if d else list(s.orelse)) + rest, env, ind, done)
        t = s.test
        if isinstance(t, ast.BoolOp) and self.raising_in(t):
            # short circuit with an operand that can raise: unnest   (a or b → if a: X else: if b: X else: Y)
            first, others = t.values[0], t.values[1:]
            tail = others[0] if len(others) == 1 else ast.BoolOp(t.op, others)
            if isinstance(t.op, ast.Or):
                new = ast.If(first, s.body, [ast.If(tail, s.body, s.orelse)])
            else:
                new = ast.If(first, [ast.If(tail, s.body, s.orelse)], s.orelse)
            return self.if_(ast.fix_missing_locations(new), rest, env, ind, done)
        if not self.raising_in(t):
            return super().if_(s, rest, env, ind, done)
        key = '$known:' + _u(t)
        saved = self.binders; self.binders = []
        try:
            c = self.truthy(t, env)
            binders = self.binders
        finally:
            self.binders = saved
        def body(env2, cur):
            ea, eb = dict(env2), dict(env2)
            ea[key] = (True, 'known'); eb[key] = (False, 'known')
            a = self.block(list(s.body) + rest, ea, cur + '  ', done)
            b = self.block(list(s.orelse) + rest, eb, cur + '  ', done)
            return f'{cur}if {c} then\n{a}\n{cur}else\n{b}'
        return self.emit(binders, [], ind, body, env)

    def loop_body_m(self, body, env, state, ind):
        self.pure += 1; self.monadic += 1
        try:
            def fin(e2, ret):
                if ret is not None: raise Untranslatable('return inside a loop')
                for k in state:
                    if e2[k][1] != env[k][1]: raise Untranslatable(f'{k} changes type in a loop')
                return '.ok ' + self.tuple_of([e2[k][0] for k in state])
            return self.block(list(body), env, ind, fin)
        finally:
            self.pure -= 1; self.monadic -= 1

    def for_(self, s, rest, env, ind, done):
        if not self.raising_in(s) or s.orelse:
            return super().for_(s, rest, env, ind, done)
        if self.pure != self.monadic: raise Untranslatable('a raising loop inside a pure one')
        if any(isinstance(n, (ast.Break, ast.Continue)) for n in ast.walk(s)): raise Untranslatable('break / continue')
        saved = self.binders; self.binders = []
        try:
            it, ity = self.expr(s.iter, env)
            binders = self.binders
        finally:
            self.binders = saved
        if binders: raise Untranslatable('loop over an expression that can raise')
        if not is_list(ity) or ity[1] is None: raise Untranslatable('loop over ' + str(ity))
        state = self.state_of(s.body, env)
        tnames = {n.id for n in ast.walk(s.target) if isinstance(n, ast.Name)}
        if tnames & set(state) or not state: raise Untranslatable('loop state')
        pat, env_b = self.pattern(s.target, ity[1], env)
        stup = self.tuple_of([env[k][0] for k in state])
        sty = ' × '.join(paren(lean_ty(env[k][1])) for k in state)
        body = self.loop_body_m(s.body, env_b, state, ind + '    ')
        env2 = dict(env)
        for k in state:
            self.assigned.add(k); self.versions[k] = self.versions.get(k, 0) + 1
        e = self.new('e')
        head = (f'{ind}(match (List.foldlM (m := Except MErr) (fun ({stup} : {sty}) {pat} =>\n{body}) {stup} {it}) with\n'
                f'{ind}| .error {e} => .error {e}\n{ind}| .ok {stup} =>')
        return head + '\n' + self.block(rest, env2, ind + '  ', done) + ')'


def _h_progbar(call, tr, env):
    """progbar(iterable, …): the iterable itself"""
    if len(call.args) != 1 or isinstance(call.args[0], ast.Starred): raise Untranslatable('progbar arguments')
    for k in call.keywords:
        if any(isinstance(n, ast.Name) and n.id in env and env[n.id][1] != B for n in ast.walk(k.value)):
            raise Untranslatable('progbar option reads a translated variable')
    return tr.expr(call.args[0], env)


def _h_is_case_missing(call, tr, env):
    """is_case_missing(ds, <setting>, method=method) → the translated `isCaseMissing o ds <setting> method`"""
    args = list(call.args)
    kw = {k.arg: k.value for k in call.keywords}
    if None in kw or any(isinstance(a, ast.Starred) for a in args): raise Untranslatable('is_case_missing arguments')
    for name in ('ds', 'setting', 'method')[len(args):]:
        if name in kw: args.append(kw.pop(name))
        elif name == 'method': args.append(None)
        else: raise Untranslatable('is_case_missing without ' + name)
    if kw or len(args) != 3: raise Untranslatable('is_case_missing arguments')
    d, dt = tr.expr(args[0], env)
    if dt == NONE:
        v = tr.new('b'); tr.bind('exc', '(.error MErr.attributeError : Except MErr Bool)', v); return v, B
    if dt != DS: raise Untranslatable('is_case_missing of a ' + str(dt))
    st, sty = tr.expr(args[1], env, D(S, V))
    if args[2] is None: m = 'missingDefaultMethod'
    else:
        m, mt = tr.expr(args[2], env)
        if mt != S: raise Untranslatable('method of type ' + str(mt))
    v = tr.new('b')
    tr.bind('exc', f'isCaseMissing o {d} {st} {m}', v)
    return v, B


def _degenerate(body):
    """`def gen(): for …: … yield x` + a single later use `tuple(gen())` → `gen__items = []` + the loop appending;
    the generator body runs where it is consumed, so nothing but the consuming statement may follow the def"""
    out = []
    for i, st in enumerate(body):
        if isinstance(st, ast.FunctionDef):
            a = st.args
            if a.args or a.vararg or a.kwarg or a.kwonlyargs or a.posonlyargs or st.decorator_list:
                raise Untranslatable('local function with parameters')
            ys = [n for n in ast.walk(st) if isinstance(n, (ast.Yield, ast.YieldFrom))]
            if not ys or any(isinstance(n, (ast.YieldFrom, ast.Return)) for n in ast.walk(st)):
                raise Untranslatable('local function is not a plain generator')
            items = st.name + '__items'

            class Y(ast.NodeTransformer):
                def visit_Expr(self, n):
                    if isinstance(n.value, ast.Yield) and n.value.value is not None:
                        return ast.Expr(ast.Call(ast.Attribute(ast.Name(items, ast.Load()), 'append', ast.Load()), [n.value.value], []))
                    return n
            new_body = [Y().visit(copy.deepcopy(b)) for b in st.body if not _is_doc(b)]
            if any(isinstance(n, ast.Yield) for b in new_body for n in ast.walk(b)):
                raise Untranslatable('yield used as an expression')
            follow = body[i + 1:]
            if len(follow) != 1: raise Untranslatable('statements between the generator and its use')
            uses = [n for n in ast.walk(follow[0]) if isinstance(n, ast.Name) and n.id == st.name]
            if len(uses) != 1: raise Untranslatable('the generator is used more than once')

            class U(ast.NodeTransformer):
                def visit_Call(self, n):
                    if isinstance(n.func, ast.Name) and n.func.id == st.name and not n.args and not n.keywords:
                        return ast.Name(items, ast.Load())
                    return self.generic_visit(n)
            last = U().visit(copy.deepcopy(follow[0]))
            if any(isinstance(n, ast.Name) and n.id == st.name for n in ast.walk(last)):
                raise Untranslatable('the generator is not simply called')
            out.append(ast.Assign([ast.Name(items, ast.Store())], ast.List([], ast.Load())))
            out += new_body
            out.append(last)
            return [ast.fix_missing_locations(x) for x in out], items
        out.append(st)
    return body, None


def _translate(spec, body, env, retype, ind):
    tr = MissTr(spec, retype)

    def done(env2, ret):
        if ret is None: raise Untranslatable('a path returns nothing')
        return '.ok ' + ret[0]
    return tr.block(body, env, ind, done)


CALLS = {'progbar': _h_progbar, 'is_case_missing': _h_is_case_missing}


def a_findMissing(T):
    f = find(T['case_runner'], ['find_missing_cases'])
    _params(f, ['ds', 'ignore_dims', 'method', 'show_progbar'], [None, '*', False])
    body, items = _degenerate([s for s in f.body if not _is_doc(s)])
    types = {'ignore_dims': L(S)}
    if items: types[items] = L(L(V))
    out = ['', '  match ignoreDims with']
    for pat, ty in (('.none', NONE), ('.str ignoreDims', S), ('.coll ignoreDims', L(S))):
        spec = Spec('case_runner', ['find_missing_cases'], {}, types=types, returns=P(L(S), L(L(V))), calls=CALLS)
        env = {'ds': ('ds', DS), 'method': ('method', S), 'show_progbar': ('showProgbar', B), 'ignore_dims': ('ignoreDims', ty)}
        out.append(f'  | {pat} =>')
        out.append(_translate(spec, body, env, {'ignore_dims'}, '    '))
    return '\n'.join(out)


def a_parseIntoCases(T):
    f = find(T['case_runner'], ['parse_into_cases'])
    _params(f, ['combos', 'cases', 'ds', 'method'], [None, None, None, '*'])
    body = [s for s in f.body if not _is_doc(s)]
    CT, KT = D(S, L(V)), L(D(S, V))
    types = {'combos': CT, 'cases': KT, 'new_cases': KT}
    out = ['', '  match combos, cases, ds with']
    for cv in (False, True):
        for kv in (False, True):
            for dv in (False, True):
                spec = Spec('case_runner', ['parse_into_cases'], {}, types=types, returns=KT, calls=CALLS)
                env = {'method': ('method', S), 'combos': ('combos', CT if cv else NONE), 'cases': ('cases', KT if kv else NONE),
                       'ds': ('ds', DS if dv else NONE)}
                pat = ', '.join(f'some {n}' if v else 'none' for n, v in (('combos', cv), ('cases', kv), ('ds', dv)))
                out.append(f'  | {pat} =>')
                out.append(_translate(spec, body, env, {'combos', 'cases'}, '    '))
    return '\n'.join(out)


_OPS = '{D M R V : Type} (o : MissOps D M R V)'
ANCHORS = [
    ('missingDefaultMethod', ': String', a_missingDefaultMethod),
    ('missingEntryDefaults', ': List String', a_missingEntryDefaults),
    ('isCaseMissing', _OPS + ' (ds : D) (setting : List (String × V)) (method : String) : Except MErr Bool', a_isCaseMissing),
    ('findMissing', _OPS + ' (ds : D) (ignoreDims : IgnoreArg) (method : String) (showProgbar : Bool) : '
     'Except MErr (List String × List (List V))', a_findMissing),
    ('parseIntoCases', _OPS + ' (combos : Option (List (String × List V))) (cases : Option (List (List (String × V)))) '
     '(ds : Option D) (method : String) : Except MErr (List (List (String × V)))', a_parseIntoCases),
]
