"""Publication, bad-result check and the public reap entry point (C08, C10, C11, C12): translated from the source on every run.

1. `write_to_disk(obj, fname)` / `read_from_disk(fname)` (xyzpy/gen/cropping.py) → STATE skeletons `Gen.writeToDisk`,
   `Gen.readFromDisk` over `Gen.FileOps` (lean/XyzModel/Gen/DefaultCheckBad.lean): which operation (open for writing /
   dump / close / replace / exists / remove) is applied to which name (`final` = `fname`, `tmp` = the other name built
   from it before the write — the assignments that build it are *evaluated* on sample names to see which local is which),
   in which order, for every way they can fail.  `with open(n, 'wb') as f: body` is `stWith` (closed whether or not the body
   raised); `try: A except BaseException: H; raise` is `stOnError` (H on the state A reached, then re-raise); the same
   without `raise` is `stCatch` (the exception is swallowed) — translated, so that the theorems break.
2. `Crop.check_bad(delete_bad)` → state skeleton `Gen.checkBadSk` over `Gen.CbOps`: which glob is listed, the loop over
   the listed files, which file is read for the batch length and for the result length (the number inside the name is
   derived by string surgery — evaluated on sample names; a derivation that does not give the number makes the path
   "some other file"), the `try/except` around the result read as a flag, the test that decides "bad", what is removed,
   what is reported.
3. `Crop.reap(...)` → `Gen.reapDispatch`: for each farmer type the method the call is handed on to and the value every
   parameter of that method receives (keyword dict `opts` followed symbolically, defaults read off the callee's
   signature).

Anything not understood raises NotFound / Untranslatable and the anchor falls back to `Gen.Default.<name>`.
"""
import ast, copy
from extract import find, one, NotFound
from pyexpr2lean import Untranslatable
from pyfn2lean import Tr2
from pyst2lean import StSpec, StTr
import anchors_fs, anchors_grow, anchors_fn

FILES = {'cropping': 'xyzpy/gen/cropping.py', 'farming': 'xyzpy/gen/farming.py'}


def _u(e): return ast.unparse(e)


def _is_doc(s): return isinstance(s, ast.Expr) and isinstance(s.value, ast.Constant)


def _real(stmts):
    """statements that are not continuation markers (pysk2lean.block_then)"""
    return [s for s in stmts if not (isinstance(s, ast.Pass) and hasattr(s, '_sk_then'))]


# ================================================================================================ 1. write / read
_SAMPLES = ('/d/results/xyz-result-3.jbdmp', '/d/batches/xyz-batch-12.jbdmp', '/e/.xyz-c/xyz-settings.jbdmp', 'xyz-function.clpkl')


def _classify_names(f):
    """Evaluate the pure assignments at the head of the function on sample final names (twice, with different uuid4
    values): which locals hold `fname` itself ('final') and which another path ('tmp')?  Returns (classes, head stmts)."""
    import os as _os
    params = [a.arg for a in f.args.args]
    if not params or params[-1] != 'fname' or f.args.vararg or f.args.kwarg or f.args.kwonlyargs:
        raise NotFound('signature: the file name is not the last parameter `fname`')
    head = []
    for st in f.body:
        if _is_doc(st): continue
        if not isinstance(st, ast.Assign): break
        for n in ast.walk(st.value):
            if isinstance(n, ast.Call):
                fn = _u(n.func)
                if not (fn in anchors_fs._OK_CALLS or (isinstance(n.func, ast.Attribute) and n.func.attr == 'format'
                                                      and isinstance(n.func.value, ast.Constant))):
                    raise Untranslatable('call not understood in a name construction: ' + fn)
            elif isinstance(n, (ast.Lambda, ast.ListComp, ast.GeneratorExp, ast.Await, ast.Yield, ast.NamedExpr)):
                raise Untranslatable('expression not understood in a name construction')
        head.append(st)
    later = {t.id for st in f.body if st not in head for n in ast.walk(st) if isinstance(n, (ast.Assign, ast.AugAssign))
             for t in ast.walk(n.targets[0] if isinstance(n, ast.Assign) else n.target) if isinstance(t, ast.Name)}
    if 'fname' in later: raise Untranslatable('fname is re-assigned')

    class _U:
        def __init__(self, h): self.hex = h
        def __str__(self): return self.hex[:8] + '-' + self.hex[8:]

    class _Uuid:
        def __init__(self, h): self.h = h
        def uuid4(self): return _U(self.h)

    class _Os:
        path = _os.path
        @staticmethod
        def getpid(): return 4242
    seen = {}
    code = compile(ast.Module(body=head, type_ignores=[]), '<names>', 'exec')
    for final in _SAMPLES:
        for hx in ('0123456789abcdef' * 2, 'fedcba9876543210' * 2):
            u = _Uuid(hx)
            env = {'__builtins__': {'str': str}, 'os': _Os, 'uuid': u, 'uuid4': u.uuid4, 'fname': final}
            try: exec(code, env)
            except Exception as e: raise Untranslatable('name construction does not evaluate: ' + type(e).__name__)
            for k, v in env.items():
                if k in ('__builtins__', 'os', 'uuid', 'uuid4', 'fname') or not isinstance(v, str): continue
                seen.setdefault(k, set()).add('final' if v == final else 'tmp')
    classes = {k: next(iter(v)) for k, v in seen.items() if len(v) == 1 and k not in later}
    classes['fname'] = 'final'
    return classes, head


def _wname(e, env):
    if isinstance(e, ast.Name) and env.get(e.id, (0, 0))[1] == 'wname':
        return env[e.id][0]
    raise Untranslatable('file name not recognised: ' + _u(e)[:60])


class _FTr(Tr2):
    def expr(self, e):
        if isinstance(e, ast.Call) and not e.keywords and _u(e.func) == 'os.path.exists' and len(e.args) == 1:
            return f'(o.pathExists {self.env["$trace"][0]} {_wname(e.args[0], self.env)})', 'bool'
        return super().expr(e)


def _has_return(nodes):
    return any(isinstance(n, ast.Return) for b in nodes for n in ast.walk(b))


class _WTr(StTr):
    """StTr + `with open(...)` + `try/except BaseException`"""

    def tr(self, env):
        return _FTr(env, self.spec.num)

    def block(self, stmts, env, ind):
        if stmts and not any(pred(stmts[0]) for pred, _ in self.spec.handlers):
            s, rest = stmts[0], stmts[1:]
            st = self.st(env)
            if isinstance(s, ast.Try) and s.handlers:
                if s.orelse or s.finalbody or len(s.handlers) != 1:
                    raise Untranslatable('try with else / finally / several handlers')
                h = s.handlers[0]
                if not (h.type is None or _u(h.type) == 'BaseException'):
                    raise Untranslatable('an except clause that does not catch everything')
                if _has_return(list(s.body) + list(h.body)): raise Untranslatable('return inside try/except')
                hb = list(h.body)
                raises = [n for b in hb for n in ast.walk(b) if isinstance(n, ast.Raise)]
                if hb and isinstance(hb[-1], ast.Raise) and hb[-1].exc is None and len(raises) == 1:
                    comb, hb = 'stOnError', hb[:-1]
                elif not raises:
                    comb = 'stCatch'
                else:
                    raise Untranslatable('the handler raises something else')
                if h.name and any(isinstance(n, ast.Name) and n.id == h.name for b in hb for n in ast.walk(b)):
                    raise Untranslatable('the handler uses the exception')
                a = self.closed(s.body, env, ind + '    ')
                b = self.closed(hb, env, ind + '    ')
                tail = self.block(rest, env, ind + '  ')
                return f'{ind}(stBind ({comb} (\n{a})\n{ind}  (fun {st} =>\n{b})) fun {st} =>\n{tail})'
            if isinstance(s, ast.With):
                if len(s.items) != 1: raise Untranslatable('with several items')
                it = s.items[0]; c = it.context_expr
                if not (isinstance(c, ast.Call) and _u(c.func) == 'open' and len(c.args) == 2 and not c.keywords
                        and isinstance(c.args[1], ast.Constant) and isinstance(it.optional_vars, ast.Name)):
                    raise Untranslatable('with ' + _u(c)[:60])
                op = {'wb': 'openW', 'rb': 'openR'}.get(c.args[1].value)
                if op is None: raise Untranslatable('open mode ' + repr(c.args[1].value))
                nm = _wname(c.args[0], env)
                body = list(s.body)
                if _has_return(body[:-1]) or (_has_return(body[-1:]) and (_real(rest) or not isinstance(body[-1], ast.Return))):
                    raise Untranslatable('return inside a with block that is not its last word')
                e2 = dict(env); e2[it.optional_vars.id] = (nm, 'whandle:' + op)
                a = self.closed(body, e2, ind + '    ')
                tail = self.block(rest, env, ind + '  ')
                return (f'{ind}(stBind (stWith (o.{op} {st} {nm}) (fun {st} =>\n{a})\n'
                        f'{ind}  (fun {st} => o.close {st} {nm})) fun {st} =>\n{tail})')
        return super().block(stmts, env, ind)


def _call_stmt(st, names):
    v = st.value if isinstance(st, (ast.Expr, ast.Assign, ast.Return)) else None
    if isinstance(v, ast.Call) and _u(v.func) in names: return v
    return None


def _handle(e, env, want):
    if isinstance(e, ast.Name) and env.get(e.id, (0, ''))[1] == 'whandle:' + want: return env[e.id][0]
    raise Untranslatable('not a file opened for this: ' + _u(e)[:40])


def _h_dump(st, tr, env):
    c = _call_stmt(st, ('pickle.dump',))
    if len(c.args) != 2 or c.keywords: raise Untranslatable('pickle.dump arguments')
    return [('op', f'o.dump {env["$trace"][0]} {_handle(c.args[1], env, "openW")}')]


def _h_load(st, tr, env):
    c = _call_stmt(st, ('pickle.load',))
    if len(c.args) != 1 or c.keywords: raise Untranslatable('pickle.load arguments')
    return [('op', f'o.load {env["$trace"][0]} {_handle(c.args[0], env, "openR")}')]


def _h_replace(st, tr, env):
    c = _call_stmt(st, ('os.replace', 'os.rename'))
    if len(c.args) != 2 or c.keywords: raise Untranslatable('os.replace arguments')
    return [('op', f'o.replace {env["$trace"][0]} {_wname(c.args[0], env)} {_wname(c.args[1], env)}')]


def _h_remove(st, tr, env):
    c = _call_stmt(st, ('os.remove', 'os.unlink'))
    if len(c.args) != 1 or c.keywords: raise Untranslatable('os.remove arguments')
    return [('op', f'o.remove {env["$trace"][0]} {_wname(c.args[0], env)}')]


_FILE_HANDLERS = [
    (lambda s: isinstance(s, ast.Expr) and _call_stmt(s, ('pickle.dump',)) is not None, _h_dump),
    (lambda s: isinstance(s, (ast.Return, ast.Assign)) and _call_stmt(s, ('pickle.load',)) is not None, _h_load),
    (lambda s: isinstance(s, ast.Expr) and _call_stmt(s, ('os.replace', 'os.rename')) is not None, _h_replace),
    (lambda s: isinstance(s, ast.Expr) and _call_stmt(s, ('os.remove', 'os.unlink')) is not None, _h_remove),
]


def _file_sk(fname):
    def a(T):
        f = one([n for n in T['cropping'].body if isinstance(n, ast.FunctionDef) and n.name == fname], 'module-level ' + fname)
        classes, head = _classify_names(f)
        env = {k: ('.' + v, 'wname') for k, v in classes.items()}
        spec = StSpec('cropping', [fname], env, handlers=_FILE_HANDLERS, skip=lambda s: any(s is h for h in head))
        tr = _WTr(spec, T, find)
        return '\n' + tr.block(list(f.body), dict(spec.env), '  ')
    return a


# ================================================================================================ 2. check_bad
_IDS = (3, 12, 120, 7, 10, 101)
_PAT = {'.results': '/loc/results/xyz-result-{}.jbdmp', '.batches': '/loc/batches/xyz-batch-{}.jbdmp'}
_STR_METHODS = {'strip', 'lstrip', 'rstrip', 'replace', 'split', 'rsplit', 'removeprefix', 'removesuffix', 'partition', 'rpartition'}


def _derives_id(e, var, kind, consts):
    """does the string surgery `e` on the listed path `var` give the number inside the name (as text or as an int)?"""
    import os as _os
    for n in ast.walk(e):
        if isinstance(n, ast.Call):
            fn = _u(n.func)
            ok = fn in ('os.path.split', 'os.path.basename', 'os.path.splitext', 'int', 'str') or \
                (isinstance(n.func, ast.Attribute) and n.func.attr in _STR_METHODS)
            if not ok or n.keywords: raise Untranslatable('call in the derivation of the file number: ' + fn)
        elif isinstance(n, ast.Name) and n.id not in (var, 'os', 'int', 'str') and n.id not in consts:
            raise Untranslatable('name in the derivation of the file number: ' + n.id)
        elif isinstance(n, (ast.Lambda, ast.ListComp, ast.GeneratorExp, ast.NamedExpr, ast.Await, ast.Yield)):
            raise Untranslatable('expression in the derivation of the file number')
    if kind not in _PAT: return False
    code = compile(ast.Expression(body=e), '<id>', 'eval')
    for i in _IDS:
        env = {'__builtins__': {'int': int, 'str': str}, 'os': _os, var: _PAT[kind].format(i)}
        env.update(consts)
        try: v = eval(code, env)
        except Exception: return False
        if not (v == str(i) or (isinstance(v, int) and not isinstance(v, bool) and v == i)): return False
    return True


def _module_consts(T):
    out = {}
    for n in T['cropping'].body:
        if isinstance(n, ast.Assign) and isinstance(n.value, ast.Constant) and isinstance(n.value.value, str) and len(n.targets) == 1 \
                and isinstance(n.targets[0], ast.Name):
            out[n.targets[0].id] = n.value.value
    return out


def _message_names(body):
    """locals whose value only ever reaches `print(...)` (or another such local)"""
    stmts = [n for b in body for n in ast.walk(b)]
    assigned = set()
    for n in stmts:
        if isinstance(n, ast.Assign):
            for t in n.targets:
                if isinstance(t, ast.Name): assigned.add(t.id)
        elif isinstance(n, ast.AugAssign) and isinstance(n.target, ast.Name): assigned.add(n.target.id)
        elif isinstance(n, ast.ExceptHandler) and n.name: assigned.add(n.name)
    M = set(assigned)
    changed = True
    while changed:
        changed = False
        sink = set()            # ids of Name nodes in places that only feed a message

        def mark(node):
            for x in ast.walk(node):
                if isinstance(x, ast.Name): sink.add(id(x))
        for n in stmts:
            if isinstance(n, ast.Expr) and isinstance(n.value, ast.Call) and _u(n.value.func) == 'print': mark(n.value)
            if isinstance(n, ast.Assign) and len(n.targets) == 1 and isinstance(n.targets[0], ast.Name) and n.targets[0].id in M: mark(n.value)
            if isinstance(n, ast.AugAssign) and isinstance(n.target, ast.Name) and n.target.id in M: mark(n.value)
        for n in stmts:
            if isinstance(n, ast.Name) and isinstance(n.ctx, ast.Load) and n.id in M and id(n) not in sink:
                M.discard(n.id); changed = True
    return M


def _pure_message_value(v):
    for n in ast.walk(v):
        if isinstance(n, ast.Call):
            if not ((isinstance(n.func, ast.Attribute) and n.func.attr == 'format' and isinstance(n.func.value, ast.Constant))
                    or _u(n.func) in ('str', 'repr')):
                return False
    return True


class _Cb:
    def __init__(self, T, M, acc_name, consts):
        self.T, self.M, self.acc, self.consts = T, M, acc_name, consts
        self.nodes = 0

    def inert(self, s):
        if isinstance(s, ast.Pass) or _is_doc(s): return True
        if isinstance(s, ast.Expr) and isinstance(s.value, ast.Call) and _u(s.value.func) == 'print': return True
        if isinstance(s, ast.Assign) and len(s.targets) == 1 and isinstance(s.targets[0], ast.Name) and s.targets[0].id in self.M:
            return _pure_message_value(s.value)
        if isinstance(s, ast.AugAssign) and isinstance(s.target, ast.Name) and s.target.id in self.M:
            return _pure_message_value(s.value)
        return False

    def file_of(self, e, env):
        """the CbFile term a path expression denotes"""
        if isinstance(e, ast.Name) and env.get(e.id, (0, 0))[1] == 'file': return env[e.id][0]
        def idx_ok(n): return isinstance(n, ast.Name) and env.get(n.id, (0, 0))[1] in ('id', 'garbage')
        k = anchors_grow.classify_path(e, None, idx_ok)
        if k is None or k[0] not in ('batch', 'result'): return '.other'
        if env[k[1].id][1] == 'garbage': return '.other'
        return f'(.{k[0]} i)'

    def check_guard(self, test, env):
        """a length that exists only when the read went through may be looked at only behind the flag that says so"""
        lens = {k: v[2] for k, v in env.items() if len(v) > 2 and v[1] == 'num'}        # text -> guarding flags

        def walk(n, safe):
            key = _u(n)
            if key in lens:
                if not (lens[key] & safe) and lens[key]: raise Untranslatable('length of an unread result used unguarded: ' + key)
                return
            if isinstance(n, ast.BoolOp):
                s2 = set(safe)
                for v in n.values:
                    walk(v, s2)
                    if isinstance(n.op, ast.Or) and isinstance(v, ast.Name): s2 = s2 | {v.id}          # later operands: v is False
                    if isinstance(n.op, ast.And) and isinstance(v, ast.UnaryOp) and isinstance(v.op, ast.Not) and isinstance(v.operand, ast.Name):
                        s2 = s2 | {v.operand.id}
                return
            for c in ast.iter_child_nodes(n): walk(c, safe)
        walk(test, set())

    def tr(self, env):
        e2 = {k: (v[0], v[1]) for k, v in env.items() if v[1] in ('bool', 'num')}
        return Tr2(e2, 'Int')

    def emit(self, stmts, env, ind):
        self.nodes += 1
        if self.nodes > 400: raise Untranslatable('loop body too large')
        if not stmts:
            return f'{ind}((st, badIds), none)'
        s, rest = stmts[0], stmts[1:]
        if self.inert(s): return self.emit(rest, env, ind)
        if isinstance(s, ast.Assign) and len(s.targets) == 1 and isinstance(s.targets[0], ast.Name):
            tgt, v = s.targets[0].id, s.value
            if tgt in env: raise Untranslatable('re-assignment of ' + tgt)
            if isinstance(v, ast.Call) and _u(v.func) == 'read_from_disk' and len(v.args) == 1 and not v.keywords:
                f = self.file_of(v.args[0], env)
                ln = 'len' + str(sum(1 for x in env.values() if x[1] == 'num'))
                e2 = dict(env); e2[f'len({tgt})'] = (ln, 'num', frozenset())
                return (f'{ind}(match o.readLen st {f} with\n{ind}| .error e => ((st, []), some e)\n{ind}| .ok {ln} =>\n'
                        + self.emit(rest, e2, ind + '  ') + ')')
            if isinstance(v, ast.Call) and _u(v.func) == 'os.path.join':
                e2 = dict(env); e2[tgt] = (self.file_of(v, env), 'file')
                return self.emit(rest, e2, ind)
            loopvars = [k for k, x in env.items() if x[1] == 'file' and len(x) > 2]
            if len(loopvars) == 1 and any(isinstance(n, ast.Name) and n.id == loopvars[0] for n in ast.walk(v)):
                ok = _derives_id(v, loopvars[0], env[loopvars[0]][2], self.consts)
                e2 = dict(env); e2[tgt] = ('i', 'id' if ok else 'garbage')
                return self.emit(rest, e2, ind)
            raise Untranslatable('assignment ' + _u(s)[:70])
        if isinstance(s, ast.Try):
            return self.emit_try(s, rest, env, ind)
        if isinstance(s, ast.If):
            self.check_guard(s.test, env)
            c = self.tr(env).truthy(s.test)
            a = self.emit(list(s.body) + rest, env, ind + '  ')
            b = self.emit(list(s.orelse) + rest, env, ind + '  ')
            return f'{ind}if {c} then\n{a}\n{ind}else\n{b}'
        if isinstance(s, ast.Expr) and isinstance(s.value, ast.Call):
            c = s.value
            fn = _u(c.func)
            if fn in ('os.remove', 'os.unlink') and len(c.args) == 1 and not c.keywords:
                f = self.file_of(c.args[0], env)
                return f'{ind}(cbBind (o.remove st {f}) [] fun st =>\n' + self.emit(rest, env, ind + '  ') + ')'
            if fn == self.acc + '.append' and len(c.args) == 1 and not c.keywords:
                a = c.args[0]
                if not (isinstance(a, ast.Name) and env.get(a.id, (0, 0))[1] == 'id'):
                    raise Untranslatable('what is reported is not the file number: ' + _u(a)[:40])
                return f'{ind}let badIds := badIds ++ [i]\n' + self.emit(rest, env, ind)
        raise Untranslatable('statement in the loop of check_bad: ' + _u(s)[:70])

    def emit_try(self, s, rest, env, ind):
        """try: R = read_from_disk(p); flag = False  except Exception: flag = True   →  the read as a flag and a length"""
        if s.orelse or s.finalbody or len(s.handlers) != 1: raise Untranslatable('try shape')
        h = s.handlers[0]
        if not (h.type is None or _u(h.type) in ('Exception', 'BaseException')): raise Untranslatable('except clause catches only some errors')
        body = [b for b in s.body if not self.inert(b)]
        hb = [b for b in h.body if not self.inert(b)]
        reads = [b for b in body if isinstance(b, ast.Assign) and isinstance(b.value, ast.Call) and _u(b.value.func) == 'read_from_disk']
        if len(reads) != 1 or body[0] is not reads[0]: raise Untranslatable('try body does not start with the one read')
        rd = reads[0]
        if not (len(rd.targets) == 1 and isinstance(rd.targets[0], ast.Name) and len(rd.value.args) == 1 and not rd.value.keywords):
            raise Untranslatable('read shape')

        def flags(block):
            out = {}
            for b in block:
                if isinstance(b, ast.Assign) and len(b.targets) == 1 and isinstance(b.targets[0], ast.Name) \
                        and isinstance(b.value, ast.Constant) and isinstance(b.value.value, bool):
                    out[b.targets[0].id] = b.value.value
                else:
                    raise Untranslatable('statement next to the read: ' + _u(b)[:60])
            return out
        fa, fb = flags(body[1:]), flags(hb)
        if set(fa) != set(fb) or not fa: raise Untranslatable('flags set on one path only')
        names = sorted(fa)
        if any(n in env for n in names): raise Untranslatable('flag re-assigned')
        f = self.file_of(rd.value.args[0], env)
        ln = 'len' + str(sum(1 for x in env.values() if x[1] == 'num'))
        lean = {n: ''.join(w if i == 0 else w.capitalize() for i, w in enumerate(n.strip('_').split('_'))) for n in names}
        b2l = lambda v: 'true' if v else 'false'
        pat = ', '.join([lean[n] for n in names] + [ln])
        okv = ', '.join([b2l(fa[n]) for n in names] + ['n'])
        erv = ', '.join([b2l(fb[n]) for n in names] + ['(0 : Int)'])
        e2 = dict(env)
        for n in names: e2[n] = (lean[n], 'bool')
        guards = frozenset(n for n in names if fb[n] and not fa[n])          # flag true ⇒ the read failed
        if not guards: raise Untranslatable('no flag tells whether the read went through')
        e2[f'len({rd.targets[0].id})'] = (ln, 'num', guards)
        return (f'{ind}let ({pat}) := (match o.readLen st {f} with\n{ind}  | .ok n => ({okv})\n{ind}  | .error _ => ({erv}))\n'
                + self.emit(rest, e2, ind))


def a_checkBadSk(T):
    f = find(T['cropping'], ['Crop', 'check_bad'])
    args = [a.arg for a in f.args.args]
    if args != ['self', 'delete_bad'] or f.args.vararg or f.args.kwarg or f.args.kwonlyargs: raise NotFound('signature of check_bad')
    body = [b for b in f.body if not _is_doc(b)]
    listing, acc, loop, after = {}, None, None, []
    for k, st in enumerate(body):
        if isinstance(st, ast.Assign) and len(st.targets) == 1 and isinstance(st.targets[0], ast.Name):
            name, v = st.targets[0].id, st.value
            if isinstance(v, ast.Call) and _u(v.func) == 'glob.glob' and len(v.args) == 1 and not v.keywords:
                kd = anchors_grow.classify_path(v.args[0], None, anchors_grow._is_star)
                listing[name] = {'result': '.results', 'batch': '.batches'}.get(kd[0] if kd else None, '.other')
                continue
            if isinstance(v, ast.List) and not v.elts and acc is None:
                acc = name; continue
            raise Untranslatable('statement before the loop: ' + _u(st)[:60])
        if isinstance(st, ast.For):
            loop, after = st, body[k + 1:]
            break
        raise Untranslatable('statement before the loop: ' + _u(st)[:60])
    if loop is None or acc is None: raise NotFound('loop / list of bad ids')
    if loop.orelse or any(isinstance(n, (ast.Break, ast.Continue, ast.Return)) for b in loop.body for n in ast.walk(b)):
        raise Untranslatable('loop with break / continue / return / else')
    if not (isinstance(loop.target, ast.Name) and isinstance(loop.iter, ast.Name) and loop.iter.id in listing):
        raise Untranslatable('loop over ' + _u(loop.iter)[:40])
    if len(after) != 1 or not isinstance(after[0], ast.Return) or _u(after[0].value) not in (f'tuple({acc})', acc, f'list({acc})'):
        raise Untranslatable('what check_bad returns')
    kind = listing[loop.iter.id]
    var = loop.target.id
    fterm = {'.results': '(.result i)', '.batches': '(.batch i)'}.get(kind, '.other')
    env = {'delete_bad': ('deleteBad', 'bool'), var: (fterm, 'file', kind)}
    cb = _Cb(T, _message_names(loop.body), acc, _module_consts(T))
    text = cb.emit(list(loop.body), env, '    ')
    return f'\n  cbLoop (fun i st badIds =>\n{text}) (o.list st {kind}) st []'


# ================================================================================================ 3. Crop.reap
_FARMERS = {'Runner': '.runner', 'Harvester': '.harvester', 'Sampler': '.sampler'}
_TARGETS = {'self.reap_combos': ('reap_combos', '.combos', False), 'self.reap_runner': ('reap_runner', '.runner', True),
            'self.reap_harvest': ('reap_harvest', '.harvest', True), 'self.reap_samples': ('reap_samples', '.samples', True)}
_FIELDS = [('wait', 'wait', 'bool'), ('sync', 'sync', 'bool'), ('overwrite', 'overwrite', 'obool'), ('clean_up', 'cleanUp', 'obool'),
           ('allow_incomplete', 'allowIncomplete', 'bool'), ('to_df', 'toDf', 'bool')]
_REAP_ENV = {'wait': ('wait', 'bool'), 'sync': ('sync', 'bool'), 'overwrite': ('overwrite', 'obool'), 'clean_up': ('cleanUp', 'obool'),
             'allow_incomplete': ('allowIncomplete', 'bool')}


def _farmer_test(test, T):
    """`isinstance(self.farmer, C)` / `(C1, C2)` as a Lean Bool over `farmer`"""
    if not (isinstance(test, ast.Call) and _u(test.func) == 'isinstance' and len(test.args) == 2 and not test.keywords
            and _u(test.args[0]) == 'self.farmer'):
        raise Untranslatable('test of the dispatch: ' + _u(test)[:60])
    cls = test.args[1]
    names = [_u(c) for c in cls.elts] if isinstance(cls, ast.Tuple) else [_u(cls)]
    if not names or any(n not in _FARMERS for n in names): raise Untranslatable('farmer class ' + _u(cls))
    # the three classes must not inherit from one another (isinstance would then overlap)
    for n in _FARMERS:
        c = one([x for x in T['farming'].body if isinstance(x, ast.ClassDef) and x.name == n], 'class ' + n)
        if any(_u(b) != 'object' for b in c.bases): raise Untranslatable('farmer class with a base class: ' + n)
    return '(' + ' || '.join(f'farmer == {_FARMERS[n]}' for n in names) + ')'


def _reap_call(c, dicts, T):
    fn = _u(c.func)
    if fn not in _TARGETS: raise Untranslatable('reap hands on to ' + fn)
    meth, target, wants_farmer = _TARGETS[fn]
    m = find(T['cropping'], ['Crop', meth])
    a = m.args
    if a.vararg or a.kwarg or a.kwonlyargs or a.posonlyargs: raise Untranslatable('signature of ' + meth)
    pnames = [x.arg for x in a.args][1:]
    defaults = dict(zip(pnames[len(pnames) - len(a.defaults):], a.defaults))
    passed = {}
    pos = list(c.args)
    if any(isinstance(x, ast.Starred) for x in pos): raise Untranslatable('starred positional arguments')
    if len(pos) > len(pnames): raise Untranslatable('too many positional arguments')
    for p, x in zip(pnames, pos): passed[p] = x
    for k in c.keywords:
        items = [(k.arg, k.value)] if k.arg is not None else None
        if items is None:
            if not (isinstance(k.value, ast.Name) and k.value.id in dicts): raise Untranslatable('** of an unknown mapping')
            items = list(dicts[k.value.id].items())
        for key, val in items:
            if key in passed: raise Untranslatable('argument given twice: ' + key)
            if key not in pnames: raise Untranslatable(f'{meth} has no parameter {key}')
            passed[key] = val
    for p in pnames:
        if p not in passed and p not in defaults: raise Untranslatable(f'{meth}: {p} not given')
    farmer_passed = 'false'
    if wants_farmer:
        if _u(passed[pnames[0]]) == 'self.farmer': farmer_passed = 'true'
    tr = Tr2(_REAP_ENV, 'Int')
    fields = [f'target := {target}', f'farmerPassed := {farmer_passed}']
    for py, lean, ty in _FIELDS:
        if py in pnames:
            e = passed.get(py, defaults.get(py))
            v = anchors_fn._opt_bool(tr, e) if ty == 'obool' else anchors_fn._plain_bool(tr, e)
        else:
            v = 'none' if ty == 'obool' else 'false'
        fields.append(f'{lean} := {v}')
    extra = [p for p in pnames if p not in [f[0] for f in _FIELDS] and not (wants_farmer and p == pnames[0])]
    if extra: raise Untranslatable(f'{meth} has parameters the record does not know: {extra}')
    return '{ ' + ', '.join(fields) + ' }'


def _dispatch(stmts, dicts, T, ind, depth=0):
    if depth > 40: raise Untranslatable('dispatch too deep')
    if not stmts: raise Untranslatable('a path of reap returns nothing')
    s, rest = stmts[0], stmts[1:]
    if _is_doc(s) or isinstance(s, ast.Pass): return _dispatch(rest, dicts, T, ind, depth + 1)
    if isinstance(s, ast.Assign) and len(s.targets) == 1:
        t, v = s.targets[0], s.value
        if isinstance(t, ast.Name):
            if isinstance(v, ast.Call) and _u(v.func) == 'dict' and not v.args and all(k.arg for k in v.keywords):
                d2 = dict(dicts); d2[t.id] = {k.arg: k.value for k in v.keywords}
                return _dispatch(rest, d2, T, ind, depth + 1)
            if isinstance(v, ast.Dict) and all(isinstance(k, ast.Constant) and isinstance(k.value, str) for k in v.keys):
                d2 = dict(dicts); d2[t.id] = {k.value: x for k, x in zip(v.keys, v.values)}
                return _dispatch(rest, d2, T, ind, depth + 1)
        if isinstance(t, ast.Subscript) and isinstance(t.value, ast.Name) and t.value.id in dicts \
                and isinstance(t.slice, ast.Constant) and isinstance(t.slice.value, str):
            d2 = dict(dicts); d2[t.value.id] = dict(d2[t.value.id]); d2[t.value.id][t.slice.value] = v
            return _dispatch(rest, d2, T, ind, depth + 1)
        raise Untranslatable('assignment in reap: ' + _u(s)[:60])
    if isinstance(s, ast.If):
        c = _farmer_test(s.test, T)
        a = _dispatch(list(s.body) + rest, dicts, T, ind + '  ', depth + 1)
        b = _dispatch(list(s.orelse) + rest, dicts, T, ind + '  ', depth + 1)
        return f'{ind}if {c} then\n{a}\n{ind}else\n{b}'
    if isinstance(s, ast.Return) and isinstance(s.value, ast.Call):
        return ind + _reap_call(s.value, dicts, T)
    raise Untranslatable('statement in reap: ' + _u(s)[:60])


def a_reapDispatch(T):
    f = find(T['cropping'], ['Crop', 'reap'])
    a = f.args
    names = [x.arg for x in a.args][1:]
    if a.vararg or a.kwarg or a.kwonlyargs or set(names) != set(_REAP_ENV): raise NotFound('signature of reap')
    for st in ast.walk(f):
        if isinstance(st, (ast.Assign, ast.AugAssign)):
            for t in (st.targets if isinstance(st, ast.Assign) else [st.target]):
                if isinstance(t, ast.Name) and t.id in _REAP_ENV: raise Untranslatable('an option is re-assigned')
    return '\n' + _dispatch(list(f.body), {}, T, '  ')


def a_reapDefaults(T):
    """the defaults of reap's own parameters (what a call that leaves them out means): wait, sync, overwrite, clean_up, allow_incomplete"""
    f = find(T['cropping'], ['Crop', 'reap'])
    a = f.args
    names = [x.arg for x in a.args][1:]
    if len(a.defaults) != len(names): raise NotFound('a parameter of reap has no default')
    d = dict(zip(names, a.defaults))
    tr = Tr2({}, 'Int')
    out = []
    for py, lean, ty in _FIELDS[:5]:
        out.append(anchors_fn._opt_bool(tr, d[py]) if ty == 'obool' else anchors_fn._plain_bool(tr, d[py]))
    return '(' + ', '.join(out) + ')'


# ================================================================================================ delete_all
def a_deleteAllRemoves(T):
    """`Crop.delete_all` removes the crop directory itself (`shutil.rmtree(self.location)`) and nothing else"""
    f = find(T['cropping'], ['Crop', 'delete_all'])
    body = [b for b in f.body if not _is_doc(b)]
    if len(body) != 1 or not (isinstance(body[0], ast.Expr) and isinstance(body[0].value, ast.Call)): raise NotFound('delete_all shape')
    c = body[0].value
    if _u(c.func) != 'shutil.rmtree' or not c.args: raise NotFound('delete_all does not call shutil.rmtree')
    return 'true' if _u(c.args[0]) == 'self.location' and len(c.args) == 1 and not any(k.arg == 'ignore_errors' for k in c.keywords) else 'false'


# ================================================================================================ Crop.__init__ / load_crops
def _init_sync_if(T):
    f = find(T['cropping'], ['Crop', '__init__'])
    ifs = [n for n in f.body if isinstance(n, ast.If) and
           any(isinstance(c, ast.Call) and _u(c.func) == 'self._sync_info_from_disk' for b in n.body for c in ast.walk(b))]
    i = one(ifs, 'the statement that loads the settings at construction')
    if i.orelse or len(i.body) != 1 or _u(i.body[0]) != 'self._sync_info_from_disk()': raise NotFound('shape of the autoload statement')
    # nothing else is read from the crop directory when the object is made (the function is loaded on demand)
    for n in ast.walk(f):
        if isinstance(n, ast.Call) and _u(n.func) in ('self.load_function', 'self.load_info', 'read_from_disk', 'from_pickle') :
            raise NotFound('the constructor reads more than the settings')
    return f, i


def a_initAutoload(T):
    """`Crop.__init__`: the settings are read from disk exactly when this test holds"""
    from pyexpr2lean import translate
    f, i = _init_sync_if(T)
    return translate(i.test, {'autoload': ('autoload', 'bool'), 'self.is_prepared()': ('isPrepared', 'bool')}, 'bool')


def a_initAutoloadDefault(T):
    f, i = _init_sync_if(T)
    a = f.args
    kn = [x.arg for x in a.kwonlyargs]
    names = [x.arg for x in a.args]
    if 'autoload' in kn: d = a.kw_defaults[kn.index('autoload')]
    elif 'autoload' in names:
        k = names.index('autoload') - (len(names) - len(a.defaults))
        if k < 0: raise NotFound('autoload has no default')
        d = a.defaults[k]
    else: raise NotFound('no autoload parameter')
    if isinstance(d, ast.Constant) and isinstance(d.value, bool): return 'true' if d.value else 'false'
    raise Untranslatable('default of autoload')


def a_loadCropsAutoloads(T):
    """`load_crops(directory)`: every crop found is made by `Crop(name=<name>, …)` with autoload left at its default (or True),
    for the names of the sub-directories matching `^\\.xyz-(.+)`"""
    f = one([n for n in T['cropping'].body if isinstance(n, ast.FunctionDef) and n.name == 'load_crops'], 'load_crops')
    calls = [n for n in ast.walk(f) if isinstance(n, ast.Call) and _u(n.func) == 'Crop']
    c = one(calls, 'Crop(...) in load_crops')
    kw = {k.arg: k.value for k in c.keywords}
    if c.args or 'name' not in kw: raise NotFound('Crop call shape')
    al = kw.get('autoload')
    ok_auto = al is None or (isinstance(al, ast.Constant) and al.value is True)
    rgx = [n for n in ast.walk(f) if isinstance(n, ast.Call) and _u(n.func) == 're.compile' and n.args and isinstance(n.args[0], ast.Constant)]
    r = one(rgx, 'pattern of crop folders')
    return 'true' if ok_auto and r.args[0].value == '^\\.xyz-(.+)' and set(kw) <= {'name', 'parent_dir', 'autoload'} else 'false'


_FOPS = '{S E : Type} (o : FileOps S E) (st : S) : S × Option E'
ANCHORS = [
    ('writeToDisk', _FOPS, _file_sk('write_to_disk')),
    ('readFromDisk', _FOPS, _file_sk('read_from_disk')),
    ('checkBadSk', '{S E : Type} (o : CbOps S E) (deleteBad : Bool) (st : S) : (S × List Nat) × Option E', a_checkBadSk),
    ('reapDispatch', '(farmer : Farmer) (wait sync : Bool) (overwrite cleanUp : Option Bool) (allowIncomplete : Bool) : ReapCall', a_reapDispatch),
    ('reapDefaults', ': Bool × Bool × Option Bool × Option Bool × Bool', a_reapDefaults),
    ('deleteAllRemoves', ': Bool', a_deleteAllRemoves),
    ('initAutoload', '(autoload isPrepared : Bool) : Bool', a_initAutoload),
    ('initAutoloadDefault', ': Bool', a_initAutoloadDefault),
    ('loadCropsAutoloads', ': Bool', a_loadCropsAutoloads),
]
