"""Recording functions swept by the harness (DESIGN.md §3.3).

`Rec(spec)` is a picklable callable.  Called with keyword arguments it (1) appends them to the call log
(an O_APPEND file, so calls made in pool workers and grow processes are recorded too) and (2) returns a value
of the declared *kind* that injectively encodes the combination it was called with (`render(kind, code)`).
"""
import os, json, math

LOG_ENV = 'XYZV_CALLLOG'
FAIL_ENV = 'XYZV_FAILFILE'
STAGGER_ENV = 'XYZV_STAGGER'      # seconds: calls for odd-numbered combinations take this long (completion order != submission order)
STAGGER_SPREAD_ENV = 'XYZV_STAGGER_SPREAD'   # if set: 0, 1 or 2 times that long, chosen by a hash of the combination number instead


def log_path():
    return os.environ.get(LOG_ENV)


def reset_log():
    p = log_path()
    if p:
        open(p, 'w').close()


def read_log():
    p = log_path()
    if not p or not os.path.exists(p):
        return []
    with open(p) as f:
        return [json.loads(l) for l in f if l.strip()]


def _append(rec):
    p = log_path()
    if not p:
        return
    fd = os.open(p, os.O_WRONLY | os.O_APPEND | os.O_CREAT, 0o644)
    try:
        os.write(fd, (json.dumps(rec) + '\n').encode())
    finally:
        os.close(fd)


def _fill(shape, base, leaf):
    """nested list of the given shape; entries encode (base, flat index)"""
    n = 1
    for s in shape: n *= s
    flat = [_leafval(leaf, base * 1000 + i) for i in range(n)]

    def build(sh, off):
        if not sh:
            return flat[off]
        step = 1
        for s in sh[1:]: step *= s
        return [build(sh[1:], off + i * step) for i in range(sh[0])]
    return build(list(shape), 0)


def _leafval(leaf, code):
    if leaf == 'num': return float(code) + 0.5
    if leaf == 'int': return int(code)
    if leaf == 'bool': return code % 2 == 0
    if leaf == 'str': return 's%d' % code
    raise ValueError(leaf)


def render(kind, code):
    """the result a recording function of this kind returns for combination number `code`"""
    k = next(iter(kind))
    v = kind[k]
    if k == 'scalar':
        return _leafval(v, code)
    if k == 'arr':
        return _fill(v[0], code, v[1])
    if k == 'tuple':
        return tuple(_fill(sh, code * 10 + j, lf) if sh else _leafval(lf, (code * 10 + j) * 1000)
                     for j, (sh, lf) in enumerate(v))
    if k == 'ds':
        return {name: (_fill(sh, code * 10 + j, lf) if sh else _leafval(lf, (code * 10 + j) * 1000))
                for j, (name, sh, lf) in enumerate(v)}
    raise ValueError(kind)


class Rec:
    """spec = {'args': [name...], 'values': {name: [python values in rank order]}, 'kind': kind,
               'fail_codes': [...], 'as_xr': bool, 'dims': {var: [dim names]}, 'as_np': bool }"""

    def __init__(self, spec):
        self.spec = spec
        self.__name__ = spec.get('name', 'rec')

    def code(self, kw):
        c = 0
        for a in self.spec['args']:
            vals = self.spec['values'][a]
            v = kw[a]
            r = None
            for i, x in enumerate(vals):
                if x == v:
                    r = i; break
            if r is None:
                raise KeyError(f'value {v!r} of {a} not in spec')
            c = c * (len(vals) + 1) + (r + 1)
        return c

    def __call__(self, **kw):
        _append({k: (v if isinstance(v, (int, float, str, bool, type(None))) else repr(v)) for k, v in kw.items()})
        c = self.code(kw)
        st = os.environ.get(STAGGER_ENV)
        if st and os.environ.get(STAGGER_SPREAD_ENV):
            import time
            time.sleep(float(st) * (((c * 2654435761) >> 7) % 3))
        elif st and c % 2 == 1:
            import time
            time.sleep(float(st))
        if c in self.spec.get('fail_codes', ()):
            raise ValueError('boom')
        ff = os.environ.get(FAIL_ENV)
        if ff and os.path.exists(ff):
            with open(ff) as fh:
                spec = json.load(fh)
            # a list of codes (ValueError), or {'codes': [...], 'exc': name}: user functions fail in many ways, and some
            # exception classes mean something to the machinery around them (StopIteration ends an iteration silently)
            codes, exc = (spec, 'ValueError') if isinstance(spec, list) else (spec['codes'], spec.get('exc', 'ValueError'))
            if c in codes:
                raise {'ValueError': ValueError, 'StopIteration': StopIteration, 'KeyError': KeyError, 'RuntimeError': RuntimeError,
                       'ZeroDivisionError': ZeroDivisionError, 'OSError': OSError}[exc]('boom')
        out = render(self.spec['kind'], c + self.spec.get('offset', 0))     # offset: a *different* function on the same arguments
        if self.spec.get('as_np'):
            # the function hands back numpy arrays (dtype int64 / bool / <U.. / float64 by leaf) instead of nested lists
            import numpy as np
            k = next(iter(self.spec['kind']))
            if k == 'arr':
                out = np.asarray(out)
            elif k == 'tuple':
                out = tuple(np.asarray(o) if isinstance(o, list) else o for o in out)
        ax = self.spec.get('as_xr')
        if ax:
            import xarray as xr, numpy as np
            dims = self.spec['dims']
            if ax == 'dict':            # a plain dict of (dims, data) pairs: the library turns it into a Dataset
                return {name: (tuple(dims[name]), np.asarray(val)) for name, val in out.items()}
            if ax == 'dataarray':       # one named DataArray
                name, val = next(iter(out.items()))
                return xr.DataArray(np.asarray(val), dims=tuple(dims[name]), name=name)
            return xr.Dataset({name: (tuple(dims[name]), np.asarray(val)) for name, val in out.items()})
        return out


def code_of_ranks(ranks, sizes):
    """same code as Rec.code, from per-argument ranks and per-argument value counts"""
    c = 0
    for r, n in zip(ranks, sizes):
        c = c * (n + 1) + (r + 1)
    return c
