"""Save / load / merge: the remaining storage code of C05 and C14, translated on every run.

(The file name sorts after `anchors_st.py`: the definitions generated here call `Gen.hvLoadFull / hvSaveFull / hvAddDs`.)

1. STATE SKELETONS (pyst2lean, the machinery of anchors_st.py) over `o : Gen.StoreOps S D G E` and the additional record
   `x : Gen.StoreExt S D G E` (lean/XyzModel/Gen/DefaultStoreIO.lean):

     saveMergeDs       xyzpy/manage.py  save_merge_ds          (the name `fname` plays the part of `self.data_name`)
     hvDeleteDs        Harvester.delete_ds
     hvFullDs          Harvester.full_ds  (property)
     hvExpandDims      Harvester.expand_dims      load-if-none -> transform -> save_full_ds(new) / set memory
     hvDropSel         Harvester.drop_sel
     hvHarvestCombos   Harvester.harvest_combos   (`...` values read full_ds) -> run -> add_ds(sync, overwrite, engine handed on)
     hvHarvestCases    Harvester.harvest_cases

2. FUNCTION BODIES over abstract writers / readers (pyfn2lean + the handlers below):

     saveDs            save_ds: path, attribute loop, engine dispatch, stale-dtype drop, complex -> invalid_netcdf
     loadDs            load_ds: path, create_new, joblib, load_to_mem / chunks, zarr, h5netcdf -> netcdf4 retry, load-and-close
     saveDf / loadDf   save_df / load_df: pandas method name, which keyword arguments are set and handed on

Anything not recognised raises Untranslatable / NotFound: the anchor falls back to Gen/DefaultStoreIO.lean.
"""
import ast, copy
from extract import find, one, NotFound
from pyexpr2lean import Untranslatable, lean_str
from pyfn2lean import FnTr, Spec, Tr2, is_none
from pyst2lean import StSpec
from anchors_data import _merge_kind
import anchors_st as ST
from anchors_st import opt_engine, nameref, _kwarg, _call_of, _lean

FILES = {'farming': 'xyzpy/gen/farming.py', 'manage': 'xyzpy/manage.py'}
O, X = 'o', 'x'
MEM = 'self._full_ds'


def boo(n): return (n, 'bool')


# ============================================================================================== 1. state skeletons
class _Tr(ST._Tr):
    pass


class _StTr(ST._StTr):
    """+ `return self._full_ds` ends a body (any other returned value is not understood)"""

    def block(self, stmts, env, ind):
        if stmts and isinstance(stmts[0], ast.Return) and stmts[0].value is not None and not is_none(stmts[0].value):
            want = getattr(self.spec, 'returns_mem', None)
            if want is None or ast.unparse(stmts[0].value) != want:
                raise Untranslatable('returned value not understood: ' + ast.unparse(stmts[0].value)[:60])
            return ind + self.ok(env)
        return super().block(stmts, env, ind)


def _translate(spec, f):
    tr = _StTr(spec, None, find)
    return '\n' + tr.block(list(f.body), dict(spec.env), '  ')


def _sig_default(func, name):
    """the default value (AST) of parameter `name` of a function"""
    a = func.args
    pos = a.posonlyargs + a.args
    for p, d in zip(pos[len(pos) - len(a.defaults):], a.defaults):
        if p.arg == name: return d
    for p, d in zip(a.kwonlyargs, a.kw_defaults):
        if p.arg == name: return d
    raise NotFound(f'no default for {name} in {func.name}')


def _engine_default(T, fn):
    d = _sig_default(find(T['manage'], [fn]), 'engine')
    if not (isinstance(d, ast.Constant) and isinstance(d.value, str)): raise NotFound('engine default of ' + fn)
    return f'({X}.engineLit {lean_str(d.value)})'


def _st(env): return env['$trace'][0]


def _spec(file, path, env, hs, func, new_names, returns_mem=None):
    after_try, shared = ST.handlers(func, O, MEM, new_names, 'ds')
    spec = StSpec(file, path, env, handlers=list(hs) + shared)
    spec.after_try = after_try
    spec.mem_attr = MEM
    spec.returns_mem = returns_mem
    return spec


def _h_save_full(st, tr, env):
    """`self.save_full_ds(new, engine=…)`; without a new dataset the call writes what is in memory"""
    c = st.value
    eng = opt_engine(tr, _kwarg(c, 'engine', 1))
    new = _kwarg(c, 'new_full_ds', 0)
    if new is None or is_none(new):
        return [('op', f'hvSaveFull {O} dataNameNone false ({O}.mem {_st(env)}) {eng} {_st(env)}')]
    d, dty = tr.expr(new)
    if dty != 'data': raise Untranslatable('new dataset type')
    return [('op', f'hvSaveFull {O} dataNameNone true {d} {eng} {_st(env)}')]


_is_save_full = lambda st: isinstance(st, ast.Expr) and _call_of(st, ('self.save_full_ds',)) is not None


# ------------------------------------------------------------------------------------------------ save_merge_ds
class _Rename(ast.NodeTransformer):
    def __init__(self, name, to): self.name, self.to = name, to

    def visit_Name(self, n):
        return ast.parse(self.to, mode='eval').body if n.id == self.name else n


def a_saveMergeDs(T):
    f0 = find(T['manage'], ['save_merge_ds'])
    params = [a.arg for a in f0.args.args]
    if params[:3] != ['ds', 'fname', 'overwrite'] or f0.args.kwarg is None or f0.args.kwarg.arg != 'kwargs':
        raise NotFound('save_merge_ds parameters')
    if any(isinstance(n, ast.Assign) and any(ast.unparse(t) == 'fname' for t in n.targets) for n in ast.walk(f0)):
        raise Untranslatable('fname re-assigned')
    f = _Rename('fname', 'self.data_name').visit(copy.deepcopy(f0))       # the bare name of `Gen.NameRef`
    ast.fix_missing_locations(f)
    load_default, save_default = _engine_default(T, 'load_ds'), _engine_default(T, 'save_ds')

    def is_engine(st):
        return isinstance(st, ast.Assign) and len(st.targets) == 1 and ast.unparse(st.targets[0]) == 'engine'

    def h_engine(st, tr, env):
        v = st.value
        if isinstance(v, ast.Call) and ast.unparse(v.func) == 'kwargs.get' and len(v.args) == 2 and not v.keywords and \
                isinstance(v.args[0], ast.Constant) and v.args[0].value == 'engine' and \
                isinstance(v.args[1], ast.Constant) and isinstance(v.args[1].value, str):
            return [('let', 'engine', f'(kwEngine.getD ({X}.engineLit {lean_str(v.args[1].value)}))', 'tok')]
        raise Untranslatable('engine = ' + ast.unparse(v)[:60])

    def is_old(st):
        return isinstance(st, ast.Assign) and len(st.targets) == 1 and ast.unparse(st.targets[0]) == 'old_ds'

    def call_engine(c, tr, default, pos):
        """the engine a library call works with: the keyword / positional argument, else `**kwargs`' entry, else the
        callee's own default"""
        e = _kwarg(c, 'engine', pos)
        if e is not None:
            return opt_engine(tr, e)
        if any(k.arg is None and ast.unparse(k.value) == 'kwargs' for k in c.keywords):
            return f'(some (kwEngine.getD {default}))'
        if any(k.arg is None for k in c.keywords): raise Untranslatable('** of something else')
        return f'(some {default})'

    def h_old(st, tr, env):
        v = st.value
        if isinstance(v, ast.Call) and ast.unparse(v.func) == 'load_ds':
            if len(v.args) < 1 or any(k.arg not in ('engine', None) for k in v.keywords) or len(v.args) > 2:
                raise Untranslatable('load_ds arguments')
            nm = nameref(v.args[0], tr, env)
            return [('val', f'{O}.loadData {_st(env)} {nm} {call_engine(v, tr, load_default, 1)}', [('old_ds', 'oldDs', 'data')])]
        if ast.unparse(v) == 'xr.Dataset()':
            return [('let', 'old_ds', f'{X}.emptyData', 'data')]
        raise Untranslatable('old_ds = ' + ast.unparse(v)[:60])

    def is_new(st):
        return isinstance(st, ast.Assign) and len(st.targets) == 1 and ast.unparse(st.targets[0]) == 'new_ds'

    def h_new(st, tr, env):
        mk = _merge_kind(st.value, 'old_ds', 'ds')
        return [('val', f'{O}.merge {mk} {tr.expr(ast.Name(id="old_ds"))[0]} ds', [('new_ds', 'newDs', 'data')])]

    def h_save(st, tr, env):
        c = _call_of(st, ('save_ds',))
        if len(c.args) < 2 or len(c.args) > 3 or any(k.arg not in ('engine', None) for k in c.keywords):
            raise Untranslatable('save_ds arguments')
        d, dty = tr.expr(c.args[0])
        if dty != 'data' or not isinstance(c.args[0], ast.Name): raise Untranslatable('save_ds of a non-dataset')
        eng = call_engine(c, tr, save_default, 2)
        return [('op', f'{O}.saveData {_st(env)} {d} {nameref(c.args[1], tr, env)} {eng}'),
                ('let', c.args[0].id, f'({O}.afterSave {eng} {d})', 'data')]

    env = {'ds': ('ds', 'data'), 'overwrite': ('overwrite', 'obool')}
    hs = [(is_engine, h_engine), (is_old, h_old), (is_new, h_new),
          (lambda st: isinstance(st, ast.Expr) and _call_of(st, ('save_ds',)) is not None, h_save)]
    return _translate(_spec('manage', ['save_merge_ds'], env, hs, f, ['ds']), f)


# ------------------------------------------------------------------------------------------------ Harvester methods
def _hv_env(extra=()):
    env = ST._base_env(O, MEM, 'ds')
    env["self.engine == 'zarr'"] = (f'({O}.isZarr (some ({O}.selfEngine st)))', 'bool')
    env["self.engine != 'zarr'"] = (f'(!{O}.isZarr (some ({O}.selfEngine st)))', 'bool')
    env.update(extra)
    return env


def _hv(T, name): return find(T['farming'], ['Harvester', name])


def a_hvDeleteDs(T):
    f = _hv(T, 'delete_ds')

    def is_backup(st):
        return isinstance(st, ast.If) and ast.unparse(st.test) == 'backup'

    def h_backup(st, tr, env):
        if st.orelse: raise Untranslatable('else of `if backup`')
        copies = []
        for b in st.body:
            if isinstance(b, (ast.Import, ast.ImportFrom)): continue
            if isinstance(b, ast.Assign) and len(b.targets) == 1 and isinstance(b.targets[0], ast.Name) and \
                    b.targets[0].id not in env and not any(isinstance(n, ast.Attribute) and ast.unparse(n).startswith('self.')
                                                         for n in ast.walk(b.value)):
                continue            # the time stamp
            c = _call_of(b, ('shutil.copy', 'shutil.copy2', 'shutil.copyfile')) if isinstance(b, ast.Expr) else None
            if c is None or len(c.args) != 2 or c.keywords: raise Untranslatable('statement in `if backup`: ' + ast.unparse(b)[:60])
            src, dst = c.args
            # the copy goes to <src> + '.BAK-…': some other name next to it
            if not (isinstance(dst, ast.BinOp) and isinstance(dst.op, ast.Add) and ast.unparse(dst.left) == ast.unparse(src)
                    and '.BAK' in ast.unparse(dst.right)):
                raise Untranslatable('backup target')
            copies.append(nameref(src, tr, env))
        nm = one(copies, 'copy in `if backup`')
        s = _st(env)
        return [('op', f'(if backup then {X}.copyBak {s} {nm} else ({s}, none))')]

    env = _hv_env({'backup': boo('backup')})
    del env['engine']
    return _translate(_spec('farming', ['Harvester', 'delete_ds'], env, [(is_backup, h_backup)], f, ['new_ds']), f)


def a_hvFullDs(T):
    f = _hv(T, 'full_ds')
    if not any(isinstance(d, ast.Name) and d.id == 'property' for d in f.decorator_list): raise NotFound('full_ds property')
    env = _hv_env()
    del env['engine']
    return _translate(_spec('farming', ['Harvester', 'full_ds'], env, [], f, ['new_ds'], returns_mem=MEM), f)


def _rewrite(meth, after=()):
    """expand_dims / drop_sel: `new = self.full_ds.<meth>(…)` [+ statements on `new`], then save or set memory"""
    def a(T):
        f = _hv(T, meth)
        made = []

        def is_xf(st):
            return isinstance(st, ast.Assign) and len(st.targets) == 1 and isinstance(st.targets[0], ast.Name) and \
                isinstance(st.value, ast.Call) and isinstance(st.value.func, ast.Attribute) and \
                ast.unparse(st.value.func.value) == 'self.full_ds'

        def h_xf(st, tr, env):
            if st.value.func.attr != meth: raise Untranslatable('another transformation: ' + st.value.func.attr)
            if made: raise Untranslatable('two transformations')
            key = st.targets[0].id
            made.append(key)
            s = _st(env)
            return [('op', f'hvFullDs {O} {X} {s}'),
                    ('val', f'(if {O}.memIsNone {s} then Except.error {X}.noneAttr else xf ({O}.mem {s}))', [(key, _lean(key), 'data')])]

        def is_touch(st):
            """`new.coords[name] = [value]`: part of the transformation (the abstract `xf`)"""
            return isinstance(st, ast.Assign) and len(st.targets) == 1 and isinstance(st.targets[0], ast.Subscript) and \
                isinstance(st.targets[0].value, ast.Attribute) and st.targets[0].value.attr == 'coords' and \
                isinstance(st.targets[0].value.value, ast.Name) and st.targets[0].value.value.id in made and \
                'self.' not in ast.unparse(st.value)

        env = _hv_env()
        hs = [(is_xf, h_xf), (is_touch, lambda st, tr, env: []), (_is_save_full, _h_save_full)]
        return _translate(_spec('farming', ['Harvester', meth], env, hs, f, ['new_ds']), f)
    return a


def _obool(tr, e):
    if e is None or is_none(e): return 'none'
    if isinstance(e, ast.Constant) and isinstance(e.value, bool): return f'(some {"true" if e.value else "false"})'
    t, ty = tr.expr(e)
    if ty == 'obool': return t
    if ty == 'bool': return f'(some {t})'
    raise Untranslatable('overwrite value: ' + ast.unparse(e))


def _harvest(meth, run_fn):
    def a(T):
        f = _hv(T, meth)
        add = _hv(T, 'add_ds')
        add_params = [p.arg for p in add.args.args]
        if add_params[:2] != ['self', 'new_ds'] or add.args.vararg or add.args.kwarg: raise NotFound('add_ds parameters')

        def arg(c, name):
            v = _kwarg(c, name, add_params.index(name) - 1 if name in add_params else None)
            return v if v is not None else _sig_default(add, name)

        def is_combos(st):
            return isinstance(st, ast.Assign) and len(st.targets) == 1 and ast.unparse(st.targets[0]) in ('combos', 'cases') \
                and 'add_ds' not in ast.unparse(st.value) and 'save' not in ast.unparse(st.value) and 'self._full_ds' not in ast.unparse(st.value)

        def h_combos(st, tr, env):
            # `...` as a value means "every value of that coordinate in the full dataset": reads the `full_ds` property
            if 'self.full_ds' in ast.unparse(st.value):
                if 'usesEllipsis' not in [v[0] for v in env.values()]: raise Untranslatable('full_ds read in ' + meth)
                s = _st(env)
                return [('op', f'(if usesEllipsis then hvFullDs {O} {X} {s} else ({s}, none))')]
            return []

        def is_run(st):
            return isinstance(st, ast.Assign) and len(st.targets) == 1 and isinstance(st.targets[0], ast.Name) and \
                isinstance(st.value, ast.Call) and ast.unparse(st.value.func) == run_fn

        def h_run(st, tr, env):
            return [('val', 'run', [(st.targets[0].id, _lean(st.targets[0].id), 'data')])]

        def h_add(st, tr, env):
            c = st.value
            if len(c.args) > 1 or any(k.arg is None for k in c.keywords): raise Untranslatable('add_ds arguments')
            new = _kwarg(c, 'new_ds', 0)
            d, dty = tr.expr(new)
            if dty != 'data': raise Untranslatable('add_ds of a non-dataset')
            sync = tr.truthy(arg(c, 'sync'))
            ow = _obool(tr, arg(c, 'overwrite'))
            eng = opt_engine(tr, arg(c, 'engine'))
            return [('op', f'hvAddDs {O} dataNameNone {sync} {ow} {d} {eng} {_st(env)}')]

        env = _hv_env({'sync': boo('sync'), 'overwrite': ('overwrite', 'obool')})
        if meth == 'harvest_combos':
            env['$ellipsis'] = ('usesEllipsis', 'bool')
        hs = [(is_combos, h_combos), (is_run, h_run),
              (lambda st: isinstance(st, ast.Expr) and _call_of(st, ('self.add_ds',)) is not None, h_add)]
        return _translate(_spec('farming', ['Harvester', meth], env, hs, f, ['new_ds']), f)
    return a


def _chunks_handed_on(meth):
    """is the call's `chunks` handed to add_ds? (dask is outside the model: recorded as a fact of its own)"""
    def a(T):
        f = _hv(T, meth)
        c = one([n for n in ast.walk(f) if isinstance(n, ast.Call) and ast.unparse(n.func) == 'self.add_ds'], 'add_ds call')
        add_params = [p.arg for p in _hv(T, 'add_ds').args.args]
        if any(k.arg is None for k in c.keywords) or any(isinstance(a, ast.Starred) for a in c.args):
            raise Untranslatable('add_ds called with splatted arguments: what is handed on is not visible here')
        v = _kwarg(c, 'chunks', add_params.index('chunks') - 1)
        if any(isinstance(n, (ast.Assign, ast.AugAssign)) and 'chunks' in ast.unparse(getattr(n, 'targets', [getattr(n, 'target', None)])[0])
               for n in ast.walk(f)):
            raise Untranslatable('chunks re-assigned')
        return 'true' if v is not None and ast.unparse(v) == 'chunks' else 'false'
    return a


a_hvExpandDims = _rewrite('expand_dims')
a_hvDropSel = _rewrite('drop_sel')
a_hvHarvestCombos = _harvest('harvest_combos', 'self.runner.run_combos')
a_hvHarvestCases = _harvest('harvest_cases', 'self.runner.run_cases')


# ============================================================================================== 2. save_ds / load_ds
class _IoTr(FnTr):
    """pyfn2lean + declared statements (handlers: predicate -> fn(stmt, tr, env) -> steps) whose value is the call the
    body ends with.  steps: ('let', key, term, type)   ('final', term)"""

    def block(self, stmts, env, ind):
        if stmts:
            s, rest = stmts[0], stmts[1:]
            for pred, handler in self.spec.handlers:
                if pred(s):
                    steps = handler(s, self.tr(env), env)
                    out = ''
                    for st in steps:
                        if st[0] == 'final':
                            return out + ind + st[1]
                        _, key, term, ty = st
                        env, ln = self.assign(env, key, term, ty)
                        out += f'{ind}{ln}\n'
                    return out + self.block(rest, env, ind)
        return super().block(stmts, env, ind)

    def assign(self, env, key, term, ty):
        if key.startswith('$'):
            e2 = dict(env); name = key[1:]; e2[key] = (name, ty)
            return e2, f'let {name} := {term}'
        return super().assign(env, key, term, ty)

    def err(self, env, code):
        return self.spec.raise_term(code)

    def ok(self, env, ret=None):
        raise Untranslatable('a returned value that is not declared')

    def fall_off(self, env):
        return self.spec.end_term(env)


def _io_translate(spec, f):
    tr = _IoTr(spec, None, find)
    return '\n' + tr.block(list(f.body), dict(spec.env), '  ')


def _is_ext_assign(st):
    return isinstance(st, ast.Assign) and len(st.targets) == 1 and ast.unparse(st.targets[0]) == 'file_name'


def _h_ext_assign(st, tr, env):
    v = st.value
    if isinstance(v, ast.Call) and ast.unparse(v.func) == 'auto_add_extension' and len(v.args) == 2 and not v.keywords:
        a, at = tr.expr(v.args[0]); b, bt = tr.expr(v.args[1])
        if at == 'str' and bt == 'str':
            return [('let', 'file_name', f'(ext {a} {b})', 'str')]
    raise Untranslatable('file_name = ' + ast.unparse(v)[:60])


def _only_kwargs_star(c, allowed=()):
    """keywords of a call: the named ones (dict) and whether `**kwargs` is handed on"""
    named, star = {}, False
    for k in c.keywords:
        if k.arg is None:
            if ast.unparse(k.value) != 'kwargs': raise Untranslatable('** of ' + ast.unparse(k.value))
            star = True
        else:
            if k.arg not in allowed: raise Untranslatable('keyword ' + k.arg)
            named[k.arg] = k.value
    return named, star


# ------------------------------------------------------------------------------------------------ save_ds
def a_saveDs(T):
    f = find(T['manage'], ['save_ds'])
    if [a.arg for a in f.args.args] != ['ds', 'file_name', 'engine'] or not f.args.kwarg or f.args.kwarg.arg != 'kwargs':
        raise NotFound('save_ds parameters')

    # ---- the attribute loop: for attr, val in ds.attrs.items(): <ifs assigning ds.attrs[attr]>
    def is_attr_loop(st):
        return isinstance(st, ast.For) and ast.unparse(st.iter) in ('ds.attrs.items()', 'list(ds.attrs.items())', 'tuple(ds.attrs.items())')

    def attr_test(t, k, v, tr):
        if isinstance(t, ast.BoolOp):
            return '(' + (' && ' if isinstance(t.op, ast.And) else ' || ').join(attr_test(x, k, v, tr) for x in t.values) + ')'
        if isinstance(t, ast.UnaryOp) and isinstance(t.op, ast.Not):
            return f'(!{attr_test(t.operand, k, v, tr)})'
        if isinstance(t, ast.Compare) and len(t.ops) == 1 and ast.unparse(t.left) == v and isinstance(t.comparators[0], ast.Constant) \
                and (t.comparators[0].value is None or isinstance(t.comparators[0].value, bool)):
            c = t.comparators[0].value
            what = 'None' if c is None else 'True' if c else 'False'
            op = t.ops[0]
            if isinstance(op, ast.Is): return f'(a.is{what} val)'
            if isinstance(op, ast.IsNot): return f'(!a.is{what} val)'
            if isinstance(op, ast.Eq): return f'(a.eq{what} val)'
            if isinstance(op, ast.NotEq): return f'(!a.eq{what} val)'
        if not any(isinstance(n, ast.Name) and n.id in (k, v) for n in ast.walk(t)):
            c, ty = tr.expr(t)          # a test on the engine
            if ty == 'bool': return c
        raise Untranslatable('attribute test: ' + ast.unparse(t)[:60])

    def attr_body(stmts, k, v, tr, ind):
        """the value `ds.attrs[attr]` holds after the statements, as a Lean term in `val` (the value iterated) and `cur`"""
        if not stmts:
            return f'{ind}cur'
        s, rest = stmts[0], stmts[1:]
        if isinstance(s, ast.Pass):
            return attr_body(rest, k, v, tr, ind)
        if isinstance(s, ast.Assign) and len(s.targets) == 1 and ast.unparse(s.targets[0]) == f'ds.attrs[{k}]' and \
                isinstance(s.value, ast.Constant) and isinstance(s.value.value, str):
            return f'{ind}let cur := a.str {lean_str(s.value.value)}\n' + attr_body(rest, k, v, tr, ind)
        if isinstance(s, ast.If):
            c = attr_test(s.test, k, v, tr)
            x = attr_body(list(s.body), k, v, tr, ind + '    ')
            y = attr_body(list(s.orelse), k, v, tr, ind + '    ')
            return f'{ind}let cur := if {c} then\n{x}\n{ind}  else\n{y}\n' + attr_body(rest, k, v, tr, ind)
        raise Untranslatable('statement in the attribute loop: ' + ast.unparse(s)[:60])

    def h_attr_loop(st, tr, env):
        if st.orelse or not (isinstance(st.target, ast.Tuple) and len(st.target.elts) == 2 and
                             all(isinstance(x, ast.Name) for x in st.target.elts)):
            raise Untranslatable('attribute loop header')
        k, v = (x.id for x in st.target.elts)
        body = attr_body(list(st.body), k, v, tr, '        ')
        attrs = env['ds.attrs'][0]
        return [('let', 'ds.attrs', f'({attrs}.map fun kv =>\n      (kv.1,\n        let val := kv.2\n        let cur := val\n{body}))', 'attrs')]

    # ---- the stale-dtype loop: for v in ds.variables.values(): enc = v.encoding.get('dtype', None); if …: del v.encoding['dtype']
    def is_var_loop(st):
        return isinstance(st, ast.For) and ast.unparse(st.iter) == 'ds.variables.values()' and isinstance(st.target, ast.Name)

    def h_var_loop(st, tr, env):
        v = st.target.id
        venv = {f'{v}.dtype': ('v.dtype', 'str'), f"'scale_factor' in {v}.encoding": ('v.hasScale', 'bool'),
                f"'add_offset' in {v}.encoding": ('v.hasOffset', 'bool'),
                f"'scale_factor' not in {v}.encoding": ('(!v.hasScale)', 'bool'),
                f"'add_offset' not in {v}.encoding": ('(!v.hasOffset)', 'bool')}
        enc_name, cond = None, None
        for b in st.body:
            if isinstance(b, ast.Assign) and len(b.targets) == 1 and isinstance(b.targets[0], ast.Name) and \
                    ast.unparse(b.value) in (f"{v}.encoding.get('dtype', None)", f"{v}.encoding.get('dtype')") and cond is None:
                enc_name = b.targets[0].id
                venv[f'{enc_name} is not None'] = ('v.encDtype.isSome', 'bool')
                venv[f'{enc_name} is None'] = ('v.encDtype.isNone', 'bool')
                venv[f'np.dtype({enc_name}) != {v}.dtype'] = ('(npDtype v.encDtype != v.dtype)', 'bool')
                venv[f'np.dtype({enc_name}) == {v}.dtype'] = ('(npDtype v.encDtype == v.dtype)', 'bool')
            elif isinstance(b, ast.If) and not b.orelse and len(b.body) == 1 and cond is None and \
                    ast.unparse(b.body[0]) in (f"del {v}.encoding['dtype']", f"{v}.encoding.pop('dtype')", f"{v}.encoding.pop('dtype', None)"):
                c, ty = Tr2(venv).expr(b.test)
                if ty != 'bool': raise Untranslatable('stale-dtype test')
                cond = c
            else:
                raise Untranslatable('statement in the encoding loop: ' + ast.unparse(b)[:60])
        if cond is None: raise Untranslatable('no encoding drop in the loop')
        return [('let', '$dropDtype', f'(vars.map fun v => {cond})', 'drops')]

    # ---- complex data
    def is_complex(st):
        return isinstance(st, ast.If) and 'iscomplexobj' in ast.unparse(st.test)

    def h_complex(st, tr, env):
        t = ast.unparse(st.test)
        if t not in ('any((np.iscomplexobj(v.values) for v in ds.variables.values()))',
                     'any([np.iscomplexobj(v.values) for v in ds.variables.values()])') or st.orelse or len(st.body) != 1:
            raise Untranslatable('complex test')
        b = ast.unparse(st.body[0])
        inv = env['$invalid'][0]
        if b == "kwargs.setdefault('invalid_netcdf', True)":
            new = f'(some ({inv}.getD true))'
        elif b == "kwargs['invalid_netcdf'] = True":
            new = '(some true)'
        else:
            raise Untranslatable('complex branch: ' + b[:60])
        return [('let', '$invalid', f'(if vars.any (·.isComplex) then {new} else {inv})', 'oinv')]

    # ---- the writers
    def is_writer(st):
        return isinstance(st, ast.Expr) and isinstance(st.value, ast.Call) and \
            ast.unparse(st.value.func) in ('joblib.dump', 'ds.to_zarr', 'ds.to_netcdf')

    def h_writer(st, tr, env):
        c = st.value
        fn = ast.unparse(c.func)
        named, star = _only_kwargs_star(c, ('engine',) if fn == 'ds.to_netcdf' else ())
        if not star: raise Untranslatable('writer called without **kwargs')
        args = list(c.args)
        if fn == 'joblib.dump':
            if len(args) != 2 or ast.unparse(args[0]) != 'ds': raise Untranslatable('joblib.dump arguments')
            w, p = '.joblibDump', args[1]
        elif fn == 'ds.to_zarr':
            if len(args) != 1: raise Untranslatable('to_zarr arguments')
            w, p = '.toZarr', args[0]
        else:
            if len(args) != 1 or 'engine' not in named: raise Untranslatable('to_netcdf arguments')
            e, ety = tr.expr(named['engine'])
            if ety != 'str': raise Untranslatable('to_netcdf engine')
            w, p = f'(.toNetcdf {e} {env["$invalid"][0]})', args[0]
        path, pty = tr.expr(p)
        if pty != 'str': raise Untranslatable('writer path')
        term = (f'{{ writer := {w}, path := {path}, attrs := {env["ds.attrs"][0]}, dropDtype := {env["$dropDtype"][0]} }}')
        return [('let', '$call', f'(some ({term} : SaveCall A))', 'call')]

    def end_term(env):
        if env['$call'][0] == 'none': raise Untranslatable('a path of save_ds writes nothing')
        return env['$call'][0]

    env = {'file_name': ('fileName', 'str'), 'engine': ('engine', 'str'), 'ds.attrs': ('attrs', 'attrs'),
           '$dropDtype': ('(vars.map fun _ => false)', 'drops'), '$invalid': ('kwInvalid', 'oinv'), '$call': ('none', 'call')}
    spec = Spec('manage', ['save_ds'], env)
    spec.handlers = [(_is_ext_assign, _h_ext_assign), (is_attr_loop, h_attr_loop), (is_var_loop, h_var_loop),
                     (is_complex, h_complex), (is_writer, h_writer)]
    spec.raise_term = lambda code: (_ for _ in ()).throw(Untranslatable('raise in save_ds'))
    spec.end_term = end_term
    return _io_translate(spec, f)


# ------------------------------------------------------------------------------------------------ load_ds
def a_loadDs(T):
    f = find(T['manage'], ['load_ds'])
    if [a.arg for a in f.args.args] != ['file_name', 'engine', 'load_to_mem', 'create_new', 'chunks'] or not f.args.kwarg:
        raise NotFound('load_ds parameters')
    opts = {}

    def read(reader, path, chunks, lc='false'):
        return f'{{ reader := {reader}, path := {path}, chunksHandedOn := {chunks}, loadAndClose := {lc} }}'

    def chunks_of(named):
        if 'chunks' not in named: return 'false'
        if ast.unparse(named['chunks']) != 'chunks': raise Untranslatable('chunks argument')
        return 'true'

    def is_return(st):
        return isinstance(st, ast.Return) and st.value is not None and not is_none(st.value)

    def h_return(st, tr, env):
        v = st.value
        if ast.unparse(v) == 'xr.Dataset()':
            return [('final', '.empty')]
        if isinstance(v, ast.Name) and v.id in env and env[v.id][1] == 'read':
            return [('final', f'.read {env[v.id][0]}')]
        if isinstance(v, ast.Call) and ast.unparse(v.func) == 'joblib.load' and len(v.args) == 1:
            _only_kwargs_star(v)
            p, pty = tr.expr(v.args[0])
            if pty == 'str':
                return [('final', '.read ' + read('.joblibLoad', p, 'false'))]
        raise Untranslatable('returned: ' + ast.unparse(v)[:60])

    def is_opts(st):
        return isinstance(st, ast.Assign) and len(st.targets) == 1 and ast.unparse(st.targets[0]) == 'opts'

    def h_opts(st, tr, env):
        v = st.value
        if not (isinstance(v, ast.Call) and ast.unparse(v.func) == 'dict' and not v.args): raise Untranslatable('opts')
        named, star = _only_kwargs_star(v, ('engine', 'chunks'))
        if 'engine' not in named: raise Untranslatable('opts without engine')
        opts['engine'] = named['engine']; opts['chunks'] = chunks_of(named)
        return []

    def open_call(v, tr, env):
        """xr.open_zarr(file_name, chunks=chunks, **kwargs) / xr.open_dataset(file_name, **opts | engine=…, chunks=…)"""
        fn = ast.unparse(v.func)
        if len(v.args) != 1: raise Untranslatable(fn + ' arguments')
        p, pty = tr.expr(v.args[0])
        if pty != 'str': raise Untranslatable('reader path')
        if fn == 'xr.open_zarr':
            named, _ = _only_kwargs_star(v, ('chunks',))
            return '.openZarr', p, chunks_of(named)
        if fn == 'xr.open_dataset':
            if [ast.unparse(k.value) for k in v.keywords if k.arg is None] == ['opts'] and len(v.keywords) == 1 and opts:
                e, ety = tr.expr(opts['engine'])
                ch = opts['chunks']
            else:
                named, _ = _only_kwargs_star(v, ('engine', 'chunks'))
                if 'engine' not in named: raise Untranslatable('open_dataset without engine')
                e, ety = tr.expr(named['engine'])
                ch = chunks_of(named)
            if ety != 'str': raise Untranslatable('reader engine')
            return e, p, ch
        raise Untranslatable('reader ' + fn)

    def is_open(st):
        return isinstance(st, ast.Assign) and len(st.targets) == 1 and isinstance(st.targets[0], ast.Name) and \
            isinstance(st.value, ast.Call) and ast.unparse(st.value.func) in ('xr.open_zarr', 'xr.open_dataset')

    def h_open(st, tr, env):
        r, p, ch = open_call(st.value, tr, env)
        if r != '.openZarr': r = f'(.openDataset {r} none)'
        return [('let', st.targets[0].id, read(r, p, ch), 'read')]

    def is_try(st):
        return isinstance(st, ast.Try)

    def h_try(st, tr, env):
        """try: ds = xr.open_dataset(name, **opts)
           except AttributeError as e: if <about e> and <engine test>: opts['engine'] = <lit>; ds = xr.open_dataset(name, **opts) else: raise e"""
        if st.orelse or st.finalbody or len(st.handlers) != 1 or len(st.body) != 1 or not is_open(st.body[0]):
            raise Untranslatable('try shape')
        key = st.body[0].targets[0].id
        e0, p0, ch0 = open_call(st.body[0].value, tr, env)
        h = st.handlers[0]
        if ast.unparse(h.type) != 'AttributeError' or not h.name or len(h.body) != 1 or not isinstance(h.body[0], ast.If):
            raise Untranslatable('except shape')
        i = h.body[0]
        if len(i.orelse) != 1 or not isinstance(i.orelse[0], ast.Raise) or ast.unparse(i.orelse[0].exc or ast.Name(id='')) not in (h.name, ''):
            raise Untranslatable('the other errors are not re-raised')
        tests = i.test.values if isinstance(i.test, ast.BoolOp) and isinstance(i.test.op, ast.And) else [i.test]
        mine = [t for t in tests if not any(isinstance(n, ast.Name) and n.id == h.name for n in ast.walk(t))]
        if len(mine) == len(tests): raise Untranslatable('retry does not look at the error')
        cond = '(' + ' && '.join(tr.truthy(t) for t in mine) + ')' if mine else 'true'
        if len(i.body) != 2 or not (isinstance(i.body[0], ast.Assign) and ast.unparse(i.body[0].targets[0]) == "opts['engine']" and
                                    isinstance(i.body[0].value, ast.Constant) and isinstance(i.body[0].value.value, str)):
            raise Untranslatable('retry body')
        second = i.body[1]
        if not (is_open(second) and second.targets[0].id == key and ast.unparse(second.value) == ast.unparse(st.body[0].value)
                and [ast.unparse(k.value) for k in second.value.keywords if k.arg is None] == ['opts']):
            raise Untranslatable('retry call')
        retry = f'(if {cond} then some {lean_str(i.body[0].value.value)} else none)'
        return [('let', key, read(f'(.openDataset {e0} {retry})', p0, ch0), 'read')]

    def is_load_close(st):
        return isinstance(st, ast.If) and not st.orelse and [ast.unparse(b) for b in st.body][:1] == ['ds.load()']

    def h_load_close(st, tr, env):
        if [ast.unparse(b) for b in st.body] != ['ds.load()', 'ds.close()'] or env.get('ds', (None, None))[1] != 'read':
            raise Untranslatable('load-and-close body')
        c = tr.truthy(st.test)
        d = env['ds'][0]
        return [('let', 'ds', f'(if {c} then {{ {d} with loadAndClose := true }} else {d})', 'read')]

    class _LTr(_IoTr):
        def assign(self, env, key, term, ty):
            if ty == 'read':
                e2 = dict(env); name = key.strip('_'); e2[key] = (name, 'read')
                return e2, f'let {name} : ReadCall := {term}'
            return super().assign(env, key, term, ty)

    env = {'file_name': ('fileName', 'str'), 'engine': ('engine', 'str'), 'load_to_mem': ('loadToMem', 'obool'),
           'create_new': ('createNew', 'bool'), 'chunks': ('chunks', 'otok'),
           'os.path.exists(file_name)': ('(pathExists fileName)', 'bool')}
    spec = Spec('manage', ['load_ds'], env)
    spec.handlers = [(_is_ext_assign, _h_ext_assign), (is_return, h_return), (is_opts, h_opts), (is_open, h_open),
                     (is_try, h_try), (is_load_close, h_load_close)]
    spec.raise_term = lambda code: f'.raise {code}'
    spec.end_term = lambda env: (_ for _ in ()).throw(Untranslatable('a path of load_ds returns nothing'))
    tr = _LTr(spec, None, find)
    return '\n' + tr.block(list(f.body), dict(spec.env), '  ')


# ------------------------------------------------------------------------------------------------ save_df / load_df
def _df(fn, obj):
    def a(T):
        f = find(T['manage'], [fn])
        if [a_.arg for a_ in f.args.args] != obj + ['name', 'engine', 'key'] or not f.args.kwarg: raise NotFound(fn + ' parameters')
        meth_name = {}

        def is_meth(st):
            return isinstance(st, ast.Assign) and len(st.targets) == 1 and isinstance(st.targets[0], ast.Name) and \
                isinstance(st.value, ast.Call) and isinstance(st.value.func, ast.Attribute) and st.value.func.attr == 'format' and \
                isinstance(st.value.func.value, ast.Constant) and isinstance(st.value.func.value.value, str)

        def h_meth(st, tr, env):
            lit = st.value.func.value.value
            if lit.count('{}') != 1 or len(st.value.args) != 1 or ast.unparse(st.value.args[0]) != 'engine' or st.value.keywords:
                raise Untranslatable('method name')
            a_, b_ = lit.split('{}')
            meth_name[st.targets[0].id] = True
            return [('let', st.targets[0].id, f'({lean_str(a_)} ++ engine ++ {lean_str(b_)})', 'str')]

        def is_kw(st):
            return (isinstance(st, ast.Assign) and ast.unparse(st.targets[0]).startswith('kwargs[')) or \
                (isinstance(st, ast.Expr) and ast.unparse(st.value).startswith('kwargs.setdefault('))

        def h_kw(st, tr, env):
            t = ast.unparse(st)
            if t == "kwargs['key'] = key": return [('let', '$key', 'true', 'bool')]
            if t == "kwargs.setdefault('index', False)": return [('let', '$index', 'true', 'bool')]
            raise Untranslatable('keyword set: ' + t[:60])

        def is_call(st):
            v = st.value if isinstance(st, (ast.Expr, ast.Return)) else None
            return isinstance(v, ast.Call) and isinstance(v.func, ast.Call) and ast.unparse(v.func.func) == 'getattr'

        def h_call(st, tr, env):
            v = st.value
            g = v.func
            recv = 'df' if fn == 'save_df' else 'pd'
            if len(g.args) != 2 or ast.unparse(g.args[0]) != recv or not isinstance(g.args[1], ast.Name) or g.args[1].id not in meth_name:
                raise Untranslatable('getattr arguments')
            if (fn == 'save_df') != isinstance(st, ast.Expr): raise Untranslatable('value of the call')
            if len(v.args) != 1 or ast.unparse(v.args[0]) != 'name': raise Untranslatable('file argument')
            _, star = _only_kwargs_star(v)
            m, _ = tr.expr(g.args[1])
            return [('final', f'{{ method := {m}, keyGiven := {env["$key"][0]} && {"true" if star else "false"}, '
                              f'indexFalse := {env["$index"][0]} && {"true" if star else "false"}, '
                              f'kwargsHandedOn := {"true" if star else "false"} }}')]

        env = {'engine': ('engine', 'str'), '$key': ('false', 'bool'), '$index': ('false', 'bool')}
        spec = Spec('manage', [fn], env)
        spec.handlers = [(is_meth, h_meth), (is_kw, h_kw), (is_call, h_call)]
        spec.raise_term = lambda code: (_ for _ in ()).throw(Untranslatable('raise in ' + fn))
        spec.end_term = lambda env: (_ for _ in ()).throw(Untranslatable('a path calls nothing'))
        return _io_translate(spec, f)
    return a


_OPS = '{S D G E : Type} (o : StoreOps S D G E) (x : StoreExt S D G E)'
_RES = '(st : S) : S × Option E'
ANCHORS = [
    ('saveMergeDs', f'{_OPS} (overwrite : Option Bool) (ds : D) (kwEngine : Option G) {_RES}', a_saveMergeDs),
    ('hvDeleteDs', f'{_OPS} (backup : Bool) {_RES}', a_hvDeleteDs),
    ('hvFullDs', f'{_OPS} {_RES}', a_hvFullDs),
    ('hvExpandDims', f'{_OPS} (dataNameNone : Bool) (xf : D → Except E D) (engine : Option G) {_RES}', a_hvExpandDims),
    ('hvDropSel', f'{_OPS} (dataNameNone : Bool) (xf : D → Except E D) (engine : Option G) {_RES}', a_hvDropSel),
    ('hvHarvestCombos', f'{_OPS} (dataNameNone usesEllipsis sync : Bool) (overwrite : Option Bool) (run : Except E D) '
                        f'(engine : Option G) {_RES}', a_hvHarvestCombos),
    ('hvHarvestCases', f'{_OPS} (dataNameNone sync : Bool) (overwrite : Option Bool) (run : Except E D) '
                       f'(engine : Option G) {_RES}', a_hvHarvestCases),
    ('hvHarvestCombosChunks', ': Bool', _chunks_handed_on('harvest_combos')),
    ('hvHarvestCasesChunks', ': Bool', _chunks_handed_on('harvest_cases')),
    ('saveDs', '{A : Type} (a : AttrOps A) (ext : String → String → String) (fileName engine : String) '
               '(attrs : List (String × A)) (vars : List VarEnc) (kwInvalid : Option Bool) : Option (SaveCall A)', a_saveDs),
    ('loadDs', '{C : Type} (ext : String → String → String) (pathExists : String → Bool) (fileName engine : String) '
               '(loadToMem : Option Bool) (createNew : Bool) (chunks : Option C) : LoadOutcome', a_loadDs),
    ('saveDf', '(engine : String) : DfCall', _df('save_df', ['df'])),
    ('loadDf', '(engine : String) : DfCall', _df('load_df', [])),
]
