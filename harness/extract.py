"""Regenerate lean/XyzModel/Gen/Extracted.lean from the current source of the repository (DESIGN.md §3.2).

Each anchor is located by function + syntactic role (never by line number) and translated by pyexpr2lean.
An anchor that cannot be located/translated is emitted as `def x := Gen.Default.x` with status `fallback`.
"""
import ast, os, sys, json, hashlib, warnings
warnings.filterwarnings('ignore', category=SyntaxWarning)
from pyexpr2lean import translate, Untranslatable, lean_str

HERE = os.path.dirname(os.path.abspath(__file__))
VERIF = os.path.dirname(HERE)
REPO = os.environ.get('XYZ_REPO', '/repo')
OUT = os.path.join(VERIF, 'lean', 'XyzModel', 'Gen', 'Extracted.lean')


class NotFound(Exception):
    pass


def find(node, path):
    for name in path:
        for n in ast.walk(node):
            if isinstance(n, (ast.FunctionDef, ast.ClassDef)) and n.name == name and n is not node:
                node = n
                break
        else:
            raise NotFound('/'.join(path))
    return node


def assigns(func, target):
    out = []
    for n in ast.walk(func):
        if isinstance(n, ast.Assign) and any(ast.unparse(t) == target for t in n.targets):
            out.append(n.value)
        if isinstance(n, ast.AugAssign) and ast.unparse(n.target) == target:
            out.append(n)
    return out


def one(xs, what):
    xs = list(xs)
    if len(xs) != 1:
        raise NotFound(f'{what}: {len(xs)} candidates')
    return xs[0]


def num(x): return (x, 'num')
def boo(x): return (x, 'bool')


# --------------------------------------------------------------------------- anchors

def a_nbFromBs(T):
    f = find(T['cropping'], ['Crop', 'choose_batch_settings'])
    v = one([v for v in assigns(f, 'self.num_batches') if 'ceil' in ast.unparse(v)], 'num_batches = ceil')
    return translate(v, {'n': num('n'), 'self.batchsize': num('batchsize')}, 'num')


def a_capNb(T):
    f = find(T['cropping'], ['Crop', 'choose_batch_settings'])
    v = one([v for v in assigns(f, 'self.num_batches') if 'ceil' not in ast.unparse(v)], 'num_batches = min')
    return translate(v, {'n': num('n'), 'self.num_batches': num('numBatches')}, 'num')


def _divmod(T):
    f = find(T['cropping'], ['Crop', 'choose_batch_settings'])
    cands = [n for n in ast.walk(f) if isinstance(n, ast.Assign) and isinstance(n.targets[0], ast.Tuple)
             and [ast.unparse(t) for t in n.targets[0].elts] == ['self.batchsize', 'self._batch_remainder']]
    a = one(cands, 'batchsize, remainder = ...')
    v = a.value
    if isinstance(v, ast.Call) and ast.unparse(v.func) == 'divmod' and len(v.args) == 2:
        return (ast.BinOp(v.args[0], ast.FloorDiv(), v.args[1]), ast.BinOp(v.args[0], ast.Mod(), v.args[1]))
    if isinstance(v, ast.Tuple) and len(v.elts) == 2:
        return v.elts[0], v.elts[1]
    raise NotFound('divmod shape')


def a_bsOfNb(T):
    return translate(_divmod(T)[0], {'n': num('n'), 'self.num_batches': num('numBatches')}, 'num')


def a_remOfNb(T):
    return translate(_divmod(T)[1], {'n': num('n'), 'self.num_batches': num('numBatches')}, 'num')


def a_bothOk(T):
    f = find(T['cropping'], ['Crop', 'choose_batch_settings'])
    ifs = [n for n in ast.walk(f) if isinstance(n, ast.If) and 'pos_tot' in ast.unparse(n.test)
           and any(isinstance(b, ast.Raise) for b in n.body)]
    test = one(ifs, 'pos_tot check').test
    if not (isinstance(test, ast.UnaryOp) and isinstance(test.op, ast.Not)):
        raise NotFound('pos_tot check not of the form `not (...)`')
    return translate(test.operand, {'n': num('n'), 'self.batchsize': num('batchsize'), 'pos_tot': num('posTot')}, 'bool')


def a_sowerGetsExtra(T):
    f = find(T['cropping'], ['Sower', '__call__'])
    v = one(assigns(f, 'extra_batch'), 'extra_batch')
    return translate(v, {'self._batch_counter': num('batchCounter'), 'self.crop._batch_remainder': num('remainder')}, 'bool')


def a_sowerFlush(T):
    f = find(T['cropping'], ['Sower', '__call__'])
    ifs = [n for n in ast.walk(f) if isinstance(n, ast.If) and 'save_batch' in ast.unparse(n.body[0])]
    test = one(ifs, 'flush test').test
    return translate(test, {'self._counter': num('counter'), 'self.crop.batchsize': num('batchsize'),
                            'extra_batch': boo('extraBatch')}, 'bool')


def a_reaperDefaultSize(T):
    f = find(T['cropping'], ['Reaper', '__init__'])
    v = one(assigns(f, 'size'), 'size')
    return translate(v, {'crop.batchsize': num('batchsize'), 'self.crop.batchsize': num('batchsize'), 'i': num('i'),
                         'crop._batch_remainder': num('remainder'), 'self.crop._batch_remainder': num('remainder')}, 'num')


def a_isReady(T):
    f = find(T['cropping'], ['Crop', 'is_ready_to_reap'])
    r = one([n for n in ast.walk(f) if isinstance(n, ast.Return)], 'return')
    return translate(r.value, {'self._num_results': num('numResults'), 'self.num_results': num('numResults'),
                               'self.num_sown_batches': num('numSown'), 'self._num_sown_batches': num('numSown')}, 'bool')


def a_cleanUpDefault(T):
    f = find(T['cropping'], ['calc_clean_up_default_res'])
    ifs = [n for n in f.body if isinstance(n, ast.If) and ast.unparse(n.test) == 'clean_up is None']
    i = one(ifs, 'if clean_up is None')
    if len(i.body) != 1 or i.orelse or not isinstance(i.body[0], ast.Assign) or ast.unparse(i.body[0].targets[0]) != 'clean_up':
        raise NotFound('clean_up default shape')
    e = translate(i.body[0].value, {'allow_incomplete': boo('allowIncomplete'), 'clean_up': boo('cleanUp')}, 'bool')
    return f'(if cleanUpIsNone then {e} else cleanUp)'


def _defers_cleanup(T, fname, sync_call):
    """does `fname` pass clean_up=False to reap_runner and call delete_all only after the farmer's sync call?"""
    f = find(T['cropping'], ['Crop', fname])
    calls = [n for n in ast.walk(f) if isinstance(n, ast.Call)]
    rr = one([c for c in calls if ast.unparse(c.func) == 'self.reap_runner'], 'reap_runner call')
    cu = [k.value for k in rr.keywords if k.arg == 'clean_up']
    passes_false = len(cu) == 1 and isinstance(cu[0], ast.Constant) and cu[0].value is False
    sync = [c for c in calls if ast.unparse(c.func).endswith(sync_call)]
    dele = [c for c in calls if ast.unparse(c.func) == 'self.delete_all']
    if not passes_false:
        return 'false'
    if len(sync) != 1 or len(dele) != 1:
        raise NotFound('sync / delete_all calls')
    after = (dele[0].lineno, dele[0].col_offset) > (sync[0].end_lineno, sync[0].end_col_offset)
    # the deletion must not sit in a finally / except block
    for n in ast.walk(f):
        if isinstance(n, ast.Try):
            for blk in n.finalbody + [h for hd in n.handlers for h in hd.body]:
                if any(c is dele[0] for c in ast.walk(blk)): after = False
    return 'true' if after else 'false'


def a_harvestDefersCleanup(T): return _defers_cleanup(T, 'reap_harvest', '.add_ds')
def a_samplesDefersCleanup(T): return _defers_cleanup(T, 'reap_samples', '.add_df')


ANCHORS = [
    # name, Lean signature, extractor
    ('nbFromBs', '(n batchsize : Int) : Int', a_nbFromBs),
    ('capNb', '(n numBatches : Int) : Int', a_capNb),
    ('bsOfNb', '(n numBatches : Int) : Int', a_bsOfNb),
    ('remOfNb', '(n numBatches : Int) : Int', a_remOfNb),
    ('bothOk', '(n batchsize posTot : Int) : Bool', a_bothOk),
    ('sowerGetsExtra', '(batchCounter remainder : Int) : Bool', a_sowerGetsExtra),
    ('sowerFlush', '(counter batchsize : Int) (extraBatch : Bool) : Bool', a_sowerFlush),
    ('isReady', '(numResults numSown : Int) : Bool', a_isReady),
    ('cleanUpDefault', '(cleanUpIsNone cleanUp allowIncomplete : Bool) : Bool', a_cleanUpDefault),
    ('harvestDefersCleanup', ': Bool', a_harvestDefersCleanup),
    ('samplesDefersCleanup', ': Bool', a_samplesDefersCleanup),
]

FILES = {
    'cropping': 'xyzpy/gen/cropping.py',
    'combo_runner': 'xyzpy/gen/combo_runner.py',
    'farming': 'xyzpy/gen/farming.py',
    'manage': 'xyzpy/manage.py',
    'utils': 'xyzpy/utils.py',
    'core': 'xyzpy/plot/core.py',
}


def _load_plugins():
    """anchor plug-ins: every harness/anchors_*.py may define ANCHORS (same triples) and FILES (extra sources)"""
    import glob, importlib
    for f in sorted(glob.glob(os.path.join(HERE, 'anchors_*.py'))):
        m = importlib.import_module(os.path.basename(f)[:-3])
        FILES.update(getattr(m, 'FILES', {}))
        have = {n for n, _, _ in ANCHORS}
        for a in m.ANCHORS:
            if a[0] not in have:
                ANCHORS.append(a)


_PLUGINS_LOADED = False


def ensure_plugins():
    global _PLUGINS_LOADED
    if not _PLUGINS_LOADED:
        _PLUGINS_LOADED = True
        _load_plugins()


def default_imports():
    d = os.path.join(VERIF, 'lean', 'XyzModel', 'Gen')
    return sorted('XyzModel.Gen.' + f[:-5] for f in os.listdir(d) if f.startswith('Default') and f.endswith('.lean'))


def generate(repo=None, force_fallback=()):
    ensure_plugins()
    repo = repo or REPO
    T, status = {}, {}
    for k, rel in FILES.items():
        try:
            T[k] = ast.parse(open(os.path.join(repo, rel)).read())
        except Exception as e:  # unreadable / syntax error: every anchor of that file falls back
            T[k] = ast.parse('')
    lines = ['import ' + m for m in default_imports()] + [
             '/-! GENERATED by harness/extract.py from the repository source — do not edit. -/',
             'namespace Gen', '']
    for name, sig, fn in ANCHORS:
        if name in force_fallback:
            status[name] = {'status': 'fallback', 'why': 'generated definition did not elaborate'}
            lines.append(f'def {name} := @Gen.Default.{name}')
            continue
        try:
            term = fn(T)
            status[name] = {'status': 'translated', 'lean': term}
            if sig is None:
                lines.append(f'def {name} := {term}')
            else:
                lines.append(f'def {name} {sig} := {term}')
        except (NotFound, Untranslatable, KeyError, IndexError, AttributeError, TypeError, ValueError) as e:
            status[name] = {'status': 'fallback', 'why': f'{type(e).__name__}: {e}'[:300]}
            lines.append(f'def {name} := @Gen.Default.{name}')
    lines += ['', 'end Gen', '']
    return '\n'.join(lines), status


def write(text):
    old = open(OUT).read() if os.path.exists(OUT) else None
    if old != text:
        tmp = OUT + '.tmp%d' % os.getpid()
        with open(tmp, 'w') as f:
            f.write(text)
        os.replace(tmp, OUT)
        return True
    return False


def main():
    text, status = generate()
    changed = write(text)
    print(json.dumps({'changed': changed, 'status': status}, indent=1, ensure_ascii=False))


if __name__ == '__main__':
    sys.path.insert(0, HERE)
    import extract as _self        # run through the importable module so that plug-ins can `from extract import ...`
    _self.main()
