"""Extraction anchors of the plotting family (C17, C18): see lean/XyzModel/Gen/DefaultPlot.lean."""
import ast
from pyexpr2lean import translate, lean_str

FILES = {'core': 'xyzpy/plot/core.py', 'infiniplot': 'xyzpy/plot/infiniplot.py'}


# Local copies of extract.find/one/num/boo (not imported: extract.py loads this plug-in while it is itself being
# imported, and may also run as __main__).  NotFound derives from ValueError, which extract.generate() catches.
class NotFound(ValueError):
    pass


def find(node, path):
    for name in path:
        for n in ast.walk(node):
            if isinstance(n, (ast.FunctionDef, ast.ClassDef)) and n.name == name and n is not node:
                node = n
                break
        else:
            raise NotFound('/'.join(path))
    return node


def one(xs, what):
    xs = list(xs)
    if len(xs) != 1:
        raise NotFound(f'{what}: {len(xs)} candidates')
    return xs[0]


def num(x): return (x, 'num')
def boo(x): return (x, 'bool')


def _mask_chain(func, target, env):
    """`t = e0` followed by any number of `t &= ek` inside `func` -> the conjunction, translated with `env`"""
    first = [n for n in ast.walk(func) if isinstance(n, ast.Assign) and any(ast.unparse(t) == target for t in n.targets)]
    a = one(first, f'{target} = ...')
    augs = [n for n in ast.walk(func) if isinstance(n, ast.AugAssign) and ast.unparse(n.target) == target]
    for n in augs:
        if not isinstance(n.op, ast.BitAnd): raise NotFound(f'{target}: augmented assignment is not &=')
    augs.sort(key=lambda n: n.lineno)
    parts = [a.value] + [n.value for n in augs]
    e = parts[0] if len(parts) == 1 else ast.BoolOp(ast.And(), parts)
    return translate(ast.fix_missing_locations(e), env, 'bool')


def a_maskIsBothFinite(T):
    f = find(T['core'], ['Plotter', 'prepare_xy_vals_lineplot', 'gen_xy'])
    return _mask_chain(f, 'not_null', {"np.isfinite(data['x'])": boo('xFinite'), "np.isfinite(data['y'])": boo('yFinite')})


def a_autoLegend(T):
    f = find(T['core'], ['Plotter', 'calc_use_legend_or_colorbar', 'auto_legend'])
    r = one([n for n in ast.walk(f) if isinstance(n, ast.Return)], 'return')
    return translate(r.value, {'len(self._z_vals)': num('n')}, 'bool')


def _tuple_src(T, name):
    for n in T['infiniplot'].body:
        if isinstance(n, ast.Assign) and any(ast.unparse(t) == name for t in n.targets):
            if not isinstance(n.value, (ast.Tuple, ast.List)): raise NotFound(name + ' is not a literal sequence')
            return '[' + ', '.join(lean_str(ast.unparse(e)) for e in n.value.elts) + ']'
    raise NotFound(name)


def a_markersDefault(T):
    return _tuple_src(T, '_MARKERS_DEFAULT')


def a_linestylesDefault(T):
    return _tuple_src(T, '_LINESTYLES_DEFAULT')


def a_infMaskBothNotNull(T):
    f = find(T['infiniplot'], ['Infiniplotter', 'plot_lines'])
    return _mask_chain(f, 'mask', {'ds_loc[self.y].notnull().values': boo('yNotNull'),
                                   'ds_loc[self.x].notnull().values': boo('xNotNull')})


ANCHORS = [
    ('maskIsBothFinite', '(xFinite yFinite : Bool) : Bool', a_maskIsBothFinite),
    ('autoLegend', '(n : Int) : Bool', a_autoLegend),
    ('markersDefault', ': List String', a_markersDefault),
    ('linestylesDefault', ': List String', a_linestylesDefault),
    ('infMaskBothNotNull', '(yNotNull xNotNull : Bool) : Bool', a_infMaskBothNotNull),
]
