"""Extraction anchors of the plotting family (C17, C18): see lean/XyzModel/Gen/DefaultPlot.lean."""
import ast
from pyexpr2lean import translate, lean_str

FILES = {'core': 'xyzpy/plot/core.py', 'infiniplot': 'xyzpy/plot/infiniplot.py'}


# Local copies of extract.find/one/num/boo (not imported: extract.py loads this plug-in while it is itself being
# imported, and may also run as __main__).  NotFound derives from ValueError, which extract.generate() catches.
class NotFound(ValueError):
    pass


def find(node, path):
    for name in path:
        for n in ast.walk(node):
            if isinstance(n, (ast.FunctionDef, ast.ClassDef)) and n.name == name and n is not node:
                node = n
                break
        else:
            raise NotFound('/'.join(path))
    return node


def one(xs, what):
    xs = list(xs)
    if len(xs) != 1:
        raise NotFound(f'{what}: {len(xs)} candidates')
    return xs[0]


def num(x): return (x, 'num')
def boo(x): return (x, 'bool')


def _mask_parts(func, target):
    """`t = e0` followed by any number of `t &= ek` inside `func` -> [e0, e1, ...]"""
    first = [n for n in ast.walk(func) if isinstance(n, ast.Assign) and any(ast.unparse(t) == target for t in n.targets)]
    a = one(first, f'{target} = ...')
    augs = [n for n in ast.walk(func) if isinstance(n, ast.AugAssign) and ast.unparse(n.target) == target]
    for n in augs:
        if not isinstance(n.op, ast.BitAnd): raise NotFound(f'{target}: augmented assignment is not &=')
    augs.sort(key=lambda n: n.lineno)
    return [a.value] + [n.value for n in augs]


def _mask_chain(func, target, env):
    """the conjunction of the parts of the mask, translated with `env`"""
    parts = _mask_parts(func, target)
    e = parts[0] if len(parts) == 1 else ast.BoolOp(ast.And(), parts)
    return translate(ast.fix_missing_locations(e), env, 'bool')


def a_maskIsBothFinite(T):
    f = find(T['core'], ['Plotter', 'prepare_xy_vals_lineplot', 'gen_xy'])
    return _mask_chain(f, 'not_null', {"np.isfinite(data['x'])": boo('xFinite'), "np.isfinite(data['y'])": boo('yFinite')})


def a_maskArrays(T):
    """which prepared arrays enter the missing-data mask: every part of the `not_null` chain must be a conjunction of
    `np.isfinite(data['<key>'])` terms; the keys, in order.  Any other shape (a loop over the arrays, another test) is
    not translated: the anchor falls back and the drawn points decide."""
    f = find(T['core'], ['Plotter', 'prepare_xy_vals_lineplot', 'gen_xy'])
    keys = []

    def term(e):
        if isinstance(e, ast.BoolOp) and isinstance(e.op, ast.And):
            for v in e.values: term(v)
        elif isinstance(e, ast.BinOp) and isinstance(e.op, ast.BitAnd):
            term(e.left); term(e.right)
        elif (isinstance(e, ast.Call) and ast.unparse(e.func) == 'np.isfinite' and len(e.args) == 1 and not e.keywords
              and isinstance(e.args[0], ast.Subscript) and ast.unparse(e.args[0].value) == 'data'
              and isinstance(e.args[0].slice, ast.Constant) and isinstance(e.args[0].slice.value, str)):
            if e.args[0].slice.value not in keys: keys.append(e.args[0].slice.value)
        else:
            raise NotFound('mask term is not np.isfinite(data[<key>]): ' + ast.unparse(e)[:80])
    for part in _mask_parts(f, 'not_null'): term(part)
    return '[' + ', '.join(lean_str(k) for k in keys) + ']'


def _limit_defaulted(T, attr, data_attr):
    """calc_color_norm: the condition on the caller's limit `self.<attr>` under which it is replaced by the data limit
    `self.<data_attr>`.  Recognised shapes of the one statement assigning `self.<attr>`:
        if TEST: self.vmin = self._zmin                        -> TEST
        self.vmin = self._zmin if TEST else self.vmin          -> TEST      (and the mirrored form -> not TEST)
        self.vmin = self.vmin or self._zmin                    -> not bool(self.vmin)
    TEST is translated with: `self.vmin is None` -> isNone, `self.vmin == 0` -> isZero, `self.vmin` used as a truth value
    -> not (isNone or isZero)."""
    f = find(T['core'], ['Plotter', 'calc_color_norm'])
    tgt, dflt = 'self.' + attr, 'self.' + data_attr
    truthy = '(!(isNone || isZero))'
    env = {f'{tgt} is None': boo('isNone'), f'{tgt} is not None': boo('(!isNone)'), f'{tgt} == None': boo('isNone'),
           f'{tgt} != None': boo('(!isNone)'), f'{tgt} == 0': boo('isZero'), f'{tgt} != 0': boo('(!isZero)'),
           f'{tgt} == 0.0': boo('isZero'), f'{tgt} != 0.0': boo('(!isZero)'), f'bool({tgt})': boo(truthy), tgt: boo(truthy)}
    stmts = [n for n in ast.walk(f) if isinstance(n, (ast.Assign, ast.AugAssign, ast.AnnAssign))
             and any(ast.unparse(t) == tgt for t in (n.targets if isinstance(n, ast.Assign) else [n.target]))]
    a = one(stmts, f'{tgt} = ...')
    if not isinstance(a, ast.Assign) or len(a.targets) != 1: raise NotFound(f'{tgt}: not a plain assignment')
    if any(a is b for b in f.body):                                  # unconditional statement of the function
        v = a.value
        if isinstance(v, ast.BoolOp) and isinstance(v.op, ast.Or) and [ast.unparse(x) for x in v.values] == [tgt, dflt]:
            return f'(!{truthy})'
        if isinstance(v, ast.IfExp) and ast.unparse(v.body) == dflt and ast.unparse(v.orelse) == tgt:
            return translate(v.test, env, 'bool')
        if isinstance(v, ast.IfExp) and ast.unparse(v.body) == tgt and ast.unparse(v.orelse) == dflt:
            return '(!' + translate(v.test, env, 'bool') + ')'
        raise NotFound(f'{tgt}: unrecognised defaulting expression {ast.unparse(v)[:80]}')
    ifs = [n for n in f.body if isinstance(n, ast.If) and len(n.body) == 1 and n.body[0] is a and not n.orelse]
    i = one(ifs, f'if ...: {tgt} = {dflt}')
    if ast.unparse(a.value) != dflt: raise NotFound(f'{tgt} is not defaulted to {dflt}')
    return translate(i.test, env, 'bool')


def a_vminDefaulted(T): return _limit_defaulted(T, 'vmin', '_zmin')
def a_vmaxDefaulted(T): return _limit_defaulted(T, 'vmax', '_zmax')


def a_autoLegend(T):
    f = find(T['core'], ['Plotter', 'calc_use_legend_or_colorbar', 'auto_legend'])
    r = one([n for n in ast.walk(f) if isinstance(n, ast.Return)], 'return')
    return translate(r.value, {'len(self._z_vals)': num('n')}, 'bool')


def _tuple_src(T, name):
    for n in T['infiniplot'].body:
        if isinstance(n, ast.Assign) and any(ast.unparse(t) == name for t in n.targets):
            if not isinstance(n.value, (ast.Tuple, ast.List)): raise NotFound(name + ' is not a literal sequence')
            return '[' + ', '.join(lean_str(ast.unparse(e)) for e in n.value.elts) + ']'
    raise NotFound(name)


def a_markersDefault(T):
    return _tuple_src(T, '_MARKERS_DEFAULT')


def a_linestylesDefault(T):
    return _tuple_src(T, '_LINESTYLES_DEFAULT')


def a_infMaskBothNotNull(T):
    f = find(T['infiniplot'], ['Infiniplotter', 'plot_lines'])
    return _mask_chain(f, 'mask', {'ds_loc[self.y].notnull().values': boo('yNotNull'),
                                   'ds_loc[self.x].notnull().values': boo('xNotNull')})


ANCHORS = [
    ('maskIsBothFinite', '(xFinite yFinite : Bool) : Bool', a_maskIsBothFinite),
    ('maskArrays', ': List String', a_maskArrays),
    ('vminDefaulted', '(isNone isZero : Bool) : Bool', a_vminDefaulted),
    ('vmaxDefaulted', '(isNone isZero : Bool) : Bool', a_vmaxDefaulted),
    ('autoLegend', '(n : Int) : Bool', a_autoLegend),
    ('markersDefault', ': List String', a_markersDefault),
    ('linestylesDefault', ': List String', a_linestylesDefault),
    ('infMaskBothNotNull', '(yNotNull xNotNull : Bool) : Bool', a_infMaskBothNotNull),
]
