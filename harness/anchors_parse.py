"""Extraction anchors of the input parsers (xyzpy/gen/prepare.py): the tests that decide how a spelling is read.

Used by XyzModel/VarDims.lean (C03) and XyzModel/ParseCases.lean (C02)."""
import ast
from extract import find, one, NotFound
from pyexpr2lean import translate

FILES = {'prepare': 'xyzpy/gen/prepare.py'}


def num(n): return (n, 'num')
def boo(n): return (n, 'bool')


def _any_call(T):
    """the `any(<pred> for x in var_dims)` inside the list/tuple branch of parse_var_dims"""
    f = find(T['prepare'], ['parse_var_dims'])
    calls = [n for n in ast.walk(f) if isinstance(n, ast.Call) and isinstance(n.func, ast.Name) and n.func.id in ('any', 'all')
             and len(n.args) == 1 and isinstance(n.args[0], ast.GeneratorExp)]
    c = one(calls, 'any(...) over var_dims')
    g = c.args[0]
    if len(g.generators) != 1 or ast.unparse(g.generators[0].iter) != 'var_dims' or ast.unparse(g.generators[0].target) != 'x' \
            or g.generators[0].ifs:
        raise NotFound('generator shape')
    return c, g.elt


def a_varDimsElemCorr(T):
    _, elt = _any_call(T)
    return translate(elt, {'isinstance(x, str)': boo('isStr'), 'len(x) == 0': boo('isEmpty'), 'len(x)': num('(if isEmpty then 0 else 1)'),
                           'x[0] not in var_names': boo('(!firstInNames)'), 'x[0] in var_names': boo('firstInNames')}, 'bool')


def a_varDimsQuantAny(T):
    c, _ = _any_call(T)
    return 'true' if c.func.id == 'any' else 'false'


def a_varDimsStrRefused(T):
    """`if len(var_names) != 1: raise` in the single-string branch"""
    f = find(T['prepare'], ['parse_var_dims'])
    ifs = [n for n in ast.walk(f) if isinstance(n, ast.If) and ast.unparse(n.test) == 'isinstance(var_dims, str)']
    br = one(ifs, 'isinstance(var_dims, str) branch')
    inner = [n for n in br.body if isinstance(n, ast.If) and any(isinstance(x, ast.Raise) for x in n.body)]
    i = one(inner, 'length test')
    return translate(i.test, {'len(var_names)': num('n')}, 'bool')


def a_casesWrapBare(T):
    """parse_cases: when are the given rows bare values that must be wrapped into 1-tuples?"""
    f = find(T['prepare'], ['parse_cases'])
    ifs = [n for n in f.body if isinstance(n, ast.If) and len(n.body) == 1 and isinstance(n.body[0], ast.Assign)
           and ast.unparse(n.body[0].targets[0]) == 'cases' and 'for c in cases' in ast.unparse(n.body[0].value)
           and ast.unparse(n.body[0].value).startswith('tuple(((c,)')]
    i = one(ifs, 'wrap test')
    return translate(i.test, {'isinstance(cases[0], str)': boo('firstIsStr'), 'isiterable(cases[0])': boo('firstIsIterable')}, 'bool')


ANCHORS = [
    ('varDimsElemCorr', '(isStr isEmpty firstInNames : Bool) : Bool', a_varDimsElemCorr),
    ('varDimsQuantAny', ': Bool', a_varDimsQuantAny),
    ('varDimsStrRefused', '(n : Int) : Bool', a_varDimsStrRefused),
    ('casesWrapBare', '(firstIsStr firstIsIterable : Bool) : Bool', a_casesWrapBare),
]
