"""Runner descriptions, canonical Dataset/DataFrame forms and model rendering shared by C03 / C05 / C06 / C15."""
import itertools, json, math
import common, fns, sweeps
from common import canon

INTERNAL = {'t': [0.5, 1.5, 2.5], 'w': [10, 20]}


def gen_desc(rng, auto=False, to_df=False, max_out=3):
    """a runner description for a recording function; internal dims come from var_coords or from a constant"""
    n_out = rng.randint(1, max_out)
    names = ['x', 'yy', 'z'][:n_out]
    dims = []
    for _ in names:
        dims.append([] if to_df else rng.choice([[], [], ['t'], ['t', 'w'], ['w']]))
    used = sorted({d for ds in dims for d in ds})
    via_const = [d for d in used if rng.random() < 0.4]
    desc = {'names': names, 'dims': dims,
            'var_coords': {} if auto else {d: INTERNAL[d] for d in used if d not in via_const},
            'constants': {d: INTERNAL[d] for d in via_const},
            'resources': {}, 'attrs': {}, 'auto': auto}
    if not any(dims) and not auto and rng.random() < 0.25: desc['leaf'] = 'str'
    if auto:
        # what the function returns: a Dataset, a plain dict of (dims, data) pairs, or (one variable) a named DataArray
        desc['xr_form'] = rng.choice([True, True, 'dict'] + (['dataarray', 'dataarray'] if n_out == 1 else []))
    if rng.random() < 0.5: desc['constants']['k0'] = rng.choice([3, 'cc', 2.5])
    if rng.random() < 0.4: desc['resources']['big'] = 'R'
    if rng.random() < 0.4: desc['attrs']['note'] = rng.choice(['hello', 7])
    return desc


def kind_of(desc):
    shapes = [[len(INTERNAL[d]) for d in ds] for ds in desc['dims']]
    lf = desc.get('leaf', 'num')
    if desc['auto']:
        return {'ds': [[n, sh, 'num'] for n, sh in zip(desc['names'], shapes)]}
    if len(shapes) == 1:
        return {'arr': [shapes[0], 'num']} if shapes[0] else {'scalar': lf}
    return {'tuple': [[sh, lf] for sh in shapes]}


def model_desc(desc):
    d = {'varNames': [] if desc['auto'] else desc['names'], 'varDims': desc['dims'],
         'varCoords': sorted(desc['var_coords']), 'constants': list(desc['constants']),
         'resources': list(desc['resources']), 'attrs': list(desc['attrs'])}
    if desc['auto']:
        d['autoVars'] = [{'name': n, 'dims': ds} for n, ds in zip(desc['names'], desc['dims'])]
    return d


def spell_var_names(desc, rng):
    if desc['auto']: return None
    n = desc['names']
    if len(n) == 1 and rng.random() < 0.5: return n[0]
    return rng.choice([list(n), tuple(n)])


def spell_var_dims(desc, rng):
    if desc['auto']: return None
    names, dims = desc['names'], desc['dims']
    if not any(dims): return rng.choice([None, {}, {names[0]: ()}])
    style = rng.choice(['dict', 'dict_tuplekeys', 'corr', 'str'])
    if style == 'str' and len(names) == 1 and len(dims[0]) == 1: return dims[0][0]
    if style == 'corr': return [tuple(d) if len(d) != 1 or rng.random() < 0.5 else d[0] for d in dims]
    if style == 'dict_tuplekeys':
        groups = {}
        for n, d in zip(names, dims): groups.setdefault(tuple(d), []).append(n)
        return {(tuple(ns) if len(ns) > 1 else ns[0]): (d if len(d) != 1 else d[0]) for d, ns in groups.items() if d}
    return {n: (tuple(d) if len(d) != 1 or rng.random() < 0.5 else d[0]) for n, d in zip(names, dims) if d or rng.random() < 0.3}


def make_fn(sw, desc):
    kind = kind_of(desc)
    if desc['auto']:
        return sweeps.make_rec(sw, kind, as_xr=desc.get('xr_form') or True, dims={n: ds for n, ds in zip(desc['names'], desc['dims'])})
    return sweeps.make_rec(sw, kind)


# ----------------------------------------------------------------------------- canonical forms

def canon_ds(ds):
    import numpy as np
    out = {'dims': {str(k): int(v) for k, v in ds.sizes.items()},
           'coords': {str(c): canon(ds[c].values) for c in ds.coords},
           'vars': {str(v): {'dims': [str(d) for d in ds[v].dims], 'data': canon(np.asarray(ds[v].values))} for v in ds.data_vars},
           'attrs': {str(k): canon(v) for k, v in ds.attrs.items()}}
    return out


def canon_df(df):
    import numpy as np
    rows = []
    for _, r in df.iterrows():
        rows.append({str(k): canon(v.item() if isinstance(v, np.generic) else v) for k, v in r.items()})
    return rows


def expected_ds(rep, sw, desc):
    """canonical Dataset predicted by the model reply of op `tods`"""
    kind = kind_of(desc); sz = sweeps.sizes(sw); k = len(desc['names'])
    coords, dims = {}, {}
    for name, ranks in rep['dims']:
        coords[name] = [canon(sw['values'][name][r]) for r in ranks]
        dims[name] = len(ranks)
    for name in rep['extraCoords']:
        vals = desc['var_coords'].get(name, desc['constants'].get(name))
        coords[name] = canon(vals)
    vars_ = {}

    def cell(o):
        if isinstance(o, list): return [cell(x) for x in o]
        if 'c' in o:
            loc, j = o['c']
            v = fns.render(kind, fns.code_of_ranks(loc, sz))
            if desc['auto']: v = v[desc['names'][j]]
            elif k > 1: v = v[j]
            return canon(v)
        if 'm' in o: return sweeps.render_val(o['m'])
        raise ValueError(o)
    for v in rep['vars']:
        vars_[v['name']] = {'dims': v['dims'], 'data': cell(v['data'])}
        for d in v['dims']:
            if d not in dims: dims[d] = len(INTERNAL[d])
    attrs = {}
    for a in rep['attrs']:
        attrs[a] = canon(desc['attrs'].get(a, desc['constants'].get(a)))
    return {'dims': dims, 'coords': coords, 'vars': vars_, 'attrs': attrs}


def expected_df(rep, sw, desc):
    kind = kind_of(desc); sz = sweeps.sizes(sw); k = len(desc['names'])
    fa = sweeps.fn_args(sw)
    rows = []
    for r in rep['rows']:
        row = {a: canon(sw['values'][a][x]) for a, x in zip(fa, r['loc'])}
        for e in r['extra']:
            row[e] = canon(desc['attrs'].get(e, desc['constants'].get(e)))
        v = fns.render(kind, fns.code_of_ranks(r['loc'], sz))
        for j, n in enumerate(desc['names']):
            row[n] = canon(v[j] if k > 1 else v)
        rows.append(row)
    return rows


def norm_ds(c):
    """normalise what the property does not constrain: key order; None vs NaN for a missing cell (xarray turns a None in
    an object array into NaN)"""
    c = json.loads(json.dumps(c, sort_keys=True))

    def fix(x):
        if x is None: return 'nan'
        if isinstance(x, list): return [fix(v) for v in x]
        return x
    for v in c.get('vars', {}).values():
        v['data'] = fix(v['data'])
    return c


def diff_ds(a, b):
    a, b = norm_ds(a), norm_ds(b)
    for key in ('dims', 'coords', 'attrs'):
        if a[key] != b[key]: return f'{key}: {json.dumps(a[key])[:300]} vs {json.dumps(b[key])[:300]}'
    if set(a['vars']) != set(b['vars']): return f'variables {sorted(a["vars"])} vs {sorted(b["vars"])}'
    for v in a['vars']:
        if a['vars'][v]['dims'] != b['vars'][v]['dims']: return f'dims of {v}: {a["vars"][v]["dims"]} vs {b["vars"][v]["dims"]}'
        if a['vars'][v]['data'] != b['vars'][v]['data']:
            return f'data of {v}: {json.dumps(a["vars"][v]["data"])[:300]} vs {json.dumps(b["vars"][v]["data"])[:300]}'
    return None


# ----------------------------------------------------------------------------- the property, stated directly

def oracle_ds(ds, sw, desc, requested=None):
    """every labelled point holds what the function returned for it; recording rules for constants/resources/attrs"""
    import numpy as np
    kind = kind_of(desc); sz = sweeps.sizes(sw); k = len(desc['names'])
    fa = sweeps.fn_args(sw)
    for a in fa:
        if a not in ds.dims: return f'swept argument {a} is not a dimension'
        want = [sw['values'][a][r] for r in (sw['combo_order'][a] if a in sw['combo_order'] else range(len(sw['values'][a])))]
        if canon(ds[a].values) != canon(want): return f'coordinate of {a} is {canon(ds[a].values)}, swept values {canon(want)}'
    rows = {tuple(r) for r in sw['rows']} if sw['rows'] is not None else None
    nca = len(sw['case_args'])
    for j, (n, idims) in enumerate(zip(desc['names'], desc['dims'])):
        if n not in ds.data_vars: return f'output variable {n} missing'
        if list(ds[n].dims) != fa + idims: return f'variable {n} has dims {list(ds[n].dims)}, expected {fa + idims}'
        for loc in itertools.product(*(range(len(sw['values'][a])) for a in fa)):
            got = canon(np.asarray(ds[n].sel({a: sw['values'][a][r] for a, r in zip(fa, loc)}).values))
            if rows is not None and tuple(loc[:nca]) not in rows:
                flat = json.dumps(got)
                if flat.replace('"nan"', '').replace('null', '').strip('[], ') != '': return f'{n} at non-requested {loc} is not all-missing: {got}'
                continue
            v = fns.render(kind, fns.code_of_ranks(list(loc), sz))
            v = v[n] if desc['auto'] else (v[j] if k > 1 else v)
            if got != canon(v): return f'{n} selected at {dict(zip(fa, loc))} is {got}, the function returned {canon(v)}'
    dimset = set(ds.dims)
    for c, v in desc['constants'].items():
        if c in dimset:
            if c not in ds.coords or canon(ds[c].values) != canon(v): return f'constant {c} names a dimension but is not its coordinate'
        elif canon(ds.attrs.get(c, '<absent>')) != canon(v): return f'constant {c} is not recorded as an attribute'
    for c, v in desc['var_coords'].items():
        if c in dimset and canon(ds[c].values) != canon(v): return f'coordinate {c} not recorded'
    for r in desc['resources']:
        if r in desc['constants']: continue        # one name given as both: the statement does not say which rule wins
        if r in ds.attrs or r in ds.coords or r in ds.data_vars: return f'resource {r} was recorded'
    for a, v in desc['attrs'].items():
        if canon(ds.attrs.get(a, '<absent>')) != canon(v): return f'attribute {a} not kept'
    extra = set(map(str, ds.attrs)) - set(desc['attrs']) - set(desc['constants'])
    if extra: return f'attributes {sorted(extra)} were recorded but are neither attrs nor constants of this run'
    return None


def oracle_calls(log, sw, desc):
    """every call of the function got, besides its swept arguments, exactly the constants in force and the resources"""
    fa = sweeps.fn_args(sw)

    def logform(v): return v if isinstance(v, (int, float, str, bool, type(None))) else repr(v)      # as fns.Rec logs it
    want = {k: logform(v) for k, v in {**desc['resources'], **desc['constants']}.items()}
    for r in desc['resources']:
        if r in desc['constants']: want.pop(r)          # one name given as both: the statement does not say which wins
    for kw in log:
        got = {k: v for k, v in kw.items() if k not in fa and not (k in desc['resources'] and k in desc['constants'])}
        if got != want:
            return f'the function was called with constants/resources {got}, those in force for this run are {want}'
    return None


def oracle_df_rows(rows, sw, desc):
    """each row's outputs are the function's value at that row's own arguments; constants/attrs carried, resources not"""
    kind = kind_of(desc); sz = sweeps.sizes(sw); k = len(desc['names'])
    fa = sweeps.fn_args(sw)
    for row in rows:
        try:
            loc = [[canon(x) for x in sw['values'][a]].index(row[a]) for a in fa]
        except (KeyError, ValueError):
            return f'row {row} has argument values that were not swept'
        v = fns.render(kind, fns.code_of_ranks(loc, sz))
        for j, n in enumerate(desc['names']):
            if row.get(n) != canon(v[j] if k > 1 else v):
                return f'row with arguments {dict(zip(fa, loc))} carries {n}={row.get(n)!r}, the function returned {canon(v[j] if k > 1 else v)!r}'
        for r in desc['resources']:
            if r in row: return f'resource {r} recorded in the row'
        for c, val in list(desc['constants'].items()) + list(desc['attrs'].items()):
            if row.get(c) != canon(val): return f'constant/attribute {c} is {row.get(c, "<absent>")!r} in the row, the value in force for this run is {canon(val)!r}'
    return None


def oracle_df(rows, sw, desc, n_expected):
    kind = kind_of(desc); sz = sweeps.sizes(sw); k = len(desc['names'])
    fa = sweeps.fn_args(sw)
    if len(rows) != n_expected: return f'{len(rows)} rows for {n_expected} evaluated settings'
    seen = set()
    for row in rows:
        try:
            loc = [[canon(x) for x in sw['values'][a]].index(row[a]) for a in fa]
        except (KeyError, ValueError):
            return f'row {row} has argument values that were not swept'
        seen.add(tuple(loc))
        v = fns.render(kind, fns.code_of_ranks(loc, sz))
        for j, n in enumerate(desc['names']):
            if row.get(n) != canon(v[j] if k > 1 else v):
                return f'row with arguments {dict(zip(fa, loc))} carries {n}={row.get(n)!r}, the function returned {canon(v[j] if k > 1 else v)!r}'
        for r in desc['resources']:
            if r in row: return f'resource {r} recorded in the row'
        for c, val in list(desc['constants'].items()) + list(desc['attrs'].items()):
            if row.get(c) != canon(val): return f'constant/attribute {c} is {row.get(c, "<absent>")!r} in the row, the value in force for this run is {canon(val)!r}'
    if len(seen) != n_expected: return 'rows do not cover each evaluated setting exactly once'
    return None
