"""Extraction anchors of the publication protocol (xyzpy/gen/cropping.py: write_to_disk), used by CropFS.lean (C10, C11).

Three structural facts, each read off the AST:
  publishViaRename  the object is dumped into a file opened under ANOTHER name than `fname`, and that name is then moved
                    onto `fname` with os.replace / os.rename (after the `with` block, i.e. after the file is closed)
  tmpNamePrivate    that other name contains a fresh uuid4 per call (two writers never share a temporary)
  tmpNameHidden     its base name cannot match the globs by which batches and results are counted and listed
                    (BTCH_NM / RSLT_NM with '*'), whatever the final name is
Anything unrecognised raises NotFound and the anchor falls back to Gen/DefaultFs.lean (status `fallback`)."""
import ast, fnmatch
from extract import find, assigns, one, NotFound

FILES = {'cropping': 'xyzpy/gen/cropping.py'}


def _b(x): return 'true' if x else 'false'


def _shape(T):
    f = find(T['cropping'], ['write_to_disk'])
    if [a.arg for a in f.args.args][:2] != ['obj', 'fname']: raise NotFound('signature')
    withs = [n for n in ast.walk(f) if isinstance(n, ast.With)]
    w = one(withs, 'with open(...)')
    call = w.items[0].context_expr
    if not (isinstance(call, ast.Call) and ast.unparse(call.func) == 'open' and call.args): raise NotFound('open call')
    target = call.args[0]
    mode = ast.unparse(call.args[1]) if len(call.args) > 1 else ''
    if 'w' not in mode: raise NotFound('open mode')
    dumps = [n for n in ast.walk(w) if isinstance(n, ast.Call) and ast.unparse(n.func).endswith('.dump')]
    one(dumps, 'pickle.dump inside the with block')
    return f, w, target


def a_publishViaRename(T):
    f, w, target = _shape(T)
    if ast.unparse(target) == 'fname': return 'false'
    if not isinstance(target, ast.Name): raise NotFound('temporary is not a local name')
    moves = [n for n in ast.walk(f) if isinstance(n, ast.Call) and ast.unparse(n.func) in ('os.replace', 'os.rename')
             and len(n.args) == 2 and ast.unparse(n.args[0]) == target.id and ast.unparse(n.args[1]) == 'fname']
    if not moves: raise NotFound('no os.replace/os.rename of the temporary onto fname in sight (moved into a helper?)')
    # the move must come after the with block (the file is closed by then), not inside it
    inside = {id(n) for n in ast.walk(w)}
    if any(id(m) in inside for m in moves): return 'false'
    if any(m.lineno < w.end_lineno for m in moves): return 'false'
    return 'true'


_OK_CALLS = ('os.path.join', 'os.path.split', 'os.path.splitext', 'os.path.basename', 'os.path.dirname', 'uuid.uuid4', 'uuid4',
             'os.getpid', 'str', 'format')


def _tmp_names(T):
    """evaluate the (pure, whitelisted) assignments that build the temporary name, for sample final names, twice with
    different uuid4 values and the same pid: returns [(final base name, temp base name 1, temp base name 2)]"""
    import os as _os
    f, w, target = _shape(T)
    if not isinstance(target, ast.Name): raise NotFound('temporary is not a local name')
    pre = []
    for st in f.body:
        if isinstance(st, (ast.Try, ast.With)): break
        if isinstance(st, ast.Expr) and isinstance(st.value, ast.Constant): continue     # docstring
        if not isinstance(st, ast.Assign): raise NotFound('statement before the write is not an assignment')
        for n in ast.walk(st.value):
            if isinstance(n, ast.Call):
                fn = ast.unparse(n.func)
                if not (fn in _OK_CALLS or (isinstance(n.func, ast.Attribute) and n.func.attr == 'format')):
                    raise NotFound('call not understood: ' + fn)
            elif isinstance(n, (ast.Lambda, ast.ListComp, ast.GeneratorExp, ast.Await, ast.Yield, ast.NamedExpr)):
                raise NotFound('expression not understood')
        pre.append(st)
    if not any(target.id in [ast.unparse(t) for t in st.targets] or
               any(target.id in ast.unparse(t) for t in st.targets) for st in pre):
        raise NotFound('temporary name not assigned before the write')
    consts = {}
    for n in T['cropping'].body:
        if isinstance(n, ast.Assign) and isinstance(n.value, ast.Constant) and isinstance(n.value.value, str):
            consts[ast.unparse(n.targets[0])] = n.value.value
    if 'BTCH_NM' not in consts or 'RSLT_NM' not in consts: raise NotFound('file name patterns')

    class _U:
        def __init__(self, h): self.hex = h
        def __str__(self): return self.hex[:8] + '-' + self.hex[8:]

    class _Uuid:
        def __init__(self, hs): self.hs = list(hs)
        def uuid4(self): return _U(self.hs.pop(0))

    class _Os:
        path = _os.path
        @staticmethod
        def getpid(): return 4242
    out = []
    code = compile(ast.Module(body=pre, type_ignores=[]), '<write_to_disk>', 'exec')
    for final in (consts['BTCH_NM'].format(3), consts['RSLT_NM'].format(3), consts['RSLT_NM'].format(12)):
        names = []
        for hx in ('0123456789abcdef' * 2, 'fedcba9876543210' * 2):
            u = _Uuid([hx] * 4)
            env = {'__builtins__': {'str': str}, 'os': _Os, 'uuid': u, 'uuid4': u.uuid4, 'fname': '/d/results/' + final}
            try: exec(code, env)
            except Exception as e: raise NotFound('evaluation failed: ' + type(e).__name__)
            v = env.get(target.id)
            if not isinstance(v, str): raise NotFound('temporary name is not a string')
            names.append(v)
        out.append((final, names[0], names[1], consts))
    return out


def a_tmpNamePrivate(T):
    return _b(all(n1 != n2 for _, n1, n2, _ in _tmp_names(T)))


def a_tmpNameHidden(T):
    import os as _os
    for final, n1, n2, consts in _tmp_names(T):
        globs = [consts['BTCH_NM'].format('*'), consts['RSLT_NM'].format('*')]
        for n in (n1, n2):
            if _os.path.dirname(n) != '/d/results': return 'false'      # must live next to the final name (same file system)
            if any(fnmatch.fnmatch(_os.path.basename(n), g) for g in globs): return 'false'
    return 'true'


ANCHORS = [
    ('publishViaRename', ': Bool', a_publishViaRename),
    ('tmpNamePrivate', ': Bool', a_tmpNamePrivate),
    ('tmpNameHidden', ': Bool', a_tmpNameHidden),
]
