"""Crop histories: generators, execution on the real `Crop` API, and the matching model request."""
import os, glob, re, json, random
import common, fns, sweeps
from common import quiet


def ls(loc):
    """canonical listing of a crop directory: batch / result ids, the info file, and -- only when there are any --
    `x`: names in batches/ and results/ that the library's own progress counters would see (the `xyz-batch-*` /
    `xyz-result-*` patterns, or anything a plain directory listing counts that is not hidden) without being a
    canonical crop file.  The model never predicts an `x` entry."""
    if not os.path.isdir(loc): return None
    b, r, x = [], [], []
    for sub, pat, acc in (('batches', r'xyz-batch-(\d+)\.jbdmp$', b), ('results', r'xyz-result-(\d+)\.jbdmp$', r)):
        d = os.path.join(loc, sub)
        if not os.path.isdir(d): continue
        for name in sorted(os.listdir(d)):
            m = re.match(pat, name)
            if m: acc.append(int(m.group(1)))
            elif not name.startswith('.'): x.append(sub + '/' + re.sub(r'[0-9a-f]{8,}', 'H', name))
    out = {'b': sorted(b), 'r': sorted(r), 'info': os.path.exists(os.path.join(loc, 'xyz-settings.jbdmp'))}
    if x: out['x'] = x
    return out


def strand_temporary(loc, batch_id):
    """What a grower killed in the middle of publishing result `batch_id` leaves behind, *named by the library
    itself*: the library's writer is run with the final move made to fail.  Returns the names left in results/."""
    from xyzpy.gen import cropping
    os.makedirs(os.path.join(loc, 'results'), exist_ok=True)
    before = set(os.listdir(os.path.join(loc, 'results')))
    target = os.path.join(loc, 'results', 'xyz-result-%d.jbdmp' % batch_id)
    had = os.path.exists(target)
    keep = open(target, 'rb').read() if had else None

    class _Killed(BaseException):
        pass

    def boom(*a, **k):
        raise _Killed()
    saved = {}
    for mod, name in ((cropping.os, 'replace'), (cropping.os, 'rename'), (getattr(cropping, 'shutil', None), 'move')):
        if mod is not None and hasattr(mod, name):
            saved[(mod, name)] = getattr(mod, name); setattr(mod, name, boom)
    # a killed process runs no clean-up handlers either
    for name in ('remove', 'unlink'):
        saved[(cropping.os, name)] = getattr(cropping.os, name); setattr(cropping.os, name, lambda *a, **k: None)
    try:
        try:
            cropping.write_to_disk(('partial',), target)
        except _Killed:
            pass
    finally:
        for (mod, name), f in saved.items(): setattr(mod, name, f)
    if had:
        with open(target, 'wb') as fh: fh.write(keep)          # an in-place writer would have clobbered it: put it back
    elif os.path.exists(target):
        os.remove(target)                                       # ... or created it: the kill happened before it was complete
    return sorted(set(os.listdir(os.path.join(loc, 'results'))) - before)


def read_batches(loc, sw):
    """batch files as lists of locations (ranks in fn_args order), by batch id"""
    import pickle
    out = {}
    fa = sweeps.fn_args(sw)
    for f in glob.glob(os.path.join(loc, 'batches', 'xyz-batch-*.jbdmp')):
        i = int(re.findall(r'xyz-batch-(\d+)\.jbdmp$', f)[0])
        with open(f, 'rb') as fh:
            b = pickle.load(fh)
        out[i] = [[sw['values'][a].index(kw[a]) for a in fa] for kw in b]
    return out


def classify(e, reap=False):
    from xyzpy.utils import XYZError
    if reap and isinstance(e, XYZError) and 'not ready' in str(e): return 'notReady'
    return 'fail'


def sorted_sweep(sw):
    """the sweep with its combo arguments in name order (what sow_combos stores and the reap returns)"""
    s2 = dict(sw)
    s2['combo_args'] = sorted(sw['combo_args'])
    return s2


def sow_shuffle_kw(op):
    """the `shuffle` keyword of a sow_combos call: a value, left out (the default), or None (keep the crop's own)"""
    if op.get('shuffle_none'): return {'shuffle': None}
    if op.get('shuffle_omit') and not op.get('shuffle'): return {}
    return {'shuffle': (op.get('shuffle') or False)}


def vary_sow_call(rng, sow):
    """vary how a sow_combos op spells its shuffle argument (no-op for sow_cases ops)"""
    if sow.get('cases'): return sow
    r = rng.random()
    if r < 0.2:
        sow.pop('shuffle', None); sow['shuffle_none'] = True
    elif r < 0.45 and not sow.get('shuffle'):
        sow.pop('shuffle', None); sow['shuffle_omit'] = True
    return sow


def run_history(h, ctx, farmer=None):
    """execute the ops of history `h` on the real API; returns list of {'o':..., 'ls':...}"""
    import xyzpy as xyz
    from xyzpy.gen import cropping
    sw, kind = h['sweep'], h['kind']
    d = common.fresh_dir('crop')
    failfile = os.path.join(d, 'failcodes.json')
    os.environ[fns.FAIL_ENV] = failfile
    # the crop's parent directory as the library is told it: absolute, or relative to the working directory
    cwd0 = os.getcwd()
    pd = d
    if h.get('relative'):
        os.makedirs(os.path.join(d, 'sub'), exist_ok=True)
        os.chdir(d)
        pd, d_abs = 'sub', os.path.join(d, 'sub')
    else:
        d_abs = d
    if 'ds' in kind:
        f = sweeps.make_rec(sorted_sweep(sw), kind, as_xr=True, dims={n: ['i%d' % d for d in range(len(sh))] for n, sh, _ in kind['ds']})
    else:
        f = sweeps.make_rec(sorted_sweep(sw), kind, as_np=bool(h.get('np')))       # 'np': arrays come back as numpy arrays
    loc = os.path.join(d_abs, '.xyz-t')
    crop, obs = None, []
    parked = None          # a second live Crop object on the same directory ('switch' swaps the two)
    sz = sweeps.sizes(sorted_sweep(sw))
    stale0 = None
    if any(op['op'] == 'stalequery' for op in h['ops']):
        with quiet(): stale0 = xyz.Crop(name='t', parent_dir=pd)      # a handle made before anything is sown
    try:
        for op in h['ops']:
            k = op['op']
            o = None
            try:
                with quiet():
                    if k == 'new':
                        crop = xyz.Crop(fn=f, name='t', parent_dir=pd, batchsize=op.get('bs'), num_batches=op.get('nb'),
                                        shuffle=(op.get('shuffle') or False))
                    elif k == 'reload':
                        crop = xyz.Crop(name='t', parent_dir=pd, **({'autoload': False} if op.get('autoload') is False else {}))
                    elif k == 'switch':
                        crop, parked = (parked if parked is not None else xyz.Crop(name='t', parent_dir=pd)), crop
                    elif k == 'emptydir':
                        # the bare directory skeleton without an info file (left by an interrupted first sow, or made by hand)
                        os.makedirs(os.path.join(loc, 'batches'), exist_ok=True)
                        os.makedirs(os.path.join(loc, 'results'), exist_ok=True)
                    elif k == 'sow':
                        kw = {}
                        if op.get('bs') is not None: kw['batchsize'] = op['bs']
                        if op.get('nb') is not None: kw['num_batches'] = op['nb']
                        if op.get('cases'):
                            if sw['combo_args']:      # parsed form: sow_cases does not parse its sub-grid
                                kw['combos'] = tuple((a, [sw['values'][a][r] for r in sw['combo_order'][a]]) for a in sw['combo_args'])
                            # one case argument may be named by a bare string (every second such sow does)
                            fa = sw['case_args'][0] if len(sw['case_args']) == 1 and len(sw['rows']) % 2 else sw['case_args']
                            crop.sow_cases(fa, sweeps.py_cases(sw, op.get('spelling', 'tuple')), verbosity=0, **kw)
                        else:
                            crop.sow_combos(sweeps.py_combos(sw, 'dict'), cases=sweeps.py_cases(sw, 'dict'),
                                            constants=sw['consts'] or None, verbosity=0, **kw, **sow_shuffle_kw(op))
                    elif k in ('grow', 'growmissing'):
                        if op.get('fail'):
                            with open(failfile, 'w') as fh:
                                json.dump({'codes': [fns.code_of_ranks(l, sz) for l in op['fail']], 'exc': op.get('exc', 'ValueError')}, fh)
                        try:
                            via = op.get('via', 'crop')
                            if k == 'growmissing': crop.grow_missing(verbosity=0)
                            elif via == 'crop': crop.grow(op['ids'], verbosity=0)
                            elif via == 'crop_int' and len(op['ids']) == 1: crop.grow(op['ids'][0], verbosity=0)
                            elif via == 'workers':
                                # in-batch parallelism; staggered run times make completion order differ from submission order
                                os.environ[fns.STAGGER_ENV] = '0.03'
                                try:
                                    for i in op['ids']: cropping.grow(i, crop=crop, num_workers=2, verbosity=0)
                                finally:
                                    os.environ.pop(fns.STAGGER_ENV, None)
                            else:
                                for i in op['ids']: cropping.grow(i, crop=crop, verbosity=0)
                        finally:
                            if os.path.exists(failfile): os.remove(failfile)
                    elif k == 'delres':
                        p = os.path.join(loc, 'results', 'xyz-result-%d.jbdmp' % op['id'])
                        if os.path.exists(p): os.remove(p)
                    elif k == 'corrupt':
                        p = os.path.join(loc, 'results', 'xyz-result-%d.jbdmp' % op['id'])
                        if os.path.exists(p):
                            with open(p, 'wb') as fh: fh.write(b'\x80garbage')
                    elif k == 'strandtmp':
                        # what a grower killed mid-write leaves behind: a private temporary next to the results
                        strand_temporary(loc, op['id'])
                    elif k == 'checkbad':
                        o = {'bad': sorted(int(x) for x in crop.check_bad())}
                    elif k in ('query', 'stalequery'):
                        import copy
                        # through the pre-sow handle every query is the FIRST thing asked of a fresh copy of it
                        def h(): return crop if k == 'query' else copy.copy(stale0)
                        cq = h()
                        o = {'sown': h().num_sown_batches, 'results': h().num_results,
                             'ready': bool(h().is_ready_to_reap())}
                        try: o['missing'] = list(h().missing_results())
                        except Exception as e: o['missing'] = {'err': 'fail', 'exc': type(e).__name__}
                        try:
                            m = re.search(r'(-?\d+) / (\S+) batches of size', str(cq))
                            ent_str = [m.group(1), m.group(2)] if m else None
                        except Exception as e:
                            # str() of a crop whose directory exists without an info file divides by num_batches=None
                            # (seen while probing, DESIGN §7; the printed summary is not one of the property's queries)
                            ent_str = None
                    elif k == 'reap':
                        kw = {}
                        if 'clean_up' in op: kw['clean_up'] = op['clean_up']
                        r = crop.reap(allow_incomplete=op.get('allow_incomplete', False), wait=op.get('wait', False), **kw)
                        o = {'ok': sweeps.canon_result(r)}
                    else:
                        raise RuntimeError('unknown op ' + k)
            except Exception as e:
                if isinstance(e, RuntimeError) and 'unknown op' in str(e): raise
                o = {'err': classify(e, reap=(k == 'reap')), 'exc': type(e).__name__, 'msg': str(e)[:120]}
            ent = {'o': o, 'ls': ls(loc)}
            if k in ('query', 'stalequery'):
                ent['str'] = locals().get('ent_str')
            if k == 'sow' and o is None:
                ent['batches'] = read_batches(loc, sorted_sweep(sw))
            obs.append(ent)
        return obs
    finally:
        os.environ.pop(fns.FAIL_ENV, None)
        os.chdir(cwd0)
        common.rm(d)


def seeds_in(h):
    s = set()
    for op in h['ops']:
        if op.get('shuffle'): s.add(int(op['shuffle']))
    return s


def history_request(h):
    sw = h['sweep']
    n = sweeps.n_settings(sw)
    perms = {f'{s}:{n}': common.perm(s, n) for s in seeds_in(h)}
    ops = []
    for op in h['ops']:
        o = dict(op)
        if o['op'] == 'sow':
            o['sweep'] = sweeps.sweep_request(o.pop('sw', None) or sw)
        ops.append(o)
    return {'op': 'crop', 'perms': perms, 'kind': sweeps.model_kind(h['kind']), 'ops': ops}


def norm_real(o):
    if isinstance(o, dict) and 'err' in o: return {'err': o['err']}
    if isinstance(o, dict) and isinstance(o.get('missing'), dict): o = dict(o); o['missing'] = {'err': 'fail'}
    return o


def norm_model(o, h):
    if isinstance(o, dict) and 'err' in o:
        return {'err': 'notReady' if o['err'] == 'notReady' else 'fail'}
    if isinstance(o, dict) and 'ok' in o:
        return {'ok': sweeps.expected(o['ok'], h['kind'], sweeps.sizes(sorted_sweep(h['sweep'])))}
    if isinstance(o, dict) and isinstance(o.get('missing'), dict): o = dict(o); o['missing'] = {'err': 'fail'}
    return o


def compare_history(h, obs, rep):
    mo = rep.get('obs')
    if mo is None: return f'model error: {rep}'
    for j, (r, m) in enumerate(zip(obs, mo)):
        ro, mm = norm_real(r['o']), norm_model(m['o'], h)
        if ro != mm:
            return f'op {j} {h["ops"][j]}: real {json.dumps(r["o"], default=str)[:300]} model {json.dumps(mm)[:300]}'
        if r['ls'] != m['ls']:
            return f'op {j} {h["ops"][j]}: directory listing real {r["ls"]} model {m["ls"]}'
    return None


# ----------------------------------------------------------------------------- generators

def gen_batching(rng, n):
    mode = rng.choice(['bs', 'nb', 'none'])
    if mode == 'bs': return {'bs': rng.randint(1, n + 1)}
    if mode == 'nb': return {'nb': rng.randint(1, n + 2)}
    return {}


def num_batches_for(n, b):
    if 'bs' in b: return -(-n // b['bs'])
    if 'nb' in b: return min(n, b['nb'])
    return n


def gen_crop_sweep(rng, max_settings=40, cases=None):
    cases = rng.random() < 0.4 if cases is None else cases
    if cases and rng.random() < 0.35:
        # a case list crossed with a sub-grid: sow_cases(..., combos=...) resp. sow_combos(..., cases=...)
        sw = sweeps.gen_sweep(rng, n_case_args=(1, 2), n_cases=(1, 6), n_combo_args=(1, 2), n_vals=(1, 3), max_settings=max_settings)
        sw['combo_args'] = sorted(sw['combo_args'])            # sow_cases keeps the given order of the sub-grid: give it sorted
    elif cases:
        sw = sweeps.gen_sweep(rng, n_case_args=(1, 3), n_cases=(1, 12), n_combo_args=0, max_settings=max_settings)
    else:
        sw = sweeps.gen_sweep(rng, n_combo_args=(1, 3), n_vals=(1, 5), max_settings=max_settings)
    sw['consts'] = {}
    return sw
