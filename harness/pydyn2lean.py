"""Translate bodies of *dynamically typed* Python (option handling: values that may be None / bool / int / str / float)
to Lean 4 terms over `Scr.PyVal` (lean/XyzModel/Gen/DefaultScriptOpts.lean).

Sister of pyfn2lean (which types every name as a number / optional number): here a name is one of

    val   a Python value of unknown kind        Scr.PyVal
    str   known to be a string                  List Char
    bool  known to be a bool                    Bool
    int   known to be an int                    Int
    kw    an insertion-ordered dict str -> val  List (List Char × Scr.PyVal)
    oids  None or a list of batch ids           Option (List Nat)

and the operations that inspect the kind at run time (`is None`, `isinstance`, truth value, `int(x)`, `round(a / b)`,
`a // b`, `max`, f-strings, `str.split`, `len`) are calls of the Lean primitives `Scr.Py.*`, which raise what Python
raises on the modelled domain.  Statements: assignment (plain, tuple, `d[k] = v`, `+=`), `if/elif/else`, `raise`,
imports (ignored), declared no-op calls.  An `if` is a *join*: the names it (re)binds are returned as a tuple

    if c: A else: B ; rest   ↦   let (x, y) := if c then ⟦A⟧ else ⟦B⟧; ⟦rest⟧                  (no branch can raise)
                             ↦   Scr.Py.bind (if c then ⟦A⟧ else ⟦B⟧) fun (x, y) => ⟦rest⟧     (some branch can)

so the rest of the body is never duplicated.  The result is a term of type `Except PyErr R`.
Anything outside the sub-language raises `Untranslatable` (the anchor falls back to its committed default).
"""
import ast
from pyexpr2lean import Untranslatable, lean_str

ERRS = {'ValueError': 'PyErr.valueError', 'TypeError': 'PyErr.typeError', 'KeyError': 'PyErr.keyError'}
LEAN_TY = {'val': 'Scr.PyVal', 'str': 'List Char', 'bool': 'Bool', 'int': 'Int', 'kw': 'List (List Char × Scr.PyVal)',
           'oids': 'Option (List Nat)'}
RESERVED = ('end', 'from', 'at', 'do', 'then', 'else', 'fun', 'let', 'in', 'open', 'def', 'Type', 'res', 'show', 'have',
            'match', 'with', 'if', 'where', 'mut', 'by', 'set', 'section', 'namespace', 'instance')


def chars(s):
    return 'chars! ' + lean_str(s)


def is_none(e):
    return isinstance(e, ast.Constant) and e.value is None


def lean_name(key):
    name = key.strip('_') or 'v'
    name = ''.join(w if i == 0 else w.capitalize() for i, w in enumerate(name.split('_')))
    return name + "'" if name in RESERVED else name


class DSpec:
    """env      python text -> (lean term, type): parameters, attributes, declared pure calls, and locals that a path may
                leave unbound (bound here to a stand-in; Python would raise NameError on reading them)
       consts   python name of a module constant -> lean name (type str)
       result   python names whose final values are the result tuple
       skip     predicate on a statement: ignored (no-op calls, warnings)
       start    predicate: the translated part begins AFTER the first statement satisfying it (None: at the top)
       stop     predicate: the translated part ends BEFORE the first statement satisfying it (None: at the end)
       stop_after  predicate: … ends AFTER the first statement satisfying it"""

    def __init__(self, file, path, env, result, consts=None, skip=None, start=None, stop=None, stop_after=None):
        self.file, self.path, self.env, self.result = file, path, dict(env), list(result)
        self.consts, self.skip, self.start, self.stop, self.stop_after = consts or {}, skip, start, stop, stop_after


class DynTr:
    MAX_NODES = 3000

    def __init__(self, spec):
        self.spec = spec
        self.n_fresh = 0
        self.n_raise = 0
        self.nodes = 0

    def fresh(self, base='t'):
        self.n_fresh += 1
        return f'{base}{self.n_fresh}'

    # ------------------------------------------------------------------ coercions
    def to(self, term, ty, want, what=''):
        if ty == want: return term
        if want == 'val':
            if ty == 'str': return f'(Scr.PyVal.str {term})'
            if ty == 'int': return f'(Scr.PyVal.int {term})'
            if ty == 'bool': return f'(Scr.PyVal.bool {term})'
        raise Untranslatable(f'a {ty} where a {want} is expected {what}')

    def ok(self, term):
        return f'(Except.ok {term})'

    def err(self, code):
        self.n_raise += 1
        return f'(Except.error {code})'

    def bind(self, m, var, body):
        self.n_raise += 1
        return f'(Scr.Py.bind {m} fun {var} =>\n{body})'

    # ------------------------------------------------------------------ expressions: (term, type, monadic?)
    def lift(self, parts, build):
        """evaluate the monadic parts first (left to right), then build(terms) -> (term, ty, m)"""
        names, binds = [], []
        for t, ty, m in parts:
            if m:
                v = self.fresh(); binds.append((v, t)); names.append(v)
            else:
                names.append(t)
        term, ty, m = build(names)
        if not binds: return term, ty, m
        if not m: term = self.ok(term)
        for v, t in reversed(binds):
            self.n_raise += 1
            term = f'(Scr.Py.bind {t} fun {v} => {term})'
        return term, ty, True

    def pure(self, e, env):
        t, ty, m = self.ex(e, env)
        if m: raise Untranslatable('an expression that can raise where a plain value is needed: ' + ast.unparse(e)[:80])
        return t, ty

    def ex(self, e, env):
        key = ast.unparse(e)
        if key in env:
            t, ty = env[key]
            return t, ty, False
        if isinstance(e, ast.Name) and e.id in self.spec.consts:
            return self.spec.consts[e.id], 'str', False
        if isinstance(e, ast.Constant):
            v = e.value
            if v is None: return 'Scr.PyVal.none', 'val', False
            if isinstance(v, bool): return ('true' if v else 'false'), 'bool', False
            if isinstance(v, int): return f'({v} : Int)', 'int', False
            if isinstance(v, str): return f'({chars(v)})', 'str', False
            raise Untranslatable('constant ' + key)
        if isinstance(e, ast.JoinedStr):
            parts = []
            for p in e.values:
                if isinstance(p, ast.Constant) and isinstance(p.value, str):
                    parts.append(chars(p.value))
                elif isinstance(p, ast.FormattedValue) and p.conversion == -1 and p.format_spec is None:
                    t, ty = self.pure(p.value, env)
                    if ty == 'val': parts.append(f'Scr.pyStr {t}')
                    elif ty == 'str': parts.append(t)
                    elif ty == 'int': parts.append(f'Scr.intDigits {t}')
                    else: raise Untranslatable(f'f-string field of type {ty}')
                else:
                    raise Untranslatable('f-string field with conversion / format spec')
            return '(' + ' ++ '.join(parts or ['([] : List Char)']) + ')', 'str', False
        if isinstance(e, ast.BinOp):
            if isinstance(e.op, ast.FloorDiv):
                l, r = self.ex(e.left, env), self.ex(e.right, env)
                return self.lift([l, r], lambda n: (f'(Scr.Py.floorDiv {self.to(n[0], l[1], "val")} {self.to(n[1], r[1], "val")})', 'val', True))
            (l, lt), (r, rt) = self.pure(e.left, env), self.pure(e.right, env)
            if isinstance(e.op, ast.Add) and lt == rt == 'str': return f'({l} ++ {r})', 'str', False
            if lt == rt == 'int' and isinstance(e.op, (ast.Add, ast.Sub, ast.Mult)):
                return f'({l} {"+" if isinstance(e.op, ast.Add) else "-" if isinstance(e.op, ast.Sub) else "*"} {r})', 'int', False
            raise Untranslatable('operator on ' + str((lt, rt)) + ': ' + key[:80])
        if isinstance(e, ast.UnaryOp) and isinstance(e.op, ast.Not):
            return f'(!{self.truthy(e.operand, env)})', 'bool', False
        if isinstance(e, ast.BoolOp):
            parts = [self.truthy(v, env) for v in e.values]
            return '(' + (' && ' if isinstance(e.op, ast.And) else ' || ').join(parts) + ')', 'bool', False
        if isinstance(e, ast.Compare):
            return self.compare(e, env), 'bool', False
        if isinstance(e, ast.IfExp):
            c = self.truthy(e.test, env)
            a, b = self.ex(e.body, env), self.ex(e.orelse, env)
            ty = a[1] if a[1] == b[1] else 'val'
            ta, tb = self.to(a[0], a[1], ty), self.to(b[0], b[1], ty)
            if a[2] or b[2]:
                if not a[2]: ta = self.ok(ta)
                if not b[2]: tb = self.ok(tb)
                return f'(if {c} then {ta} else {tb})', ty, True
            return f'(if {c} then {ta} else {tb})', ty, False
        if isinstance(e, ast.Dict):
            items = []
            for k, v in zip(e.keys, e.values):
                if not (isinstance(k, ast.Constant) and isinstance(k.value, str)):
                    raise Untranslatable('dict key ' + (ast.unparse(k) if k is not None else '**'))
                t, ty = self.pure(v, env)
                items.append(f'({chars(k.value)}, {self.to(t, ty, "val", "as the value of " + k.value)})')
            return '[' + ', '.join(items) + ']', 'kw', False
        if isinstance(e, ast.Call):
            return self.call(e, env)
        raise Untranslatable(type(e).__name__ + ': ' + key[:80])

    def compare(self, e, env):
        ops, terms = e.ops, [e.left] + list(e.comparators)
        # a is b is … is None: identity with None is transitive, so every operand is None
        if all(isinstance(o, ast.Is) for o in ops) and is_none(terms[-1]):
            return '(' + ' && '.join(self.none_test(t, env) for t in terms[:-1]) + ')'
        if len(ops) != 1:
            raise Untranslatable('chained comparison ' + ast.unparse(e)[:80])
        o, l, r = ops[0], terms[0], terms[1]
        if isinstance(o, (ast.Is, ast.IsNot, ast.Eq, ast.NotEq)) and (is_none(l) or is_none(r)):
            t = self.none_test(r if is_none(l) else l, env)
            return t if isinstance(o, (ast.Is, ast.Eq)) else f'(!{t})'
        if isinstance(o, (ast.Is, ast.IsNot)):
            if not (isinstance(r, ast.Constant) and isinstance(r.value, bool)):
                raise Untranslatable('identity test ' + ast.unparse(e)[:80])
            t, ty = self.pure(l, env)
            lit = 'true' if r.value else 'false'
            if ty == 'val': res = f'({t} == Scr.PyVal.bool {lit})'
            elif ty == 'bool': res = f'({t} == {lit})'
            elif ty in ('str', 'int', 'kw'): res = 'false'
            else: raise Untranslatable('identity test on ' + ty)
            return res if isinstance(o, ast.Is) else f'(!{res})'
        if isinstance(o, (ast.Eq, ast.NotEq)):
            (a, at), (b, bt) = self.pure(l, env), self.pure(r, env)
            if at != bt or at not in ('str', 'int', 'bool'):
                raise Untranslatable(f'== between {at} and {bt}: ' + ast.unparse(e)[:80])
            return f'({a} == {b})' if isinstance(o, ast.Eq) else f'({a} != {b})'
        if isinstance(o, (ast.In, ast.NotIn)):
            a, at = self.pure(l, env)
            if isinstance(r, (ast.Tuple, ast.List, ast.Set)):
                alts = []
                for el in r.elts:
                    b, bt = self.pure(el, env)
                    if bt != at or at != 'str': raise Untranslatable('membership between ' + str((at, bt)))
                    alts.append(f'{a} == {b}')
                res = '(' + ' || '.join(alts) + ')' if alts else 'false'
            else:
                b, bt = self.pure(r, env)
                if at != 'str' or bt != 'str': raise Untranslatable('substring test between ' + str((at, bt)))
                res = f'(Scr.hasSub {a} {b})'
            return res if isinstance(o, ast.In) else f'(!{res})'
        raise Untranslatable('comparison ' + ast.unparse(e)[:80])

    def none_test(self, e, env):
        t, ty = self.pure(e, env)
        if ty == 'val': return f'(Scr.isNone {t})'
        if ty == 'oids': return f'{t}.isNone'
        if ty in ('str', 'int', 'bool', 'kw'): return 'false'
        raise Untranslatable('None test on ' + ty)

    def truthy(self, e, env):
        t, ty = self.pure(e, env)
        if ty == 'bool': return t
        if ty == 'val': return f'(Scr.Py.truthy {t})'
        if ty in ('str', 'kw'): return f'(!{t}.isEmpty)'
        if ty == 'int': return f'({t} != 0)'
        if ty == 'oids': return f'(!({t}.getD []).isEmpty)'
        raise Untranslatable('truth value of ' + ty)

    def call(self, e, env):
        fn = ast.unparse(e.func)
        if e.keywords: raise Untranslatable('keyword arguments in ' + ast.unparse(e)[:80])
        a = e.args
        if fn == 'isinstance' and len(a) == 2:
            t, ty = self.pure(a[0], env)
            kinds = [x.id for x in (a[1].elts if isinstance(a[1], ast.Tuple) else [a[1]]) if isinstance(x, ast.Name)]
            if len(kinds) != len(a[1].elts if isinstance(a[1], ast.Tuple) else [a[1]]) or not set(kinds) <= {'int', 'float', 'str'}:
                raise Untranslatable('isinstance against ' + ast.unparse(a[1]))
            if ty == 'val':
                fns = {'int': 'Scr.Py.isInt', 'float': 'Scr.Py.isFloat', 'str': 'Scr.Py.isStr'}
                return '(' + ' || '.join(f'{fns[k]} {t}' for k in kinds) + ')', 'bool', False
            static = {'str': 'str', 'int': 'int', 'bool': 'int'}.get(ty)
            if static is None: raise Untranslatable('isinstance of ' + ty)
            return ('true' if static in kinds else 'false'), 'bool', False
        if fn == 'int' and len(a) == 1:
            x = self.ex(a[0], env)
            if x[1] == 'int': return x
            return self.lift([x], lambda n: (f'(Scr.Py.int {self.to(n[0], x[1], "val")})', 'val', True))
        if fn == 'round' and len(a) == 1 and isinstance(a[0], ast.BinOp) and isinstance(a[0].op, ast.Div):
            l, r = self.ex(a[0].left, env), self.ex(a[0].right, env)
            return self.lift([l, r], lambda n: (f'(Scr.Py.roundDiv {self.to(n[0], l[1], "val")} {self.to(n[1], r[1], "val")})', 'val', True))
        if fn == 'max' and len(a) == 2:
            l, r = self.ex(a[0], env), self.ex(a[1], env)
            return self.lift([l, r], lambda n: (f'(Scr.Py.max2 {self.to(n[0], l[1], "val")} {self.to(n[1], r[1], "val")})', 'val', True))
        if fn == 'tuple' and len(a) == 1:
            t, ty = self.pure(a[0], env)
            if ty != 'oids': raise Untranslatable('tuple() of ' + ty)
            return f'(Scr.Py.tupleOf {t})', 'val', False
        if fn == 'range' and len(a) in (1, 2):
            ts = [self.pure(x, env) for x in a]
            if any(ty != 'int' for _, ty in ts): raise Untranslatable('range of non-ints')
            lo = '(0 : Int)' if len(a) == 1 else ts[0][0]
            return f'(Scr.PyVal.range {lo} {ts[-1][0]})', 'val', False
        if fn == 'len' and len(a) == 1 and isinstance(a[0], ast.Subscript):
            d, dt = self.pure(a[0].value, env)
            k, kt = self.pure(a[0].slice, env)
            if dt != 'kw' or kt != 'str': raise Untranslatable('len of an item of ' + dt)
            self.n_raise += 1
            return f'(Scr.Py.lenOf (Scr.lookup {d} {k}))', 'int', True
        if fn == 'str' and len(a) == 1:
            t, ty = self.pure(a[0], env)
            if ty == 'val': return f'(Scr.pyStr {t})', 'str', False
            if ty == 'str': return t, 'str', False
            if ty == 'int': return f'(Scr.intDigits {t})', 'str', False
            raise Untranslatable('str() of ' + ty)
        if fn == 'os.path.join' and a:
            ts = [self.pure(x, env) for x in a]
            if any(ty != 'str' for _, ty in ts): raise Untranslatable('os.path.join of non-strings')
            return '(Scr.Py.pathJoin [' + ', '.join(t for t, _ in ts) + '])', 'str', False
        if isinstance(e.func, ast.Attribute) and e.func.attr == 'lower' and not a:
            t, ty = self.pure(e.func.value, env)
            if ty != 'str': raise Untranslatable('.lower() of ' + ty)
            return f'(Scr.Py.lower {t})', 'str', False
        if isinstance(e.func, ast.Attribute) and e.func.attr == 'join' and len(a) == 1 and isinstance(a[0], (ast.ListComp, ast.GeneratorExp)):
            sep, st = self.pure(e.func.value, env)
            lc = a[0]
            if st != 'str' or len(lc.generators) != 1: raise Untranslatable('join shape')
            g = lc.generators[0]
            if g.ifs or g.is_async or not (isinstance(g.iter, ast.Call) and isinstance(g.iter.func, ast.Attribute)
                                           and g.iter.func.attr == 'items' and not g.iter.args):
                raise Untranslatable('comprehension over ' + ast.unparse(g.iter)[:60])
            d, dt = self.pure(g.iter.func.value, env)
            if dt != 'kw' or not (isinstance(g.target, ast.Tuple) and len(g.target.elts) == 2
                                  and all(isinstance(x, ast.Name) for x in g.target.elts)):
                raise Untranslatable('comprehension target')
            kv = self.fresh('kv')
            env2 = dict(env)
            env2[g.target.elts[0].id] = (f'{kv}.1', 'str')
            env2[g.target.elts[1].id] = (f'{kv}.2', 'val')
            el, et = self.pure(lc.elt, env2)
            if et != 'str': raise Untranslatable('joined element of type ' + et)
            return f'(Scr.joinSep {sep} (List.map (fun {kv} => {el}) {d}))', 'str', False
        raise Untranslatable('call ' + ast.unparse(e)[:80])

    # ------------------------------------------------------------------ statements
    def assigned(self, stmts):
        """(must, may): names bound on every path that falls through / on some path; must is None when no path falls through"""
        must, may = set(), set()
        for s in stmts:
            if self.spec.skip and self.spec.skip(s): continue
            if isinstance(s, ast.Raise):
                return None, may
            if isinstance(s, ast.Assign):
                for t in s.targets:
                    for x in (t.elts if isinstance(t, ast.Tuple) else [t]):
                        n = x.value.id if isinstance(x, ast.Subscript) and isinstance(x.value, ast.Name) else ast.unparse(x)
                        must.add(n); may.add(n)
            elif isinstance(s, ast.AugAssign):
                n = ast.unparse(s.target); must.add(n); may.add(n)
            elif isinstance(s, ast.If):
                ma, ya = self.assigned(s.body); mb, yb = self.assigned(s.orelse)
                may |= ya | yb
                if ma is None and mb is None: return None, may
                must |= (mb if ma is None else ma if mb is None else ma & mb)
        return must, may

    def set_var(self, env, key, term, ty, ind):
        """(env', let line) for python name `key` := term"""
        env2 = dict(env)
        if key in env:
            name0, dty = env[key]
            term, ty = self.to(term, ty, dty, 'in an assignment to ' + key), dty
        if not key.isidentifier(): raise Untranslatable('assignment to ' + key)
        name = lean_name(key)
        env2[key] = (name, ty)
        return env2, f'{ind}let {name} : {LEAN_TY[ty]} := {term}\n'

    def block(self, stmts, env, k, ind):
        self.nodes += 1
        if self.nodes > self.MAX_NODES: raise Untranslatable('body too large')
        if not stmts:
            return k(env, ind)
        s, rest = stmts[0], stmts[1:]
        nxt = lambda e2, i2: self.block(rest, e2, k, i2)
        if (self.spec.skip and self.spec.skip(s)) or isinstance(s, (ast.Pass, ast.Import, ast.ImportFrom)) or \
                (isinstance(s, ast.Expr) and isinstance(s.value, ast.Constant)):
            return nxt(env, ind)
        if isinstance(s, ast.Raise):
            exc = s.exc.func if isinstance(s.exc, ast.Call) else s.exc
            return ind + self.err(ERRS.get(ast.unparse(exc) if exc is not None else '?', 'PyErr.other'))
        if isinstance(s, ast.Assign) and len(s.targets) == 1:
            tgt = s.targets[0]
            if isinstance(tgt, ast.Name):
                return self.bind_to(self.ex(s.value, env), tgt.id, env, nxt, ind)
            if isinstance(tgt, ast.Subscript) and isinstance(tgt.value, ast.Name):
                d = tgt.value.id
                if d not in env or env[d][1] != 'kw': raise Untranslatable('item assignment on ' + d)
                kk, kt = self.pure(tgt.slice, env)
                if kt != 'str': raise Untranslatable('item key of type ' + kt)
                v = self.ex(s.value, env)
                t, ty, m = self.lift([v], lambda n: (f'(Scr.setKw {env[d][0]} {kk} {self.to(n[0], v[1], "val")})', 'kw', False))
                return self.bind_to((t, ty, m), d, env, nxt, ind)
            if isinstance(tgt, ast.Tuple) and all(isinstance(x, ast.Name) for x in tgt.elts):
                names = [x.id for x in tgt.elts]
                v = s.value
                if isinstance(v, ast.Tuple) and len(v.elts) == len(names):
                    reads = {n.id for x in v.elts for n in ast.walk(x) if isinstance(n, ast.Name)}
                    if reads & set(names): raise Untranslatable('tuple assignment that reads its own targets')
                    vals = [self.pure(x, env) for x in v.elts]
                    out, e2 = '', env
                    for n, (t, ty) in zip(names, vals):
                        e2, ln = self.set_var(e2, n, t, ty, ind); out += ln
                    return out + nxt(e2, ind)
                if isinstance(v, ast.Call) and isinstance(v.func, ast.Attribute) and v.func.attr == 'split' and len(v.args) == 1 \
                        and not v.keywords and isinstance(v.args[0], ast.Constant) and isinstance(v.args[0].value, str) \
                        and len(v.args[0].value) == 1:
                    t, ty = self.pure(v.func.value, env)
                    tmp = [self.fresh('p') for _ in names]
                    e2, lets = env, ''
                    for n, p in zip(names, tmp):
                        e2, ln = self.set_var(e2, n, p, 'str', ind + '  '); lets += ln
                    self.n_raise += 1
                    sep = "'" + v.args[0].value.replace('\\', '\\\\').replace("'", "\\'") + "'"
                    return (f'{ind}(match Scr.Py.split {self.to(t, ty, "val")} {sep} with\n'
                            f'{ind}| Except.error e => Except.error e\n'
                            f'{ind}| Except.ok [{", ".join(tmp)}] =>\n{lets}{nxt(e2, ind + "  ")}\n'
                            f'{ind}| Except.ok _ => Except.error PyErr.valueError)')
            raise Untranslatable('assignment ' + ast.unparse(s)[:80])
        if isinstance(s, ast.AugAssign) and isinstance(s.target, ast.Name) and isinstance(s.op, ast.Add):
            return self.bind_to(self.ex(ast.BinOp(s.target, ast.Add(), s.value), env), s.target.id, env, nxt, ind)
        if isinstance(s, ast.If):
            return self.stmt_if(s, env, nxt, ind)
        raise Untranslatable('statement ' + type(s).__name__ + ': ' + ast.unparse(s)[:80])

    def bind_to(self, v, key, env, nxt, ind):
        t, ty, m = v
        if not m:
            e2, ln = self.set_var(env, key, t, ty, ind)
            return ln + nxt(e2, ind)
        tmp = self.fresh('r')
        e2, ln = self.set_var(env, key, tmp, ty, ind + '  ')
        return ind + self.bind(t, tmp, ln + nxt(e2, ind + '  '))

    def can_raise(self, stmts, env):
        probe = DynTr(self.spec)
        probe.block(list(stmts), dict(env), lambda e, i: i + '()', '')
        return probe.n_raise > 0

    def stmt_if(self, s, env, nxt, ind):
        c = self.truthy(s.test, env)
        ma, ya = self.assigned(s.body); mb, yb = self.assigned(s.orelse)
        order = []
        for n in ast.walk(s):
            tg = []
            if isinstance(n, ast.Assign): tg = [x for t in n.targets for x in (t.elts if isinstance(t, ast.Tuple) else [t])]
            elif isinstance(n, ast.AugAssign): tg = [n.target]
            for x in tg:
                nm = x.value.id if isinstance(x, ast.Subscript) and isinstance(x.value, ast.Name) else ast.unparse(x)
                if nm not in order: order.append(nm)
        both = lambda n: (ma is None or n in ma) and (mb is None or n in mb)
        out = [n for n in order if n in (ya | yb) and (n in env or both(n))]
        if ma is None and mb is None:
            # no path falls through: the rest of the body is unreachable
            a = self.block(list(s.body), env, lambda e, i: i + self.ok('()'), ind + '  ')
            b = self.block(list(s.orelse), env, lambda e, i: i + self.ok('()'), ind + '  ')
            return f'{ind}if {c} then\n{a}\n{ind}else\n{b}'
        monadic = self.can_raise(s.body, env) or self.can_raise(s.orelse, env)
        types = {n: env[n][1] for n in out if n in env}

        def kk(e2, i2):
            parts = []
            for n in out:
                t, ty = e2[n]
                if n not in types: types[n] = ty
                parts.append(self.to(t, ty, types[n], 'for ' + n + ' at the end of a branch'))
            tup = '(' + ', '.join(parts) + ')' if len(parts) != 1 else parts[0]
            if not parts: tup = '()'
            return i2 + (self.ok(tup) if monadic else tup)
        a = self.block(list(s.body), env, kk, ind + '    ')
        b = self.block(list(s.orelse), env, kk, ind + '    ')
        e2 = dict(env)
        for n in out:
            e2[n] = (lean_name(n), types[n])
        names = [e2[n][0] for n in out]
        pat = '(' + ', '.join(names) + ')' if len(names) != 1 else names[0]
        if not names: pat = '_'
        ty = ' × '.join(LEAN_TY[types[n]] for n in out) or 'Unit'
        cond = f'(if {c} then\n{a}\n{ind}  else\n{b}'
        if monadic:
            self.n_raise += 1
            return f'{ind}(Scr.Py.bind {cond} : Except PyErr ({ty})) fun {pat} =>\n{nxt(e2, ind)})'
        return f'{ind}let {pat} : {ty} := {cond})\n{nxt(e2, ind)}'

    # ------------------------------------------------------------------ whole function
    def function(self, f):
        body = list(f.body)
        sp = self.spec
        if sp.start is not None:
            idx = [i for i, st in enumerate(body) if sp.start(st)]
            if len(idx) != 1: raise Untranslatable(f'start of the translated part: {len(idx)} candidates')
            body = body[idx[0] + 1:]
        if sp.stop is not None:
            idx = [i for i, st in enumerate(body) if sp.stop(st)]
            if not idx: raise Untranslatable('end of the translated part not found')
            body = body[:idx[0]]
        if sp.stop_after is not None:
            idx = [i for i, st in enumerate(body) if sp.stop_after(st)]
            if len(idx) != 1: raise Untranslatable(f'end of the translated part: {len(idx)} candidates')
            body = body[:idx[0] + 1]
        if any(isinstance(n, (ast.Return, ast.For, ast.While, ast.Try, ast.With, ast.FunctionDef, ast.Lambda, ast.Global,
                              ast.Nonlocal, ast.Delete, ast.NamedExpr, ast.Yield, ast.Await, ast.Match))
               for st in body for n in ast.walk(st)):
            raise Untranslatable('a statement outside the sub-language (return / loop / try / with / def / walrus …)')

        def final(env, ind):
            parts = []
            for r in sp.result:
                if r not in env: raise Untranslatable('result name never bound: ' + r)
                parts.append(env[r][0])
            return ind + self.ok('(' + ', '.join(parts) + ')' if len(parts) != 1 else parts[0])
        return '\n' + self.block(body, dict(sp.env), final, '  ')


def translate_dyn(spec, trees, find):
    f = find(trees[spec.file], spec.path)
    return DynTr(spec).function(f)
