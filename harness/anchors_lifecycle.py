"""Life cycle of a crop on disk (C04 / C06; C07 / C12 benefit): translated from the source on every run.

`Crop.ensure_dirs_exists / save_function_to_disk / save_info / prepare / load_info / delete_all`, the WHOLE of
`sow_combos / sow_cases / sow_samples` (head, parsing, sorting, `choose_batch_settings`, `prepare`, the runner that drives
the Sower) and of `reap_combos / reap_combos_to_ds / reap_runner` become effect skeletons (pysk2lean) whose effects CARRY
WHAT THEY ARE GIVEN (`lean/XyzModel/Gen/DefaultLifecycle.lean`):

    .writeInfo {combos := some …, batchsize := some …, …}   one field per key of the dict `save_info` writes
    .runSower  {combos := …, cases := …, constants := …, shuffle := …}   the arguments of the runner under `with Sower(self)`
    .gather    {numBatches := …, combos := …, shuffle := …, constants := …}  the Reaper's `num_batches` and the runner's arguments

so the generated function says in which ORDER things happen (dirs → function file → info file → batch files; nothing
before `choose_batch_settings` returned) and which VALUE flows where (what is saved, what is read back, whose constants win).

Machinery added to pysk2lean's `SkTr` (in a subclass, nothing shared is changed):
  * calls of sibling methods WITH arguments are inlined (`self.prepare(combos=…, cases=…)`, `self.save_info(…)`,
    `self.parse_constants(…)`, `self.reap_combos_to_ds(…)`, …): parameters are bound (defaults included), the callee's
    locals are renamed apart, `return <value>` continues in the caller;
  * `self.choose_batch_settings(combos=…, cases=…)` is a call of the translated `Gen.chooseBatchSettings`;
  * `settings["k"]` on the loaded info record is a `KeyError` when the key was not written; `settings.get("k", d)`;
  * dictionaries of constants: `{}`, `{**a, **b}`, `dict(x)`, `x or {}`, `getattr(self, "_sow_constants", {})`.
Anything else raises Untranslatable / NotFound → the anchor falls back to `Gen.Default.<name>`.
"""
import ast, copy
from extract import find, one, NotFound
from pyexpr2lean import Untranslatable
from pyfn2lean import Tr2, is_none
from pysk2lean import SkSpec, SkTr
from anchors_grow import classify_path
import anchors_fn as AF

FILES = {'cropping': 'xyzpy/gen/cropping.py'}


def num(n): return (n, 'num')
def boo(n): return (n, 'bool')
def onum(n): return (n, 'onum')
def obool(n): return (n, 'obool')
def _u(e): return ast.unparse(e)


def _camel(key):
    name = key.strip('_') or 'v'
    return ''.join(w if i == 0 else w.capitalize() for i, w in enumerate(name.split('_')))


# info file: key -> (field of Gen.InfoRec, type of the value)
INFO_FIELDS = {'combos': ('combos', 'C'), 'cases': ('cases', 'K'), 'fn_args': ('fnArgs', 'A'), 'batchsize': ('batchsize', 'onum'),
               'num_batches': ('numBatches', 'onum'), '_batch_remainder': ('remainder', 'onum'), 'shuffle': ('shuffle', 'onum'),
               'farmer': ('farmer', 'pkl'), 'constants': ('constants', 'D')}
NONE_OF = {'C': 'o.noneC', 'K': 'o.noneK', 'A': 'o.noneA', 'D': '([] : Dict V)', 'onum': '(none : Option Int)',
           'obool': '(none : Option Bool)', 'pkl': 'FarmerPkl.none', 'tok': '()', 'oD': '(none : Option (Dict V))'}
# types of the parameters of the methods that are inlined / translated
PARAM_TYPES = {'combos': 'C', 'cases': 'K', 'fn_args': 'A', 'constants': 'D', 'batchsize': 'onum', 'num_batches': 'onum',
               'shuffle': 'onum', 'verbosity': 'tok', 'var_names': 'tok', 'var_dims': 'tok', 'var_coords': 'tok', 'attrs': 'tok',
               'parse': 'bool', 'wait': 'bool', 'clean_up': 'obool', 'allow_incomplete': 'bool', 'to_df': 'bool', 'n': 'num',
               'runner': 'tok'}


def typed(tr, e, want):
    """expression `e` as a Lean term of the type `want` (None, False/True and plain numbers are lifted where Python allows)"""
    if want == 'tok':
        return '()'
    if is_none(e):
        if want in NONE_OF: return NONE_OF[want]
        raise Untranslatable('None where ' + want + ' is expected')
    t, ty = tr.expr(e)
    if ty == want: return t
    if want == 'onum' and ty == 'num': return f'(some {t} : Option Int)'
    if want == 'onum' and ty == 'bool':
        if t in ('true', 'false'): return f'(some {1 if t == "true" else 0} : Option Int)'
        return f'(some (if {t} then 1 else 0) : Option Int)'
    if want == 'obool' and ty == 'bool': return f'(some {t} : Option Bool)'
    if want == 'D' and ty == 'oD': raise Untranslatable('optional dict used as a dict')
    raise Untranslatable(f'{_u(e)[:50]}: {ty} where {want} is expected')


# ------------------------------------------------------------------------------------------------ expressions
class LcExpr(Tr2):
    def expr(self, e):
        hit = self.lookup(e)
        if hit is not None and hit[1] != 'ast':
            return hit
        if isinstance(e, ast.Call):
            fn = _u(e.func)
            if fn == 'sorted' and len(e.args) == 1:
                kw = {k.arg: k.value for k in e.keywords}
                key = kw.pop('key', None)
                if kw or key is None: raise Untranslatable('sorted: ' + _u(e)[:60])
                by_name = (isinstance(key, ast.Lambda) and len(key.args.args) == 1 and isinstance(key.body, ast.Subscript)
                           and isinstance(key.body.value, ast.Name) and key.body.value.id == key.args.args[0].arg
                           and isinstance(key.body.slice, ast.Constant) and key.body.slice.value == 0) \
                    or _u(key) in ('operator.itemgetter(0)', 'itemgetter(0)')
                t, ty = self.expr(e.args[0])
                if not by_name or ty != 'C': raise Untranslatable('sorted: ' + _u(e)[:60])
                return f'(o.sortByName {t})', 'C'
            if fn == 'dict' and len(e.args) == 1 and not e.keywords:
                t, ty = self.expr(e.args[0])
                if ty == 'D': return t, 'D'
                raise Untranslatable('dict of ' + str(ty))
            if fn == 'getattr' and len(e.args) == 3 and not e.keywords and _u(e.args[0]) == 'self' \
                    and isinstance(e.args[1], ast.Constant) and isinstance(e.args[1].value, str):
                hit = self.env.get('self.' + e.args[1].value)
                if hit is not None and hit[1] == 'oD' and isinstance(e.args[2], ast.Dict) and not e.args[2].keys:
                    return f'({hit[0]}.getD [])', 'D'
                raise Untranslatable('getattr: ' + _u(e)[:60])
            if fn == 'os.path.isfile' and len(e.args) == 1 and not e.keywords:
                k = classify_path(e.args[0], self, lambda n: False)
                if k is not None and k[0] == 'info': return 'infoIsFile', 'bool'
                raise Untranslatable('isfile of ' + _u(e.args[0])[:60])
            if isinstance(e.func, ast.Attribute) and e.func.attr == 'get' and not e.keywords and len(e.args) in (1, 2) \
                    and isinstance(e.args[0], ast.Constant):
                v, vty = self.expr(e.func.value)
                if vty == 'info':
                    if e.args[0].value not in INFO_FIELDS: raise Untranslatable('unknown info key ' + repr(e.args[0].value))
                    field, fty = INFO_FIELDS[e.args[0].value]
                    if len(e.args) == 2:
                        return f'({v}.{field}.getD {typed(self, e.args[1], fty)})', fty
                    if fty == 'D': return f'{v}.{field}', 'oD'
                    raise Untranslatable('.get without default on ' + field)
        if isinstance(e, ast.Dict):
            if not e.keys:
                return '([] : Dict V)', 'D'
            if all(k is None for k in e.keys):
                parts = [self.expr(v) for v in e.values]
                if any(ty != 'D' for _, ty in parts): raise Untranslatable('{**…} of non-dicts: ' + _u(e)[:60])
                t = parts[0][0]
                for p, _ in parts[1:]:
                    t = f'(dictMerge {t} {p})'
                return t, 'D'
        if isinstance(e, ast.BoolOp) and isinstance(e.op, ast.Or) and len(e.values) == 2 and isinstance(e.values[1], ast.Dict) \
                and not e.values[1].keys:
            t, ty = self.expr(e.values[0])              # `x or {}`: an empty / missing dict reads as the empty dict
            if ty == 'D': return t, 'D'
            if ty == 'oD': return f'({t}.getD [])', 'D'
        return super().expr(e)


# ------------------------------------------------------------------------------------------------ statements
class LcSpec(SkSpec):
    def __init__(self, file, path, env, inline=(), **kw):
        super().__init__(file, path, env, **kw)
        self.inline_methods = set(inline)      # names of Crop methods that may be inlined


class LcTr(SkTr):
    def __init__(self, spec, trees, find_):
        super().__init__(spec, trees, find_)
        self.frames = []        # continuations of the inlined calls we are inside of
        self.prefix = ''
        self.ninl = 0

    def tr(self, env):
        return LcExpr(env, self.spec.num)

    # ---- results
    def state(self, env):
        parts = [env['$trace'][0]] + [env[k][0] for k in self.spec.result]
        return parts[0] if len(parts) == 1 else '(' + ', '.join(parts) + ')'

    def ok(self, env, ret=None):
        return f'({self.state(env)}, none)'

    def err(self, env, code):
        return f'({self.state(env)}, some {code})'

    def fall_off(self, env):
        return self.ok(env)

    def assign(self, env, key, term, ty):
        if key in env and env[key][1] == 'oD' and ty == 'D':
            term, ty = f'(some {term})', 'oD'
        if key not in env and self.prefix and key.isidentifier() and ty != 'none':
            env = dict(env); env[key] = (self.prefix + _camel(key), ty)          # locals of an inlined method are renamed apart
        return super().assign(env, key, term, ty)

    # ---- steps
    def steps(self, steps, rest_fn, env, ind):
        if not steps:
            return rest_fn(env, ind)
        st, more = steps[0], steps[1:]
        kind = st[0]
        tr = env['$trace'][0]
        if kind == 'eff':
            _, name, cond = st
            if cond is None:
                e2 = env
                head = f'{ind}let {tr} := {tr} ++ [{name}]\n{ind}if fails {name} then {self.err(e2, ".other")} else\n'
            else:
                head = (f'{ind}let {tr} := if {cond} then {tr} ++ [{name}] else {tr}\n'
                        f'{ind}if {cond} && fails {name} then {self.err(env, ".other")} else\n')
            return head + self.steps(more, rest_fn, env, ind)
        if kind == 'let':
            _, key, term, ty = st
            e2, ln = self.assign(env, key, term, ty)
            return f'{ind}{ln}\n' + self.steps(more, rest_fn, e2, ind)
        if kind == 'setenv':
            e2 = dict(env); e2[st[1]] = st[2]
            return self.steps(more, rest_fn, e2, ind)
        if kind == 'expr':                       # target := the value of a python expression in the current environment
            _, key, node = st
            t, ty = self.tr(env).expr(node)
            if key.startswith('$'):
                e2 = dict(env); e2[key] = (t, ty)
                return self.steps(more, rest_fn, e2, ind)
            e2, ln = self.assign(env, key, t, ty)
            return f'{ind}{ln}\n' + self.steps(more, rest_fn, e2, ind)
        if kind == 'pure':
            _, term, binds = st
            e2 = dict(env); names = []
            for key, name, ty in binds:
                if self.prefix and not key.startswith('self.'):
                    name = self.prefix + name                     # values bound inside an inlined method are renamed apart
                e2[key] = (name, ty); names.append(name)
            pat = names[0] if len(names) == 1 else '(' + ', '.join(names) + ')'
            body = self.steps(more, rest_fn, e2, ind + '  ')
            return (f'{ind}(match {term} with\n{ind}| .error e => {self.err(env, "e")}\n{ind}| .ok {pat} =>\n{body})')
        if kind == 'effenv':                     # an effect attempted when the (boolean) python name `st[2]` holds
            return self.steps([('eff', st[1], env[st[2]][0])] + list(more), rest_fn, env, ind)
        if kind == 'sub':                        # another skeleton `List E × Option PyErr` run on the current trace
            body = self.steps(more, rest_fn, env, ind + '  ')
            return (f'{ind}(match {st[1]} with\n{ind}| ({tr}, some e) => {self.err(env, "e")}\n'
                    f'{ind}| ({tr}, none) =>\n{body})')
        if kind == 'tail':
            if more: raise Untranslatable('statements after a tail call')
            self._tail = True
            return f'{ind}{st[1]}'
        raise Untranslatable('unknown step ' + str(kind))

    # ---- statements
    def method_call(self, s):
        """(call node, target name or None) when `s` is `self.m(…)` / `x = self.m(…)` with m an inlinable method"""
        v = s.value if isinstance(s, (ast.Expr, ast.Assign)) else None
        if isinstance(v, ast.Call) and isinstance(v.func, ast.Attribute) and _u(v.func.value) == 'self' \
                and v.func.attr in self.spec.inline_methods:
            if isinstance(s, ast.Expr): return v, None
            if len(s.targets) == 1 and isinstance(s.targets[0], ast.Name): return v, s.targets[0].id
        return None

    def block(self, stmts, env, ind):
        if stmts:
            s, rest = stmts[0], stmts[1:]
            if isinstance(s, ast.Return) and self.frames:
                k = self.frames.pop()
                try:
                    return k(env, ind, s.value)
                finally:
                    self.frames.append(k)
            if not any(pred(s) for pred, _ in self.spec.handlers):
                mc = self.method_call(s)
                if mc is not None:
                    return self.inline(mc[0], mc[1], rest, env, ind)
        return super().block(stmts, env, ind)

    def bind_params(self, fdef, call, env):
        """[(parameter, lean term, type)] for a call of method `fdef` (self skipped), defaults included"""
        a = fdef.args
        if a.vararg or a.kwarg or a.posonlyargs: raise Untranslatable('signature of ' + fdef.name)
        pos = [x.arg for x in a.args][1:]
        dflt = dict(zip([x.arg for x in a.args][len(a.args) - len(a.defaults):], a.defaults))
        for x, d in zip(a.kwonlyargs, a.kw_defaults):
            if d is not None: dflt[x.arg] = d
        names = pos + [x.arg for x in a.kwonlyargs]
        given = {}
        if len(call.args) > len(pos): raise Untranslatable('too many positional arguments for ' + fdef.name)
        for p, v in zip(pos, call.args): given[p] = v
        for k in call.keywords:
            if k.arg is None or k.arg not in names or k.arg in given: raise Untranslatable('argument of ' + fdef.name)
            given[k.arg] = k.value
        out = []
        tr = self.tr(env)
        for p in names:
            if p not in PARAM_TYPES: raise Untranslatable(f'parameter {p} of {fdef.name}')
            if p in given:
                t = typed(tr, given[p], PARAM_TYPES[p])
            elif p in dflt:
                if not isinstance(dflt[p], ast.Constant): raise Untranslatable('default of ' + p)
                t = typed(LcExpr({}, self.spec.num), dflt[p], PARAM_TYPES[p])
            else:
                raise Untranslatable(f'{p} not passed to {fdef.name}')
            out.append((p, t, PARAM_TYPES[p]))
        return out

    def inline(self, call, target, rest, env, ind):
        fdef = self.find(self.trees['cropping'], ['Crop', call.func.attr])
        self.ninl += 1
        if self.ninl > 40: raise Untranslatable('inlining too deep')
        prefix = f'i{self.ninl}'
        cenv = {k: v for k, v in env.items() if k.startswith(('self.', '$', 'runner.'))}
        lines = []
        for p, t, ty in self.bind_params(fdef, call, env):
            name = prefix + _camel(p).capitalize()
            lines.append(f'{ind}let {name} := {t}')
            cenv[p] = (name, ty)
        for k, v in getattr(self.spec, 'callee_env', {}).get(fdef.name, {}).items():
            cenv[k] = v
        old_prefix = self.prefix

        def k(e2, i2, value):
            saved, self.prefix = self.prefix, old_prefix
            try:
                env3 = dict(env)
                for key, v in e2.items():
                    if key.startswith(('self.', '$trace')) and key in env: env3[key] = v
                if target is not None:
                    if value is None or is_none(value): raise Untranslatable('inlined method returns nothing: ' + fdef.name)
                    t, ty = self.tr(e2).expr(value)
                    env3, ln = self.assign(env3, target, t, ty)
                    return f'{i2}{ln}\n' + self.block(rest, env3, i2)
                return self.block(rest, env3, i2)
            finally:
                self.prefix = saved

        self.frames.append(k)
        self.prefix = prefix + '_'
        try:
            body = self.block_then(list(fdef.body), lambda e, i: self.block([ast.Return(value=None)], e, i), cenv, ind)
        finally:
            self.frames.pop()
            self.prefix = old_prefix
        return ''.join(l + '\n' for l in lines) + body


# ------------------------------------------------------------------------------------------------ handlers: sowing
def _assign_call(s, names):
    """the Call when `s` is `x = f(…)` with f in names"""
    if isinstance(s, ast.Assign) and len(s.targets) == 1 and isinstance(s.targets[0], ast.Name) and isinstance(s.value, ast.Call) \
            and _u(s.value.func) in names:
        return s.value
    return None


def _h_parse(s, tr, env):
    c = s.value
    fn, tgt = _u(c.func), s.targets[0].id
    if c.keywords: raise Untranslatable('keywords in ' + fn)
    if fn == 'parse_combos' and len(c.args) == 1:
        return [('eff', '(.parse .combos)', None), ('let', tgt, f'(o.parseCombos {typed(tr, c.args[0], "C")})', 'C')]
    if fn == 'parse_cases' and len(c.args) in (1, 2):
        fa = f'(some {typed(tr, c.args[1], "A")})' if len(c.args) == 2 else 'none'
        return [('eff', '(.parse .cases)', None), ('let', tgt, f'(o.parseCases {typed(tr, c.args[0], "K")} {fa})', 'K')]
    if fn == 'parse_fn_args' and len(c.args) == 2 and _u(c.args[0]) in ('self._fn', 'self.fn'):
        return [('eff', '(.parse .fnArgs)', None), ('let', tgt, f'(o.parseFnArgs {typed(tr, c.args[1], "A")})', 'A')]
    if fn == 'parse_constants' and len(c.args) == 1:
        return [('eff', '(.parse .constants)', None), ('let', tgt, f'(o.parseConstants {typed(tr, c.args[0], "D")})', 'D')]
    if fn == 'parse_attrs' and len(c.args) == 1:
        return [('eff', '(.parse .attrs)', None), ('let', tgt, '()', 'tok')]
    raise Untranslatable('parser call ' + _u(c)[:60])


def _is_gen_cases(s):
    return isinstance(s, ast.Assign) and len(s.targets) == 1 and isinstance(s.targets[0], ast.Tuple) and isinstance(s.value, ast.Call) \
        and _u(s.value.func) == 'self.farmer.gen_cases_fnargs'


def _h_gen_cases(s, tr, env):
    c, tg = s.value, [_u(t) for t in s.targets[0].elts]
    if tg != ['fn_args', 'cases'] or len(c.args) != 2 or c.keywords: raise Untranslatable('gen_cases_fnargs shape')
    n, cb = typed(tr, c.args[0], 'num'), typed(tr, c.args[1], 'C')
    return [('eff', '(.parse .genCases)', None), ('let', 'fn_args', f'(o.genFnArgs {n} {cb})', 'A'),
            ('let', 'cases', f'(o.genCases {n} {cb})', 'K')]


def _is_choose(s):
    return isinstance(s, ast.Expr) and isinstance(s.value, ast.Call) and _u(s.value.func) == 'self.choose_batch_settings'


def _h_choose(s, tr, env):
    c = s.value
    kw = {k.arg: k.value for k in c.keywords}
    if c.args or set(kw) - {'combos', 'cases'}: raise Untranslatable('choose_batch_settings arguments')
    cb = typed(tr, kw.get('combos', ast.Constant(None)), 'C')
    cs = typed(tr, kw.get('cases', ast.Constant(None)), 'K')
    obj = ' '.join(env[k][0] for k in ('self.batchsize', 'self.num_batches', 'self._batch_remainder'))
    return [('pure', f'chooseBatchSettings (o.combosTruthy {cb}) (o.combosProd {cb}) (o.casesTruthy {cs}) (o.casesLen {cs}) {obj}',
             [('self.batchsize', 'batchsize', 'onum'), ('self.num_batches', 'numBatches', 'onum'), ('self._batch_remainder', 'remainder', 'onum')])]


def _is_makedirs(s):
    return isinstance(s, ast.Expr) and isinstance(s.value, ast.Call) and _u(s.value.func) == 'os.makedirs'


def _h_makedirs(s, tr, env):
    c = s.value
    if len(c.args) != 1: raise Untranslatable('os.makedirs arguments')
    p = tr.resolve(c.args[0])
    kind = '.other'
    if isinstance(p, ast.Call) and _u(p.func) == 'os.path.join' and len(p.args) == 2 and _u(p.args[0]) == 'self.location' \
            and isinstance(p.args[1], ast.Constant) and p.args[1].value in ('batches', 'results'):
        kind = '.' + p.args[1].value
    kw = {k.arg: k.value for k in c.keywords}
    if set(kw) - {'exist_ok'}: raise Untranslatable('os.makedirs keywords')
    ok = kw.get('exist_ok', ast.Constant(False))
    if not (isinstance(ok, ast.Constant) and isinstance(ok.value, bool)): raise Untranslatable('exist_ok')
    return [('eff', f'(.mkDir {kind} {"true" if ok.value else "false"})', None)]


def _is_write(s):
    return isinstance(s, ast.Expr) and isinstance(s.value, ast.Call) and _u(s.value.func) == 'write_to_disk'


def _h_write(s, tr, env):
    c = s.value
    if len(c.args) != 2 or c.keywords: raise Untranslatable('write_to_disk arity')
    k = classify_path(c.args[1], tr, lambda n: False)
    obj = tr.resolve(c.args[0])
    if k is not None and k[0] == 'fn':
        if isinstance(obj, ast.Call) and _u(obj.func) == 'to_pickle' and [_u(a) for a in obj.args] in (['self._fn'], ['self.fn']):
            return [('eff', '.pickleFn', None), ('eff', '.writeFn', None)]
        raise Untranslatable('function file does not hold the pickled function')
    if k is not None and k[0] == 'info':
        if not isinstance(obj, ast.Dict) or any(not (isinstance(x, ast.Constant) and isinstance(x.value, str)) for x in obj.keys):
            raise Untranslatable('info file does not hold a dict literal')
        fields = []
        for key, val in zip(obj.keys, obj.values):
            if key.value not in INFO_FIELDS: continue             # a further entry: nothing here reads it
            field, fty = INFO_FIELDS[key.value]
            fields.append(f'{field} := some {typed(tr, val, fty)}')
        rec = '{ ' + ', '.join(fields) + ' }' if fields else '{}'
        return [('eff', f'(.writeInfo {rec})', None)]
    return [('eff', '.writeOther', None)]


# the `farmer` entry of the info file
def _is_farmer_copy(s): return _assign_call(s, ('copy.deepcopy', 'copy.copy')) is not None and _u(s.value.args[0]) == 'self.farmer'


def _is_strip_fn(s):
    return isinstance(s, ast.Assign) and len(s.targets) == 1 and isinstance(s.targets[0], ast.Attribute) and s.targets[0].attr == 'fn' \
        and isinstance(s.targets[0].value, ast.Name) and is_none(s.value)


def _h_strip_fn(s, tr, env):
    key = s.targets[0].value.id
    if env.get(key, (0, 0))[1] != 'fcopy': raise Untranslatable('fn = None on ' + key)
    return [('setenv', key, ('true', 'fcopy'))]


def _is_pickle_farmer(s):
    c = _assign_call(s, ('to_pickle',))
    return c is not None and len(c.args) == 1 and isinstance(c.args[0], ast.Name)


def _h_pickle_farmer(s, tr, env):
    src = s.value.args[0].id
    if env.get(src, (0, 0))[1] != 'fcopy': raise Untranslatable('to_pickle of ' + src)
    stripped = env[src][0]
    return [('eff', f'(.pickleFarmer {stripped})', None), ('setenv', s.targets[0].id, (f'(FarmerPkl.pickled {stripped})', 'pkl'))]


def _is_pkl_none(s):
    return isinstance(s, ast.Assign) and len(s.targets) == 1 and isinstance(s.targets[0], ast.Name) and is_none(s.value) \
        and s.targets[0].id == 'farmer_pkl'


_SOWER = (lambda ce: isinstance(ce, ast.Call) and _u(ce.func) == 'Sower' and [_u(a) for a in ce.args] == ['self'] and not ce.keywords,
          lambda s, tr, env: [('setenv', s.items[0].optional_vars.id if isinstance(s.items[0].optional_vars, ast.Name) else '$sow', ('()', 'sower'))],
          lambda s, tr, env: [('eff', '.exitSower', None)])


def _is_sow_run(s):
    return isinstance(s, ast.Expr) and isinstance(s.value, ast.Call) and _u(s.value.func) in ('combo_runner_core', 'case_runner', 'combo_runner')


def _h_sow_run(s, tr, env):
    c = s.value
    if c.args: raise Untranslatable('positional arguments of the sowing runner')
    kw = {k.arg: k.value for k in c.keywords}
    if None in kw: raise Untranslatable('**kwargs in the sowing runner')
    fn = kw.pop('fn', None)
    if not isinstance(fn, ast.Name) or env.get(fn.id, (0, 0))[1] != 'sower': raise Untranslatable('the runner is not driven by the Sower')
    kind = {'combo_runner_core': '.comboRunnerCore', 'case_runner': '.caseRunner'}.get(_u(c.func), '.other')
    kw.pop('verbosity', None)
    N = ast.Constant(None)
    parse = kw.pop('parse', ast.Constant(True))
    args = (f'runner := {kind}, combos := {typed(tr, kw.pop("combos", N), "C")}, cases := {typed(tr, kw.pop("cases", N), "K")}, '
            f'fnArgs := {typed(tr, kw.pop("fn_args", N), "A")}, constants := {typed(tr, kw.pop("constants", N), "D")}, '
            f'shuffle := {typed(tr, kw.pop("shuffle", ast.Constant(False)), "onum")}, parse := {typed(tr, parse, "bool")}')
    if kw: raise Untranslatable('further arguments of the sowing runner: ' + ', '.join(kw))
    return [('eff', '(.runSower { ' + args + ' })', None)]


def _is_rmtree(s):
    return isinstance(s, ast.Expr) and isinstance(s.value, ast.Call) and _u(s.value.func) == 'shutil.rmtree'


def _h_rmtree(s, tr, env):
    c = s.value
    if [_u(a) for a in c.args] != ['self.location'] or c.keywords: raise Untranslatable('rmtree of something else')
    return [('eff', '.deleteAll', None)]


def _is_sow_cases_tail(s):
    return isinstance(s, ast.Expr) and isinstance(s.value, ast.Call) and _u(s.value.func) == 'self.sow_cases'


_OBJ_ARGS = 'saveFn farmerIsNone hasRunner runnerConstants runnerResources'
_OBJ_STATE = ['self.batchsize', 'self.num_batches', 'self._batch_remainder', 'self.shuffle', 'self._sow_constants']


def _h_sow_cases_tail(lc):
    def h(s, tr, env):
        fdef = find(lc.trees['cropping'], ['Crop', 'sow_cases'])
        b = {p: t for p, t, _ in lc.bind_params(fdef, s.value, env)}
        st = ' '.join(env[k][0] for k in _OBJ_STATE)
        return [('tail', f'sowCasesLc o fails {b["fn_args"]} {b["cases"]} {b["combos"]} {b["constants"]} {b["batchsize"]} '
                         f'{b["num_batches"]} {_OBJ_ARGS} {st} {env["$trace"][0]}')]
    return h


def _is_read_info_return(s):
    return isinstance(s, ast.Return) and isinstance(s.value, ast.Call) and _u(s.value.func) == 'read_from_disk'


def _h_read_info_return(s, tr, env):
    k = classify_path(s.value.args[0], tr, lambda n: False) if len(s.value.args) == 1 else None
    if k is None or k[0] != 'info': raise Untranslatable('load_info reads another file')
    return [('eff', '.loadInfo', None)]


_SOW_HANDLERS = [
    (lambda s: _assign_call(s, ('parse_combos', 'parse_cases', 'parse_fn_args', 'parse_constants', 'parse_attrs')) is not None, _h_parse),
    (_is_gen_cases, _h_gen_cases),
    (_is_choose, _h_choose),
    (_is_makedirs, _h_makedirs),
    (_is_write, _h_write),
    (_is_farmer_copy, lambda s, tr, env: [('setenv', s.targets[0].id, ('false', 'fcopy'))]),
    (_is_strip_fn, _h_strip_fn),
    (_is_pickle_farmer, _h_pickle_farmer),
    (_is_pkl_none, lambda s, tr, env: [('setenv', 'farmer_pkl', ('FarmerPkl.none', 'pkl'))]),
    (_is_sow_run, _h_sow_run),
    (_is_rmtree, _h_rmtree),
    (_is_read_info_return, _h_read_info_return),
]

_OBJ_ENV = {
    'self.batchsize': onum('batchsize'), 'self.num_batches': onum('numBatches'), 'self._batch_remainder': onum('remainder'),
    'self.shuffle': onum('shuffle'), 'self._sow_constants': ('sowConstants', 'oD'),
    'self.save_fn': boo('saveFn'),
    'self.farmer is not None': ('(!farmerIsNone)', 'bool'), 'self.farmer is None': boo('farmerIsNone'),
    'self.runner is not None': boo('hasRunner'), 'self.runner is None': ('(!hasRunner)', 'bool'),
    'self.runner._constants': ('runnerConstants', 'D'), 'self.runner._resources': ('runnerResources', 'D'),
}
_INLINE = ('prepare', 'ensure_dirs_exists', 'save_function_to_disk', 'save_info', 'parse_constants', 'delete_all', 'reap_combos_to_ds')
_CALLEE_ENV = {}


def _translate(meth, env, result=(), handlers=_SOW_HANDLERS, withs=(_SOWER,), extra_handlers=None):
    def a(T):
        spec = LcSpec('cropping', ['Crop', meth], env, inline=_INLINE, handlers=list(handlers), withs=list(withs), result=list(result))
        spec.callee_env = _CALLEE_ENV
        f = find(T['cropping'], ['Crop', meth])
        lc = LcTr(spec, T, find)
        if extra_handlers: spec.handlers = extra_handlers(lc) + spec.handlers
        e0 = dict(spec.env)
        e0.update(_CALLEE_ENV.get(meth, {}))
        return '\n' + lc.block(list(f.body), e0, '  ')
    return a


_ARG = {'combos': ('combos', 'C'), 'cases': ('cases', 'K'), 'fn_args': ('fnArgs', 'A'), 'constants': ('constants', 'D')}
_HEAD_ARGS = {'batchsize': onum('batchsizeArg'), 'num_batches': onum('numBatchesArg')}

a_ensureDirsLc = _translate('ensure_dirs_exists', {})
a_saveFnLc = _translate('save_function_to_disk', {})
a_saveInfoLc = _translate('save_info', {**_OBJ_ENV, 'combos': _ARG['combos'], 'cases': _ARG['cases'], 'fn_args': _ARG['fn_args']})
a_prepareLc = _translate('prepare', {**_OBJ_ENV, 'combos': _ARG['combos'], 'cases': _ARG['cases'], 'fn_args': _ARG['fn_args']})
a_deleteAllLc = _translate('delete_all', {})
a_loadInfoLc = _translate('load_info', {})
a_sowCombosLc = _translate('sow_combos', {**_OBJ_ENV, **_HEAD_ARGS, 'combos': _ARG['combos'], 'cases': _ARG['cases'],
                                           'constants': _ARG['constants'], 'shuffle': onum('shuffleArg')}, result=_OBJ_STATE)
a_sowCasesLc = _translate('sow_cases', {**_OBJ_ENV, **_HEAD_ARGS, 'combos': _ARG['combos'], 'cases': _ARG['cases'],
                                         'constants': _ARG['constants'], 'fn_args': _ARG['fn_args']}, result=_OBJ_STATE)
a_sowSamplesLc = _translate('sow_samples', {**_OBJ_ENV, 'n': num('n'), 'combos': _ARG['combos'], 'constants': _ARG['constants']},
                            result=_OBJ_STATE,
                            extra_handlers=lambda lc: [(_is_sow_cases_tail, _h_sow_cases_tail(lc))])


# ------------------------------------------------------------------------------------------------ handlers: reaping
def _subscripts(node, env):
    """the distinct `settings["k"]` sub-expressions (on a name typed `info`) in `node`, in source order"""
    out = []
    for n in ast.walk(node):
        if isinstance(n, ast.Subscript) and isinstance(n.value, ast.Name) and env.get(n.value.id, (0, 0))[1] == 'info' \
                and isinstance(n.slice, ast.Constant) and isinstance(n.ctx, ast.Load):
            if n.slice.value not in INFO_FIELDS: raise Untranslatable('unknown info key ' + repr(n.slice.value))
            if _u(n) not in [_u(x) for x in out]: out.append(n)
    out.sort(key=lambda n: (n.lineno, n.col_offset))
    return out


def _key_steps(node, env, done):
    steps = []
    for n in _subscripts(node, env):
        if _u(n) in env or _u(n) in done: continue
        field, fty = INFO_FIELDS[n.slice.value]
        done.add(_u(n))
        steps.append(('pure', f'getKey {env[n.value.id][0]}.{field}', [(_u(n), 'k' + field[0].upper() + field[1:], fty)]))
    return steps


def _h_settings(s, tr, env):
    """`settings = self.load_info()`"""
    return [('eff', '.loadInfo', None), ('setenv', s.targets[0].id, ('info', 'info'))]


def _is_settings(s):
    return isinstance(s, ast.Assign) and len(s.targets) == 1 and isinstance(s.targets[0], ast.Name) and _u(s.value) == 'self.load_info()'


def _has_load_info_expr(s):
    return isinstance(s, ast.Assign) and len(s.targets) == 1 and isinstance(s.targets[0], ast.Name) and not _is_settings(s) and \
        any(isinstance(n, ast.Call) and _u(n) == 'self.load_info()' for n in ast.walk(s.value))


def _h_load_info_expr(s, tr, env):
    """`x = <expression in self.load_info()>`: the file is read, then the expression is evaluated on what it holds"""
    return [('eff', '.loadInfo', None), ('setenv', 'self.load_info()', ('info', 'info')), ('expr', s.targets[0].id, s.value)]


def _reaper_enter(s, tr, env):
    ce = s.items[0].context_expr
    kw = {k.arg: k.value for k in ce.keywords}
    if [_u(a) for a in ce.args] != ['self'] or 'num_batches' not in kw: raise Untranslatable('Reaper(...) arguments')
    steps = _key_steps(kw['num_batches'], env, set())
    var = s.items[0].optional_vars
    return steps + [('expr', '$reaperNb', kw['num_batches']),
                    ('setenv', var.id if isinstance(var, ast.Name) else '$reap', ('()', 'reaper'))]


_REAPER = (lambda ce: isinstance(ce, ast.Call) and _u(ce.func) == 'Reaper', _reaper_enter,
           lambda s, tr, env: [('eff', '.reaperExit', None)])


def _is_gather(s):
    return isinstance(s, ast.Assign) and isinstance(s.value, ast.Call) and _u(s.value.func) in ('combo_runner_core', 'combo_runner_to_ds')


def _h_gather(s, tr, env):
    c = s.value
    if c.args: raise Untranslatable('positional arguments of the reaping runner')
    kw = {k.arg: k.value for k in c.keywords}
    if None in kw: raise Untranslatable('**kwargs in the reaping runner')
    fn = kw.pop('fn', None)
    if not isinstance(fn, ast.Name) or env.get(fn.id, (0, 0))[1] != 'reaper': raise Untranslatable('the runner is not driven by the Reaper')
    if '$reaperNb' not in env: raise Untranslatable('no Reaper')
    to_ds = _u(c.func) == 'combo_runner_to_ds'
    for k in ('var_names', 'var_dims', 'var_coords', 'attrs', 'to_df', 'verbosity'): kw.pop(k, None)
    res = kw.pop('resources', None)
    if res is not None and not (isinstance(res, ast.Dict) and not res.keys): raise Untranslatable('resources handed to the reaping runner')
    pre = []
    done = set()
    for v in kw.values(): pre += _key_steps(v, env, done)
    N = ast.Constant(None)
    parse = kw.pop('parse', ast.Constant(True))
    names = {k: kw.pop(k, d) for k, d in (('combos', N), ('cases', N), ('constants', ast.Dict(keys=[], values=[])), ('shuffle', ast.Constant(False)))}
    if kw: raise Untranslatable('further arguments of the reaping runner: ' + ', '.join(kw))
    return pre + [('gather', '.comboRunnerToDs' if to_ds else '.comboRunnerCore', names, parse)] + \
        ([('eff', '.label', None)] if to_ds else []) + [('let', t, '()', 'tok') for t in AF._targets(s)]


class ReapTr(LcTr):
    def steps(self, steps, rest_fn, env, ind):
        if steps and steps[0][0] == 'gather':
            _, kind, names, parse = steps[0]
            tr = self.tr(env)
            nb = env['$reaperNb']
            if nb[1] not in ('onum', 'num'): raise Untranslatable('num_batches of the Reaper')
            nbt = nb[0] if nb[1] == 'onum' else f'(some {nb[0]} : Option Int)'
            args = (f'runner := {kind}, numBatches := {nbt}, combos := {typed(tr, names["combos"], "C")}, '
                    f'cases := {typed(tr, names["cases"], "K")}, constants := {typed(tr, names["constants"], "D")}, '
                    f'shuffle := {typed(tr, names["shuffle"], "onum")}, parse := {typed(tr, parse, "bool")}')
            return super().steps([('eff', '(.gather { ' + args + ' })', None)] + list(steps[1:]), rest_fn, env, ind)
        return super().steps(steps, rest_fn, env, ind)


_REAP_HANDLERS = [
    (lambda st: AF._call_named(st, 'check_ready_to_reap') is not None, AF._h_check_ready),
    (lambda st: AF._call_named(st, 'calc_clean_up_default_res') is not None,
     lambda st, tr, env: [AF._h_calc(st, tr, env)[0], ('effenv', '.allNan', 'default_result')]),
    (_is_settings, _h_settings),
    (_has_load_info_expr, _h_load_info_expr),
    (_is_gather, _h_gather),
    (AF._is_set_last, lambda st, tr, env: [('eff', '.setLast', None)]),
    (lambda s: _assign_call(s, ('parse_constants', 'parse_attrs')) is not None, _h_parse),
    (_is_rmtree, _h_rmtree),
]
_REAP_ENV = {'wait': boo('wait'), 'clean_up': obool('cleanUp'), 'allow_incomplete': boo('allowIncomplete'),
             'self.shuffle': onum('selfShuffle'), 'self.batchsize': onum('selfBatchsize'), 'self.num_batches': onum('selfNumBatches'),
             'self._batch_remainder': onum('selfRemainder')}


def _reap(meth, env):
    def a(T):
        spec = LcSpec('cropping', ['Crop', meth], {**_REAP_ENV, **env}, inline=_INLINE, handlers=list(_REAP_HANDLERS), withs=[_REAPER])
        f = find(T['cropping'], ['Crop', meth])
        lc = ReapTr(spec, T, find)
        return '\n' + lc.block(list(f.body), dict(spec.env), '  ')
    return a


a_reapCombosLc = _reap('reap_combos', {})
a_reapCombosToDsLc = _reap('reap_combos_to_ds', {'constants': ('constants', 'D'), 'parse': boo('parse'), 'to_df': boo('toDf')})
a_reapRunnerLc = _reap('reap_runner', {'runner._constants': ('runnerConstants', 'D'), 'to_df': boo('toDf'),
                                       'runner._var_names': ('()', 'tok'), 'runner._var_dims': ('()', 'tok'),
                                       'runner._var_coords': ('()', 'tok'), 'runner._attrs': ('()', 'tok')})


# ------------------------------------------------------------------------------------------------ anchors
_T = '{C K A V : Type} (o : LcOps C K A V) (fails : LEff C K A V → Bool)'
_TR = '(trace : List (LEff C K A V)) : List (LEff C K A V) × Option PyErr'
_OBJ = ('(saveFn farmerIsNone hasRunner : Bool) (runnerConstants runnerResources : Dict V) '
        '(batchsize numBatches remainder shuffle : Option Int) (sowConstants : Option (Dict V))')
_LRES = '(trace : List (LEff C K A V)) : LRes C K A V'
_REAPP = ('(info : InfoRec C K A V) (wait : Bool) (cleanUp : Option Bool) (allowIncomplete : Bool) '
          '(selfBatchsize selfNumBatches selfRemainder selfShuffle : Option Int)')

ANCHORS = [
    ('ensureDirsLc', f'{_T} {_TR}', a_ensureDirsLc),
    ('saveFnLc', f'{_T} {_TR}', a_saveFnLc),
    ('saveInfoLc', f'{_T} (combos : C) (cases : K) (fnArgs : A) {_OBJ} {_TR}', a_saveInfoLc),
    ('prepareLc', f'{_T} (combos : C) (cases : K) (fnArgs : A) {_OBJ} {_TR}', a_prepareLc),
    ('deleteAllLc', f'{_T} {_TR}', a_deleteAllLc),
    ('loadInfoLc', f'{_T} (infoIsFile : Bool) {_TR}', a_loadInfoLc),
    ('sowCasesLc', f'{_T} (fnArgs : A) (cases : K) (combos : C) (constants : Dict V) (batchsizeArg numBatchesArg : Option Int) {_OBJ} {_LRES}',
     a_sowCasesLc),
    ('sowCombosLc', f'{_T} (combos : C) (cases : K) (constants : Dict V) (shuffleArg batchsizeArg numBatchesArg : Option Int) {_OBJ} {_LRES}',
     a_sowCombosLc),
    ('sowSamplesLc', f'{_T} (n : Int) (combos : C) (constants : Dict V) {_OBJ} {_LRES}', a_sowSamplesLc),
    ('reapCombosLc', f'{_T} {_REAPP} {_TR}', a_reapCombosLc),
    ('reapCombosToDsLc', f'{_T} {_REAPP} (constants : Dict V) (parse toDf : Bool) {_TR}', a_reapCombosToDsLc),
    ('reapRunnerLc', f'{_T} {_REAPP} (runnerConstants : Dict V) (toDf : Bool) {_TR}', a_reapRunnerLc),
]
