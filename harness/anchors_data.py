"""Extraction anchors of the data family (C05, C13, C14): xyzpy/manage.py and the Harvester of xyzpy/gen/farming.py.

Every anchor is located by function + syntactic role.  Bool anchors compare AST shapes ("is the path handed to
os.access the bare data name or auto_add_extension(data name, engine)?"); anything unrecognised raises NotFound and the
anchor falls back to lean/XyzModel/Gen/DefaultData.lean (status `fallback`)."""
import ast
from extract import find, assigns, one, NotFound
from pyexpr2lean import lean_str

FILES = {'farming': 'xyzpy/gen/farming.py', 'manage': 'xyzpy/manage.py'}


def _b(x): return 'true' if x else 'false'


def _calls(func, name):
    return [n for n in ast.walk(func) if isinstance(n, ast.Call) and ast.unparse(n.func) == name]


def _is_ext_call(e, bare):
    return (isinstance(e, ast.Call) and ast.unparse(e.func).split('.')[-1] == 'auto_add_extension'
            and len(e.args) >= 1 and ast.unparse(e.args[0]) == bare)


def _extended(expr, func, bare):
    """True: expr is auto_add_extension(<bare>, …) (possibly through one local name); False: expr is <bare> itself"""
    if ast.unparse(expr) == bare:
        # a re-assignment `bare = auto_add_extension(bare, …)` before the use counts as extended
        if isinstance(expr, ast.Name):
            vs = assigns(func, expr.id)
            if vs:
                return all(_is_ext_call(v, bare) for v in vs) or _nf(f'{bare} re-assigned to something else')
        return False
    if isinstance(expr, ast.Name):
        vs = assigns(func, expr.id)
        if not vs: raise NotFound(f'local {expr.id} never assigned')
        if all(_is_ext_call(v, bare) for v in vs): return True
        if all(ast.unparse(v) == bare for v in vs): return False
        raise NotFound(f'local {expr.id}: unrecognised value')
    if _is_ext_call(expr, bare): return True
    raise NotFound('path expression: ' + ast.unparse(expr)[:60])


def _nf(msg):
    raise NotFound(msg)


def _arg_of(func, callee, bare, which=0):
    cs = _calls(func, callee)
    if not cs: raise NotFound(callee + ' not called')
    vals = {_extended(c.args[which], func, bare) for c in cs}
    if len(vals) != 1: raise NotFound(callee + ': calls disagree')
    return vals.pop()


# ------------------------------------------------------------------ manage.py

def a_engineExt(T):
    for n in T['manage'].body:
        if isinstance(n, ast.Assign) and ast.unparse(n.targets[0]) == '_engine_extensions' and isinstance(n.value, ast.Dict):
            kv = [(k.value, v.value) for k, v in zip(n.value.keys, n.value.values)]
            if all(isinstance(k, str) and isinstance(v, str) for k, v in kv):
                return '[' + ', '.join(f'({lean_str(k)}, {lean_str(v)})' for k, v in kv) + ']'
    raise NotFound('_engine_extensions')


def _ext_if(T):
    f = find(T['manage'], ['auto_add_extension'])
    ifs = [n for n in f.body if isinstance(n, ast.If)]
    i = one(ifs, 'if in auto_add_extension')
    if i.orelse: raise NotFound('else branch in auto_add_extension')
    r = [n for n in f.body if isinstance(n, ast.Return)]
    if len(r) != 1 or ast.unparse(r[0].value) != 'file_name': raise NotFound('return file_name')
    return i


def a_extRuleSubstring(T):
    t = _ext_if(T).test
    if not (isinstance(t, ast.UnaryOp) and isinstance(t.op, ast.Not) and isinstance(t.operand, ast.Call)
            and ast.unparse(t.operand.func) == 'any' and len(t.operand.args) == 1
            and isinstance(t.operand.args[0], ast.GeneratorExp)):
        raise NotFound('guard shape')
    g = t.operand.args[0]
    if len(g.generators) != 1 or g.generators[0].ifs or ast.unparse(g.generators[0].iter) != '_engine_extensions.values()':
        raise NotFound('guard generator')
    v = ast.unparse(g.generators[0].target)
    e = ast.unparse(g.elt)
    if e == f'{v} in file_name': return 'true'
    if e == f'file_name.endswith({v})': return 'false'
    raise NotFound('guard element ' + e)


def a_extAppendCount(T):
    i = _ext_if(T)
    ext_names = {'_engine_extensions[engine]'}
    count = 0
    for s in i.body:
        if isinstance(s, ast.Assign) and ast.unparse(s.value) == '_engine_extensions[engine]' and isinstance(s.targets[0], ast.Name):
            ext_names.add(s.targets[0].id)
        elif isinstance(s, ast.AugAssign) and isinstance(s.op, ast.Add) and ast.unparse(s.target) == 'file_name':
            count += _count_ext(s.value, ext_names)
        elif isinstance(s, ast.Assign) and ast.unparse(s.targets[0]) == 'file_name' and isinstance(s.value, ast.BinOp) \
                and isinstance(s.value.op, ast.Add) and ast.unparse(s.value.left) == 'file_name':
            count += _count_ext(s.value.right, ext_names)
        else:
            raise NotFound('statement in auto_add_extension body: ' + ast.unparse(s)[:50])
    return f'({count} : Nat)'


def _count_ext(e, names):
    if ast.unparse(e) in names: return 1
    if isinstance(e, ast.BinOp) and isinstance(e.op, ast.Add):
        return _count_ext(e.left, names) + _count_ext(e.right, names)
    raise NotFound('appended expression ' + ast.unparse(e)[:40])


def _extends_first(T, fn):
    f = find(T['manage'], [fn])
    hits = [n for n in f.body if isinstance(n, ast.Assign) and ast.unparse(n.targets[0]) == 'file_name'
            and ast.unparse(n.value) == 'auto_add_extension(file_name, engine)']
    if hits: return 'true'
    if not _calls(f, 'auto_add_extension'): return 'false'
    raise NotFound('auto_add_extension used in an unrecognised way in ' + fn)


def a_saveDsExtends(T): return _extends_first(T, 'save_ds')
def a_loadDsExtends(T): return _extends_first(T, 'load_ds')


def _attr_if(T):
    f = find(T['manage'], ['save_ds'])
    ifs = [n for n in f.body if isinstance(n, ast.If) and isinstance(n.test, ast.Compare) and len(n.test.ops) == 1
           and isinstance(n.test.ops[0], ast.NotIn) and ast.unparse(n.test.left) == 'engine'
           and any(isinstance(b, ast.For) and 'attrs' in ast.unparse(b.iter) for b in n.body)]
    return one(ifs, 'attribute coercion block')


def a_attrExempt(T):
    c = _attr_if(T).test.comparators[0]
    if not isinstance(c, (ast.Set, ast.Tuple, ast.List)): raise NotFound('exempt set')
    vals = [e.value for e in c.elts]
    if not all(isinstance(v, str) for v in vals): raise NotFound('exempt set values')
    return '[' + ', '.join(lean_str(v) for v in sorted(vals)) + ']'


def _attr_str(T, const):
    i = _attr_if(T)
    loop = one([b for b in i.body if isinstance(b, ast.For)], 'for over attrs')
    hits = [n for n in loop.body if isinstance(n, ast.If) and ast.unparse(n.test) == f'val is {const}']
    n = one(hits, f'if val is {const}')
    if len(n.body) != 1 or not isinstance(n.body[0], ast.Assign) or ast.unparse(n.body[0].targets[0]) != 'ds.attrs[attr]' \
            or not isinstance(n.body[0].value, ast.Constant) or not isinstance(n.body[0].value.value, str):
        raise NotFound('coercion assignment')
    return lean_str(n.body[0].value.value)


def a_attrNoneStr(T): return _attr_str(T, 'None')
def a_attrTrueStr(T): return _attr_str(T, 'True')
def a_attrFalseStr(T): return _attr_str(T, 'False')


def a_saveMergeExistsExtended(T):
    return _b(_arg_of(find(T['manage'], ['save_merge_ds']), 'os.path.exists', 'fname'))


def a_saveMergeLoadsWithEngine(T):
    f = find(T['manage'], ['save_merge_ds'])
    cs = _calls(f, 'load_ds')
    c = one(cs, 'load_ds call in save_merge_ds')
    if ast.unparse(c.args[0]) != 'fname': raise NotFound('load_ds argument')
    return _b(any(k.arg == 'engine' for k in c.keywords) or len(c.args) >= 2)


# ------------------------------------------------------------------ farming.py (Harvester)

def _hv(T, m): return find(T['farming'], ['Harvester', m])


def a_loadFullAccessExtended(T): return _b(_arg_of(_hv(T, 'load_full_ds'), 'os.access', 'self.data_name'))
def a_loadFullIsfileExtended(T): return _b(_arg_of(_hv(T, 'load_full_ds'), 'os.path.isfile', 'self.data_name'))
def _save_full_target(T, legacy):
    """the name whose old content save_full_ds gets rid of: since the atomic rewrite it is the target of os.replace
    (the old file is replaced, not probed and removed); before that it was the argument of os.path.exists / os.remove"""
    f = _hv(T, 'save_full_ds')
    if _calls(f, 'os.replace'):
        return _b(_arg_of(f, 'os.replace', 'self.data_name', which=1))
    return _b(_arg_of(f, legacy, 'self.data_name'))


def a_saveFullExistsExtended(T): return _save_full_target(T, 'os.path.exists')
def a_saveFullRemoveExtended(T): return _save_full_target(T, 'os.remove')
def a_deleteRemoveExtended(T): return _b(_arg_of(_hv(T, 'delete_ds'), 'os.remove', 'self.data_name'))


def _merge_kind(v, old, new, alias=None):
    alias = alias or {}

    def un(e):
        t = ast.unparse(e)
        return alias.get(t, t)
    if isinstance(v, ast.Call) and isinstance(v.func, ast.Attribute):
        recv = un(v.func.value)
        if v.func.attr == 'combine_first' and len(v.args) == 1 and not v.keywords:
            arg = un(v.args[0])
            if (recv, arg) == (new, old): return 'MergeKind.newFirst'
            if (recv, arg) == (old, new): return 'MergeKind.oldFirst'
        if v.func.attr == 'merge' and recv == old and len(v.args) == 1 and un(v.args[0]) == new:
            kw = {k.arg: ast.unparse(k.value) for k in v.keywords}
            if kw in ({'compat': "'no_conflicts'"}, {}): return 'MergeKind.noConflicts'
        if v.func.attr == 'merge' and recv == 'xr' and len(v.args) == 1 and ast.unparse(v.args[0]) in (f'[{old}, {new}]', f'({old}, {new})'):
            kw = {k.arg: ast.unparse(k.value) for k in v.keywords}
            if kw in ({'compat': "'no_conflicts'"}, {}): return 'MergeKind.noConflicts'
    # an expression this extractor does not understand says nothing about the code: fall back (the correspondence judges)
    raise NotFound('merge expression not recognised: ' + ast.unparse(v)[:80])


def _dispatch(func, target, old, new, which):
    """the value assigned to `target` in the branch of the `overwrite is True / is False / else` chain"""
    top = [n for n in ast.walk(func) if isinstance(n, ast.If) and ast.unparse(n.test) == 'overwrite is True']
    i = one(top, 'if overwrite is True')
    if len(i.orelse) != 1 or not isinstance(i.orelse[0], ast.If) or ast.unparse(i.orelse[0].test) != 'overwrite is False':
        raise NotFound('elif overwrite is False')
    j = i.orelse[0]
    body = {'true': i.body, 'false': j.body, 'none': j.orelse}[which]
    if len(body) != 1 or not isinstance(body[0], ast.Assign) or ast.unparse(body[0].targets[0]) != target:
        raise NotFound(f'branch {which}: not a single assignment to {target}')
    # local names that merely stand for `old` / `new` (assigned once, e.g. `old_full_ds = self._full_ds`)
    alias = {}
    for n in ast.walk(func):
        if isinstance(n, ast.Assign) and len(n.targets) == 1 and isinstance(n.targets[0], ast.Name) and ast.unparse(n.value) in (old, new):
            if len(assigns(func, n.targets[0].id)) == 1:
                alias[n.targets[0].id] = ast.unparse(n.value)
    return _merge_kind(body[0].value, old, new, alias)


def _add(which): return lambda T: _dispatch(_hv(T, 'add_ds'), 'new_full_ds', 'self._full_ds', 'new_ds', which)
def _sm(which): return lambda T: _dispatch(find(T['manage'], ['save_merge_ds']), 'new_ds', 'old_ds', 'ds', which)


ANCHORS = [
    ('engineExt', ': List (String × String)', a_engineExt),
    ('extRuleSubstring', ': Bool', a_extRuleSubstring),
    ('extAppendCount', ': Nat', a_extAppendCount),
    ('saveDsExtends', ': Bool', a_saveDsExtends),
    ('loadDsExtends', ': Bool', a_loadDsExtends),
    ('attrExempt', ': List String', a_attrExempt),
    ('attrNoneStr', ': String', a_attrNoneStr),
    ('attrTrueStr', ': String', a_attrTrueStr),
    ('attrFalseStr', ': String', a_attrFalseStr),
    ('loadFullAccessExtended', ': Bool', a_loadFullAccessExtended),
    ('loadFullIsfileExtended', ': Bool', a_loadFullIsfileExtended),
    ('saveFullExistsExtended', ': Bool', a_saveFullExistsExtended),
    ('saveFullRemoveExtended', ': Bool', a_saveFullRemoveExtended),
    ('deleteRemoveExtended', ': Bool', a_deleteRemoveExtended),
    ('saveMergeExistsExtended', ': Bool', a_saveMergeExistsExtended),
    ('saveMergeLoadsWithEngine', ': Bool', a_saveMergeLoadsWithEngine),
    ('addDsTrue', ': MergeKind', _add('true')),
    ('addDsFalse', ': MergeKind', _add('false')),
    ('addDsNone', ': MergeKind', _add('none')),
    ('saveMergeTrue', ': MergeKind', _sm('true')),
    ('saveMergeFalse', ': MergeKind', _sm('false')),
    ('saveMergeNone', ': MergeKind', _sm('none')),
]
