"""Common check flow (DESIGN.md §3.1): extract → build → audit → corpus/boundary/random correspondence →
oracle → known findings → decide → evidence."""
import os, sys, json, time, random, hashlib, importlib, traceback, collections
import leanio

HERE = os.path.dirname(os.path.abspath(__file__))
VERIF = os.path.dirname(HERE)
EVID = os.path.join(VERIF, 'evidence')
REPLAYS = os.path.join(VERIF, 'replays')
FINDINGS = os.path.join(VERIF, 'known_findings.json')

BASE_TRUSTED = [
    "Lean 4.33.0 kernel; axioms limited to propext, Classical.choice, Quot.sound (audited by #print axioms each run); no sorry/admit/native_decide/bv_decide (source grep each run)",
    "harness/extract.py + pyexpr2lean.py + pyfn2lean.py + pysk2lean.py: the extracted Python expressions, statement lists (function bodies) and effect skeletons mean in Lean (Int/Bool/Rat/Option/List, Except PyErr) what they mean in Python on the modelled domain; for skeletons, that the declared effect statements are the ones that matter",
    "correspondence harness: generators, canonicalisers, recording functions and the independent oracle; behaviour outside the generated distribution is not observed",
    "Python, itertools, pickle, random.shuffle (a permutation determined by seed and length), numpy/xarray/pandas primitives: modelled, sampled, not verified",
]


def jdump(x):
    return json.dumps(x, sort_keys=True, separators=(',', ':'), default=str)


def load_findings(prop):
    try:
        allf = json.load(open(FINDINGS))
    except OSError:
        return []
    return [f for f in allf.get('findings', []) if f.get('property') == prop]


class Ctx:
    def __init__(self, prop, tier, seed):
        self.prop, self.tier, self.seed = prop, tier, seed
        self.rng = random.Random(seed)
        self.t0 = time.time()
        self.hist = collections.defaultdict(collections.Counter)
        self.notes = []

    def count(self, hist, key):
        self.hist[hist][str(key)] += 1


def write_replay(prop, seed, payload):
    os.makedirs(REPLAYS, exist_ok=True)
    h = hashlib.sha1(jdump(payload).encode()).hexdigest()[:10]
    path = os.path.join(REPLAYS, f'{prop}-{seed}-{h}.json')
    with open(path, 'w') as f:
        json.dump(payload, f, indent=1, sort_keys=True, default=str)
    return path


def evaluate(mod, ctx, cases):
    """run real + model + oracle on a list of cases; returns list of records"""
    recs = []
    reals = mod.run_real_many(cases, ctx) if hasattr(mod, 'run_real_many') else None
    for i, c in enumerate(cases):
        if reals is not None:
            obs = reals[i]
        else:
            try:
                obs = mod.run_real(c, ctx)
            except Exception as e:  # harness-level failure of the real run is an observation too
                obs = {'harness_exc': f'{type(e).__name__}: {e}', 'tb': traceback.format_exc()[-1500:]}
        recs.append({'case': c, 'real': obs})
    reqs, idx = [], []
    for i, r in enumerate(recs):
        rq = mod.model_request(r['case'], r['real']) if hasattr(mod, 'model_request') else None
        if rq is not None:
            reqs.append(rq); idx.append(i)
    if reqs:
        replies = leanio.drive(reqs)
        for i, rep in zip(idx, replies):
            recs[i]['model'] = rep
    for r in recs:
        r['diff'] = None
        if 'model' in r:
            try:
                r['diff'] = mod.compare(r['case'], r['real'], r['model'])
            except Exception as e:
                r['diff'] = f'compare raised {type(e).__name__}: {e}'
        try:
            r['oracle'] = mod.oracle(r['case'], r['real'])
        except Exception as e:
            r['oracle'] = f'oracle raised {type(e).__name__}: {e}'
        r['fkey'] = mod.finding_key(r['case'], r['real']) if (r['diff'] or r['oracle']) and hasattr(mod, 'finding_key') else None
    return recs


def main(prop, tier='quick', seed=0, replay=None):
    if os.environ.get('XYZV_APICOV'):          # development aid, see harness/apicov.py
        import apicov
        apicov.install()
        try:
            return _main(prop, tier, seed, replay)
        finally:
            apicov.dump()
    return _main(prop, tier, seed, replay)


def _main(prop, tier='quick', seed=0, replay=None):
    t0 = time.time()
    mod = importlib.import_module('props.' + prop.lower())
    ctx = Ctx(prop, tier, seed)
    os.makedirs(EVID, exist_ok=True)

    if replay:
        payload = json.load(open(replay))
        if hasattr(mod, 'setup'): mod.setup(ctx)
        try:
            recs = evaluate(mod, ctx, [payload['case']]) if payload.get('case') is not None else []
        finally:
            if hasattr(mod, 'teardown'): mod.teardown(ctx)
        for r in recs:
            print(json.dumps({'real': r['real'], 'model': r.get('model'), 'diff': r['diff'], 'oracle': r['oracle']}, default=str)[:4000])
            if r['oracle'] or r['diff']:
                print(f'VIOLATION property={prop} replay={replay}')
                return 1
        print('replay: no failure reproduced')
        return 0

    # 1-3 extract, build, audit
    b = leanio.extract_and_build(mod.LEAN_MODULES)
    extraction = {k: v['status'] for k, v in b['extraction'].items() if k in getattr(mod, 'ANCHORS', [])}
    forbidden = leanio.source_audit()
    audit = leanio.axiom_audit(prop, mod.LEAN_MODULES, mod.THEOREMS) if b['proofs_ok'] else \
        {t: {'ok': False, 'axioms': None, 'why': 'module did not build'} for t in mod.THEOREMS}
    if not b['proofs_ok'] and b['model_ok']:
        # find which registered theorems still check: audit against whatever did build is impossible for a failed
        # module, so name the failing declarations from the build log instead
        broken = sorted({leanio.decl_at(f, ln) or f for f, ln, _ in b['failing']})
    else:
        broken = [t for t, v in audit.items() if not v['ok']]
    discharged = sum(1 for v in audit.values() if v['ok'])
    proof_ok = b['model_ok'] and b['proofs_ok'] and discharged == len(mod.THEOREMS) and not forbidden
    if tier == 'thorough' and b['proofs_ok']:
        ok, msg = leanio.leanchecker(mod.LEAN_MODULES)
        ctx.notes.append(f'leanchecker on {mod.LEAN_MODULES}: ' + ('accepted' if ok else f'NOT accepted: {msg}'))
        if ok is False:
            proof_ok = False; broken = broken + ['leanchecker rejected ' + ' '.join(mod.LEAN_MODULES)]

    if not b['model_ok']:
        print('INFRA: the model library does not build:\n' + b['log'][-3000:])
        write_evidence(mod, ctx, t0, [], audit, extraction, forbidden, 0, broken, note='model build failed')
        return 2

    # hand-modelled functions whose source differs from what the model was validated against: not a verdict, but the
    # correspondence is all that ties them, so it is run on further input streams
    import modelled
    ctx.modelled = modelled.status(os.environ.get('XYZ_REPO', '/repo'), prop)
    changed = sorted(k for k, v in ctx.modelled.items() if v != 'unchanged')
    if changed:
        ctx.notes.append('hand-modelled functions changed since the model was validated: ' + ', '.join(changed)[:600])

    # 4-6 correspondence + oracle
    if hasattr(mod, 'setup'): mod.setup(ctx)
    try:
        corpus = load_corpus(prop)
        cases = corpus + list(mod.cases(ctx))
        if changed and not getattr(mod, 'EXHAUSTIVE', {}).get(tier, False):
            for extra in (1, 2):
                ctx.rng = random.Random(seed * 1000003 + extra)
                cases += list(mod.cases(ctx))
            ctx.notes.append('correspondence run on 3 input streams instead of 1')
        recs = evaluate(mod, ctx, cases)
        hx = [r for r in recs if isinstance(r['real'], dict) and 'harness_exc' in r['real']]
        tree_diff = modelled.tree_changed(os.environ.get('XYZ_REPO', '/repo'))
        if hx and tree_diff:
            # The harness could not even observe the library on these cases, and the library's code is not the code the
            # harness was validated against: that is a correspondence that no longer checks, not an infrastructure
            # problem.  The cases count as disagreements (a concrete failing input is then searched for as usual).
            ctx.notes.append('library modules changed since the harness was validated: ' + ', '.join(tree_diff)[:300])
            for r in hx:
                r['diff'] = 'the harness could not observe the changed library on this case: ' + r['real']['harness_exc']
                r['oracle'] = None
                r['real'] = {'unobservable': r['real']['harness_exc']}
            hx = []
        if hx:
            print('INFRA: the harness itself failed on a case (not a verdict):', hx[0]['real']['harness_exc'])
            print(hx[0]['real'].get('tb', ''))
            print(json.dumps(hx[0]['case'], default=str)[:1000])
            write_evidence(mod, ctx, t0, recs, audit, extraction, forbidden, 0, broken, note='harness failure')
            return 2
        findings = load_findings(prop)
        known = {f['key']: f for f in findings if f.get('status') == 'known'}
        # 7 known findings: replay witnesses
        for k, f in known.items():
            wr = evaluate(mod, ctx, [f['witness']])[0] if f.get('witness') is not None else None
            if wr is None or wr['oracle'] or wr['diff']:
                print(f"KNOWN-FINDING: property={prop} {f['what']}")
            else:
                ctx.notes.append(f'known finding {k} no longer reproduces')
        bad_oracle = [r for r in recs if r['oracle'] and r['fkey'] not in known]
        bad_diff = [r for r in recs if r['diff'] and not r['oracle'] and r['fkey'] not in known]
        masked = sum(1 for r in recs if (r['oracle'] or r['diff']) and r['fkey'] in known)
        rc = 0
        violations = 0
        if bad_oracle:
            r = shrink(mod, ctx, bad_oracle[0])
            path = write_replay(prop, seed, {'property': prop, 'seed': seed, 'tier': tier, 'case': r['case'],
                                             'real': r['real'], 'model': r.get('model'), 'oracle': r['oracle'],
                                             'diff': r['diff'], 'broken_theorems': broken})
            print(f'VIOLATION property={prop} replay={path}')
            print('  oracle:', str(r['oracle'])[:500])
            rc, violations = 1, len(bad_oracle)
        elif (not proof_ok) or bad_diff:
            # something no longer checks: search harder for a concrete failing input on the real code
            why = []
            if not proof_ok:
                why.append('proof obligations no longer check: ' + ', '.join(map(str, broken or forbidden))[:600])
            if bad_diff:
                why.append(f'{len(bad_diff)} model/implementation disagreements, first: ' + str(bad_diff[0]['diff'])[:400])
            found = None
            if hasattr(mod, 'search_cases'):
                extra = list(mod.search_cases(ctx))
                for r in evaluate(mod, ctx, extra):
                    if r['oracle'] and r['fkey'] not in known:
                        found = shrink(mod, ctx, r); break
            payload = {'property': prop, 'seed': seed, 'tier': tier, 'why': why, 'broken_theorems': broken,
                       'build_errors': b['failing'][:10], 'forbidden': forbidden}
            if found:
                payload.update(case=found['case'], real=found['real'], model=found.get('model'), oracle=found['oracle'])
                path = write_replay(prop, seed, payload)
                print(f'VIOLATION property={prop} replay={path}')
            else:
                first = bad_diff[0] if bad_diff else None
                payload.update(case=first['case'] if first else None, real=first['real'] if first else None,
                               model=first.get('model') if first else None, oracle=None,
                               no_longer_checks=broken or ['correspondence:' + prop])
                path = write_replay(prop, seed, payload)
                print(f'VIOLATION property={prop} replay={path} no-failing-input-found')
            for w in why: print('  ' + w)
            rc, violations = 1, max(1, len(bad_diff))
    finally:
        if hasattr(mod, 'teardown'): mod.teardown(ctx)
    write_evidence(mod, ctx, t0, recs, audit, extraction, forbidden, violations, broken, masked=masked)
    return rc


def shrink(mod, ctx, rec):
    if not hasattr(mod, 'shrink_candidates'):
        return rec
    cur = rec
    for _ in range(40):
        for cand in mod.shrink_candidates(cur['case']):
            r = evaluate(mod, ctx, [cand])[0]
            if r['oracle']:
                cur = r
                break
        else:
            break
    return cur


def load_corpus(prop):
    d = os.path.join(HERE, 'corpus', prop)
    out = []
    if os.path.isdir(d):
        for fn in sorted(os.listdir(d)):
            if fn.endswith('.json'):
                out.append(json.load(open(os.path.join(d, fn)))['case'])
    return out


def write_evidence(mod, ctx, t0, recs, audit, extraction, forbidden, violations, broken, masked=0, note=None):
    seen, nontrivial = set(), 0
    for r in recs:
        k = hashlib.sha1(jdump(r['case']).encode()).hexdigest()
        if k in seen: continue
        seen.add(k)
        try:
            if mod.nontrivial(r['case']): nontrivial += 1
        except Exception:
            pass
    samples = []
    step = max(1, len(recs) // 4)
    for r in recs[::step][:5]:
        samples.append({'case': r['case'], 'real': r['real'], 'model': r.get('model')})
    samples = json.loads(json.dumps(samples, default=str))
    for s in samples:  # keep evidence files small
        for k in list(s):
            if len(jdump(s[k])) > 3000: s[k] = jdump(s[k])[:3000] + '…'
    ev = {
        'property_id': ctx.prop, 'tier': ctx.tier, 'seed': ctx.seed, 'level': 'proof',
        'coverage': {
            'obligations': len(mod.THEOREMS),
            'discharged': sum(1 for v in audit.values() if v['ok']),
            'checker_cmd': 'cd lean && lake build ' + ' '.join(mod.LEAN_MODULES) + '  &&  #print axioms on every listed theorem (harness/leanio.py axiom_audit)',
            'trusted_base': BASE_TRUSTED + list(getattr(mod, 'TRUSTED', [])),
            'theorems': {t: (v['axioms'] if v['ok'] else 'NOT DISCHARGED') for t, v in audit.items()},
            'not_proved_in_full': getattr(mod, 'PARTIAL', {}),
            'broken': broken, 'forbidden_constructs': forbidden,
            'extraction': extraction,
            'modelled_by_hand': getattr(ctx, 'modelled', {}),
            'evaluations': len(recs),
            'distinct_nontrivial': nontrivial,
            'rule': mod.RULE,
            'samples': samples,
            'exhaustive': bool(getattr(mod, 'EXHAUSTIVE', {}).get(ctx.tier, False)),
            'histograms': {k: dict(v) for k, v in ctx.hist.items()},
            'model_impl_disagreements': sum(1 for r in recs if r.get('diff')),
            'oracle_failures': sum(1 for r in recs if r.get('oracle')),
            'masked_by_known_findings': masked,
            'notes': ctx.notes + ([note] if note else []),
        },
        'assumptions': list(getattr(mod, 'ASSUMPTIONS', [])),
        'wall_s': round(time.time() - t0, 2),
        'violations': violations,
    }
    tmp = os.path.join(EVID, f'.{ctx.prop}.{os.getpid()}.tmp')
    with open(tmp, 'w') as f:
        json.dump(ev, f, indent=1, sort_keys=True, default=str)
    os.replace(tmp, os.path.join(EVID, f'{ctx.prop}.json'))
