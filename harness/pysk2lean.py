"""Effect skeletons: translate a method body to the ORDER OF ITS EFFECTS (DESIGN.md §3, "effect skeletons").

Built on pyfn2lean (same statement sub-language, same typing of names).  A skeleton is a Lean function

    sk (fails : Eff → Bool) <options…> (trace : List Eff) : List Eff × Option PyErr

that returns the effects performed, in order, and how the body ended (`none` = returned normally).  `fails e` says
whether effect `e` raises when it is attempted; an effect that raises is still recorded (it was attempted) and ends the
body.  Which statements are effects is declared per function (`handlers`: predicate on a statement → list of steps):

    ('eff', '.checkReady', cond)        attempt the effect (only when the Lean Bool `cond` holds; None = always)
    ('let', key, term, type)            bind a name
    ('call', '<Gen.otherSk …>')         run another skeleton on the current trace; its failure ends this body too
    ('pure', term, [(key, name, ty)…])  a translated pure function `Except PyErr (…)`; bind the components of its value

`with X(...) as y: body` is `enter` steps, the body, `exit` steps (declared for the context expression).  Everything else
(if/else, assignments to declared names, raise, return) is pyfn2lean's.  A statement that is neither declared nor in
the sub-language raises Untranslatable (the anchor falls back).
"""
import ast
from pyexpr2lean import Untranslatable
from pyfn2lean import FnTr, Spec, is_none


class SkSpec(Spec):
    def __init__(self, file, path, env, handlers=(), withs=(), **kw):
        env = dict(env)
        env['$trace'] = ('trace', 'trace')
        super().__init__(file, path, env, **kw)
        self.handlers = list(handlers)      # [(pred(stmt) -> bool, fn(stmt, tr, env) -> steps)]
        self.withs = list(withs)            # [(pred(withitem expr) -> bool, enter_steps_fn, exit_steps_fn)]


class SkTr(FnTr):
    def ok(self, env, ret=None):
        return f'({env["$trace"][0]}, none)'

    def err(self, env, code):
        return f'({env["$trace"][0]}, some {code})'

    def fall_off(self, env):
        return self.ok(env)

    # ---------------------------------------------------------------- steps
    def steps(self, steps, rest_fn, env, ind):
        """emit the steps, then rest_fn(env, ind)"""
        if not steps:
            return rest_fn(env, ind)
        st, more = steps[0], steps[1:]
        kind = st[0]
        if kind == 'eff':
            _, name, cond = st
            tr = env['$trace'][0]
            if cond is None:
                head = (f'{ind}let {tr} := {tr} ++ [{name}]\n'
                        f'{ind}if fails {name} then ({tr}, some .other) else\n')
            else:
                head = (f'{ind}let {tr} := if {cond} then {tr} ++ [{name}] else {tr}\n'
                        f'{ind}if {cond} && fails {name} then ({tr}, some .other) else\n')
            return head + self.steps(more, rest_fn, env, ind)
        if kind == 'let':
            _, key, term, ty = st
            e2, ln = self.assign(env, key, term, ty)
            return f'{ind}{ln}\n' + self.steps(more, rest_fn, e2, ind)
        if kind == 'call':
            tr = env['$trace'][0]
            body = self.steps(more, rest_fn, env, ind + '  ')
            return f'{ind}(skBind ({st[1]}) fun {tr} =>\n{body})'
        if kind == 'pure':
            _, term, binds = st
            e2 = dict(env)
            names = []
            for key, name, ty in binds:
                e2[key] = (name, ty); names.append(name)
            pat = names[0] if len(names) == 1 else '(' + ', '.join(names) + ')'
            body = self.steps(more, rest_fn, e2, ind + '  ')
            return (f'{ind}(match {term} with\n'
                    f'{ind}| .error e => ({env["$trace"][0]}, some e)\n'
                    f'{ind}| .ok {pat} =>\n{body})')
        raise Untranslatable('unknown step ' + str(kind))

    # ---------------------------------------------------------------- statements
    def block(self, stmts, env, ind):
        if stmts:
            s, rest = stmts[0], stmts[1:]
            for pred, handler in self.spec.handlers:
                if pred(s):
                    st = handler(s, self.tr(env), env)
                    return self.steps(st, lambda e, i: self.block(rest, e, i), env, ind)
            if isinstance(s, ast.With) and len(s.items) == 1:
                ce = s.items[0].context_expr
                for pred, enter, exit_ in self.spec.withs:
                    if pred(ce):
                        def after_body(e, i):
                            return self.steps(exit_(s, self.tr(e), e), lambda e2, i2: self.block(rest, e2, i2), e, i)
                        # the body must fall through (no return inside) for the exit steps to follow it
                        if any(isinstance(n, ast.Return) for b in s.body for n in ast.walk(b)):
                            raise Untranslatable('return inside a with block')
                        body = list(s.body)
                        return self.steps(enter(s, self.tr(env), env),
                                          lambda e, i: self.block_then(body, after_body, e, i), env, ind)
                raise Untranslatable('with ' + ast.unparse(ce)[:60])
            if isinstance(s, ast.Return) and s.value is not None and not is_none(s.value):
                return ind + self.ok(env)            # the value itself is not part of the skeleton
        return super().block(stmts, env, ind)

    def block_then(self, stmts, then, env, ind):
        """a nested block followed by `then` (used for with-bodies): implemented by appending a marker statement"""
        marker = ast.Pass()
        marker._sk_then = then
        return self.block(list(stmts) + [marker], env, ind)


# Pass statements carrying a continuation
_orig_block = SkTr.block


def _block(self, stmts, env, ind):
    if stmts and isinstance(stmts[0], ast.Pass) and hasattr(stmts[0], '_sk_then'):
        then = stmts[0]._sk_then
        rest = stmts[1:]
        if rest:
            raise Untranslatable('statements after a continuation marker')
        return then(env, ind)
    return _orig_block(self, stmts, env, ind)


SkTr.block = _block


def translate_sk(spec, trees, find):
    f = find(trees[spec.file], spec.path)
    tr = SkTr(spec, trees, find)
    return '\n' + tr.block(list(f.body), dict(spec.env), '  ')
