"""Data preparation of the classic plots (C17) translated from the source on every run, over the ABSTRACT dataset / array
operations `o : Gen.PlotOps D A F M C Z` (lean/XyzModel/Gen/DefaultPlotSrc.lean):

    plZVals        Plotter.prepare_z_vals            which case gives the z values, the values IN ORDER, the multi_var flag
    plZLabels      Plotter.prepare_z_labels          the label iterator: given labels / str(z) per z value / repeat(None)
    plLegend       Plotter.calc_use_legend_or_colorbar   the whole body (legend / colorbar after the two adjustments, the results)
    plGenXY        prepare_xy_vals_lineplot.gen_xy   the generator: the loop over enumerate(_z_vals), per z the selected
                                                     sub-dataset (positional, `.loc` on ValueError / ds[z] / the dataset), the
                                                     arrays taken, broadcast + flatten, the mask, what is yielded, _c_cols
    plGenX         prepare_x_vals_histogram.gen_x    the histogram generator
    plColorNorm    Plotter.calc_color_norm           the limits handed to the normalisation (zlims / finite data range / caller's vmin, vmax)
    plRowCol       calc_row_col_datasets             the grid of `.loc` selectors, row by row, and its shape
    plLoopNexts    LinePlot.plot_lines / Scatter.plot_scatter / Histogram.plot_histogram: the iterators advanced by `next(..)`
                                                     once per yielded series (unconditionally / conditionally)

One statement translator (`PlTr`) producing `do` blocks in `Except PErr`:  x = e, d[k] = e, m &= e, self._c_cols.append(e),
yield e, if / elif / else (a JOIN over the variables either branch assigns; a test `A is None` / `isinstance(A, (tuple, list))`
on a dynamically typed attribute becomes a `match` that narrows its type in the branches; a branch holding `continue` is
translated by continuation instead), try / except C (one statement in the body), raise C(..), continue, the inner
`for k, da in zip(..): d[k] = e`, pass / docstrings; `check_excess_dims(..)` (validation only) is dropped, the jitter options
are taken as off (`self.xjitter`, `self.yjitter` false: ASSUMPTION of C17).  Anything else raises `Untranslatable` / `NotFound`
and the anchor falls back to `Gen.Default.<name>`.
"""
import ast
from pyexpr2lean import Untranslatable, lean_str, translate


class NotFound(ValueError):
    pass


FILES = {'core': 'xyzpy/plot/core.py', 'plotter_mpl': 'xyzpy/plot/plotter_matplotlib.py'}
ERRS = {'ValueError': 'PErr.valueError', 'KeyError': 'PErr.keyError', 'StopIteration': 'PErr.stopIteration'}
KEYWORDS = {'at', 'from', 'to', 'do', 'then', 'else', 'if', 'fun', 'let', 'in', 'match', 'with', 'end', 'show', 'have', 'by', 'open',
            'where', 'for', 'return', 'instance', 'structure', 'class', 'def', 'theorem', 'o', 'pure', 'some', 'none'}
LEAN_TY = {'D': 'D', 'A': 'A', 'F': 'F', 'M': 'M', 'C': 'C', 'PZ': 'PZ Z', 'nat': 'Nat', 'str': 'String', 'bool': 'Bool',
           'optstr': 'Option String', 'dictA': 'List (String × A)', 'dictF': 'List (String × F)', 'listA': 'List A',
           'listPZ': 'List (PZ Z)', 'liststr': 'List String', 'labels': 'PLabels', 'listC': 'List C',
           'listdictF': 'List (List (String × F))', 'namearg': 'NameArg', 'optliststr': 'Option (List String)'}


def _u(e): return ast.unparse(e)
def _is_doc(st): return isinstance(st, ast.Expr) and isinstance(st.value, ast.Constant)


def find(node, path):
    for name in path:
        for n in ast.walk(node):
            if isinstance(n, (ast.FunctionDef, ast.ClassDef)) and n.name == name and n is not node:
                node = n
                break
        else:
            raise NotFound('/'.join(path))
    return node


def lname(name):
    parts = [p for p in name.strip('_').split('_') if p]
    r = parts[0] + ''.join(p.capitalize() for p in parts[1:])
    return r + "'" if r in KEYWORDS else r


class PlTr:
    DROPPED_CALLS = ('check_excess_dims',)

    def __init__(self, statics=(), dict_types=None, zvals_mode=False):
        self.n = 0
        self.statics = dict(statics)          # unparse text -> assumed truth value
        self.dict_types = dict_types or {}    # python name of a dict variable -> its type
        self.zvals_mode = zvals_mode          # `ds[name].values` = the coordinate values as z values
        self.nodes = 0

    def tick(self):
        self.n += 1
        return self.n

    def fresh(self, stem):
        return f'{stem}_{self.tick()}'

    # ------------------------------------------------------------------------------------------------ expressions
    def key_of(self, e):
        if isinstance(e, ast.Name): return e.id
        if isinstance(e, ast.Attribute) and isinstance(e.value, ast.Name) and e.value.id == 'self': return 'self.' + e.attr
        return None

    def expr(self, e, env, B):
        """(term, type); operations that can raise are bound through B: [(variable, term)]"""
        k = self.key_of(e)
        if k is not None:
            if k in env: return env[k][0], env[k][1]
            raise Untranslatable('unknown name ' + k)
        if isinstance(e, ast.Constant):
            if isinstance(e.value, bool): return ('true' if e.value else 'false'), 'bool'
            if isinstance(e.value, str): return lean_str(e.value), 'str'
            raise Untranslatable('constant ' + repr(e.value))
        if isinstance(e, ast.Tuple) or isinstance(e, ast.List):
            if e.elts and all(isinstance(x, ast.Constant) and x.value is None for x in e.elts):
                return '[' + ', '.join('PZ.none' for _ in e.elts) + ']', 'listPZ'
            raise Untranslatable('sequence literal ' + _u(e)[:60])
        if isinstance(e, ast.Dict):
            if not e.keys: raise Untranslatable('empty dict literal outside an assignment')
            items = []
            tys = set()
            for kk, vv in zip(e.keys, e.values):
                if not (isinstance(kk, ast.Constant) and isinstance(kk.value, str)): raise Untranslatable('dict key')
                t, ty = self.expr(vv, env, B); tys.add(ty); items.append(f'({lean_str(kk.value)}, {t})')
            if tys == {'F'}: return '[' + ', '.join(items) + ']', 'dictF'
            raise Untranslatable('dict literal of ' + str(tys))
        if isinstance(e, ast.Subscript):
            return self.subscript(e, env, B)
        if isinstance(e, ast.Attribute):
            if e.attr == 'values':
                if self.zvals_mode and isinstance(e.value, ast.Subscript):
                    d, dt = self.expr(e.value.value, env, B); s, st = self.expr(e.value.slice, env, B)
                    if dt == 'D' and st == 'str': return f'((o.coordValues {d} {s}).map PZ.coord)', 'listPZ'
                a, at = self.expr(e.value, env, B)
                if at == 'A': return a, 'Avalues'
            raise Untranslatable('attribute ' + _u(e)[:60])
        if isinstance(e, ast.BinOp) and isinstance(e.op, ast.BitAnd):
            a, at = self.expr(e.left, env, B); b, bt = self.expr(e.right, env, B)
            if at == bt == 'M': return f'(o.mand {a} {b})', 'M'
            raise Untranslatable('& of ' + at + ', ' + bt)
        if isinstance(e, ast.Call):
            return self.call(e, env, B)
        if isinstance(e, (ast.Compare, ast.BoolOp)) or (isinstance(e, ast.UnaryOp) and isinstance(e.op, ast.Not)):
            return self.test(e, env, B), 'bool'
        raise Untranslatable('expression ' + _u(e)[:80])

    def subscript(self, e, env, B):
        # ds.loc[{k: z}]
        if isinstance(e.value, ast.Attribute) and e.value.attr == 'loc':
            d, dt = self.expr(e.value.value, env, B)
            if dt == 'D' and isinstance(e.slice, ast.Dict) and len(e.slice.keys) == 1 and e.slice.keys[0] is not None:
                kt = self.optstr(e.slice.keys[0], env, B); v, vt = self.expr(e.slice.values[0], env, B)
                if vt == 'PZ': return f'(o.locSel {d} {kt} {v})', 'D'
            raise Untranslatable('.loc[' + _u(e.slice)[:60] + ']')
        v, vt = self.expr(e.value, env, B)
        s = e.slice
        if isinstance(s, ast.Slice):
            if s.lower is None and s.upper is None and s.step is not None and _u(s.step) == '-1' and vt in ('listPZ', 'liststr'):
                return f'({v}.reverse)', vt
            raise Untranslatable('slice ' + _u(e)[:60])
        if vt == 'D':
            if isinstance(s, ast.Dict):
                if len(s.keys) != 1 or s.keys[0] is None: raise Untranslatable('indexer ' + _u(s)[:60])
                kt = self.optstr(s.keys[0], env, B); i, it = self.expr(s.values[0], env, B)
                if it != 'nat': raise Untranslatable('positional index of type ' + it)
                x = self.fresh('x'); B.append((x, f'o.isel {v} {kt} {i}')); return x, 'D'
            k, kt = self.expr(s, env, B)
            if kt == 'str': return f'(o.getVar {v} {k})', 'A'
            if kt == 'PZ': return f'(o.getVar {v} (PZ.key o.str {k}))', 'A'
            raise Untranslatable('ds[<' + kt + '>]')
        if vt in ('dictA', 'dictF'):
            k, kt = self.expr(s, env, B)
            if kt != 'str': raise Untranslatable('dict key of type ' + kt)
            x = self.fresh('x'); B.append((x, f'plGet {v} {k}')); return x, vt[4:]
        if vt == 'F':
            m, mt = self.expr(s, env, B)
            if mt == 'M': return f'(o.select {v} {m})', 'F'
        raise Untranslatable('subscript ' + _u(e)[:60])

    def optstr(self, e, env, B):
        t, ty = self.expr(e, env, B)
        if ty == 'optstr': return t
        if ty == 'str': return f'(some {t})'
        raise Untranslatable('indexer key of type ' + ty)

    def call(self, e, env, B):
        fn = _u(e.func)
        plain = not e.keywords and not any(isinstance(a, ast.Starred) for a in e.args)
        if fn in ('np.isfinite', 'numpy.isfinite') and plain and len(e.args) == 1:
            a, at = self.expr(e.args[0], env, B)
            if at == 'F': return f'(o.isFinite {a})', 'M'
            raise Untranslatable('isfinite of ' + at)
        if fn in ('xr.broadcast', 'xarray.broadcast') and not e.keywords and len(e.args) == 1 and isinstance(e.args[0], ast.Starred):
            inner = e.args[0].value
            if isinstance(inner, ast.Call) and isinstance(inner.func, ast.Attribute) and inner.func.attr == 'values' and not inner.args:
                d, dt = self.expr(inner.func.value, env, B)
                if dt == 'dictA': return f'(o.broadcast ({d}.map Prod.snd))', 'listA'
            raise Untranslatable('broadcast of ' + _u(inner)[:60])
        if fn in ('reversed', 'list', 'tuple') and plain and len(e.args) == 1:
            a, at = self.expr(e.args[0], env, B)
            if at in ('listPZ', 'liststr'): return (f'({a}.reverse)' if fn == 'reversed' else a), at
            raise Untranslatable(fn + ' of ' + at)
        if fn == 'iter' and plain and len(e.args) == 1:
            a = e.args[0]
            if isinstance(a, ast.GeneratorExp): return self.label_gen(a, env, B)
            t, ty = self.expr(a, env, B)
            if ty == 'liststr': return f'(PLabels.finite ({t}.map some))', 'labels'
            raise Untranslatable('iter of ' + ty)
        if fn == 'itertools.repeat' and plain and len(e.args) == 1 and isinstance(e.args[0], ast.Constant) and e.args[0].value is None:
            return 'PLabels.repeatNone', 'labels'
        if fn in ('np.any', 'np.all') and plain and len(e.args) == 1:
            a, at = self.expr(e.args[0], env, B)
            if at == 'M': return f'(o.{fn[3:]}M {a})', 'bool'
        if fn == 'len' and plain and len(e.args) == 1:
            raise Untranslatable('len')
        if isinstance(e.func, ast.Attribute) and plain and not e.args:
            m = e.func.attr
            r, rt = self.expr(e.func.value, env, B)
            if m == 'flatten' and rt == 'Avalues': return f'(o.flatten {r})', 'F'
            if m in ('flatten', 'ravel') and rt == 'F': return r, 'F'
            if m == 'item' and rt == 'F': return f'(o.item {r})', 'C'
            if m in ('any', 'all') and rt == 'M': return f'(o.{m}M {r})', 'bool'
        raise Untranslatable('call ' + _u(e)[:80])

    def label_gen(self, g, env, B):
        """(str(z) for z in <z values>)"""
        if len(g.generators) != 1 or g.generators[0].ifs or g.generators[0].is_async or not isinstance(g.generators[0].target, ast.Name):
            raise Untranslatable('generator expression')
        v = g.generators[0].target.id
        it, ity = self.expr(g.generators[0].iter, env, B)
        if ity != 'listPZ': raise Untranslatable('labels of ' + ity)
        if not (isinstance(g.elt, ast.Call) and _u(g.elt.func) == 'str' and len(g.elt.args) == 1 and not g.elt.keywords
                and isinstance(g.elt.args[0], ast.Name) and g.elt.args[0].id == v):
            raise Untranslatable('label expression ' + _u(g.elt)[:60])
        return f'(PLabels.finite ({it}.map fun z => some (PZ.key o.str z)))', 'labels'

    def test(self, e, env, B):
        """truth value of a test, as a Bool term"""
        src = _u(e)
        if src in self.statics: return 'true' if self.statics[src] else 'false'
        if isinstance(e, ast.BoolOp):
            saved = len(B)
            parts = [self.test(v, env, B) for v in e.values]
            if len(B) != saved: raise Untranslatable('short circuit over an operation that can raise')
            return '(' + (' && ' if isinstance(e.op, ast.And) else ' || ').join(parts) + ')'
        if isinstance(e, ast.UnaryOp) and isinstance(e.op, ast.Not):
            return f'(!{self.test(e.operand, env, B)})'
        if isinstance(e, ast.Compare) and len(e.ops) == 1:
            op, l, r = e.ops[0], e.left, e.comparators[0]
            if isinstance(op, (ast.Is, ast.IsNot)) and isinstance(r, ast.Constant) and r.value is None:
                t, ty = self.expr(l, env, B)
                if ty in ('optstr', 'optliststr'): c = f'{t}.isNone'
                elif ty == 'PZ': c = f'{t}.isNone'
                elif ty in ('str', 'liststr'): c = 'false'
                else: raise Untranslatable('is None of ' + ty)
                return f'({c})' if isinstance(op, ast.Is) else f'(!{c})'
            if isinstance(op, (ast.Eq, ast.NotEq)):
                a, at = self.expr(l, env, B); b, bt = self.expr(r, env, B)
                if at == bt == 'str': return f'({a} == {b})' if isinstance(op, ast.Eq) else f'({a} != {b})'
            if isinstance(op, (ast.In, ast.NotIn)):
                a, at = self.expr(l, env, B); b, bt = self.expr(r, env, B)
                if at == 'str' and bt in ('dictA', 'dictF'):
                    return f'(plHas {b} {a})' if isinstance(op, ast.In) else f'(!plHas {b} {a})'
            if isinstance(op, ast.Eq) and isinstance(r, ast.Constant) and r.value == 0 and isinstance(r.value, int) \
                    and not isinstance(r.value, bool):
                inner = l.args[0] if (isinstance(l, ast.Call) and _u(l.func) == 'len' and len(l.args) == 1) else \
                    (l.value if isinstance(l, ast.Attribute) and l.attr == 'size' else None)
                if inner is not None:
                    a, at = self.expr(inner, env, B)
                    if at == 'F': return f'(o.isEmpty {a})'
            raise Untranslatable('comparison ' + src[:60])
        if isinstance(e, ast.Call) and _u(e.func) == 'isinstance' and len(e.args) == 2:
            t, ty = self.expr(e.args[0], env, B)
            if sorted(x.strip() for x in _u(e.args[1]).strip('()').split(',')) == ['list', 'tuple']:
                if ty == 'namearg': return f'(match {t} with | .many _ => true | .one _ => false)'
                if ty == 'liststr': return 'true'
                if ty == 'str': return 'false'
            raise Untranslatable('isinstance ' + src[:60])
        t, ty = self.expr(e, env, B)
        if ty == 'bool': return t
        raise Untranslatable('truth value of a ' + ty)

    def narrowing(self, test, env):
        """a test that is ONE `A is None` / `A is not None` / `isinstance(A, (tuple, list))` on a dynamically typed variable:
        (scrutinee, [(pattern, key, (term, type)) for the true branch, … for the false branch])"""
        if isinstance(test, ast.Compare) and len(test.ops) == 1 and isinstance(test.ops[0], (ast.Is, ast.IsNot)) \
                and isinstance(test.comparators[0], ast.Constant) and test.comparators[0].value is None:
            k = self.key_of(test.left)
            if k in env and env[k][1] in ('optstr', 'optliststr'):
                v = self.fresh(lname(k.split('.')[-1]))
                some = (f'some {v}', k, (v, env[k][1][3:]))
                none = ('none', k, None)
                return env[k][0], ([none, some] if isinstance(test.ops[0], ast.Is) else [some, none])
        if isinstance(test, ast.Call) and _u(test.func) == 'isinstance' and len(test.args) == 2 and not test.keywords:
            k = self.key_of(test.args[0])
            if k in env and env[k][1] == 'namearg' and \
                    sorted(x.strip() for x in _u(test.args[1]).strip('()').split(',')) == ['list', 'tuple']:
                v = self.fresh(lname(k.split('.')[-1]))
                return env[k][0], [(f'.many {v}', k, (v, 'liststr')), (f'.one {v}', k, (v, 'str'))]
        return None

    # ------------------------------------------------------------------------------------------------ statements
    def binds(self, B, ind):
        return [f'{ind}let {v} ← {t}' for v, t in B]

    def assign(self, env, key, term, ty):
        env = dict(env)
        nm = env[key][0] if key in env and env[key][1] == ty and not env[key][3] else lname(key.split('.')[-1])
        env[key] = (nm, ty, self.tick(), False)
        return env, nm

    def seq(self, stmts, env, ind, k, loop=None):
        """lines of a `do` block: the statements, then k(env, ind)"""
        self.nodes += 1
        if self.nodes > 4000: raise Untranslatable('too large')
        if not stmts: return k(env, ind)
        s, rest = stmts[0], list(stmts[1:])
        go = lambda env2: self.seq(rest, env2, ind, k, loop)
        if isinstance(s, ast.Pass) or _is_doc(s): return go(env)
        if isinstance(s, ast.Expr) and isinstance(s.value, ast.Call):
            c = s.value
            if _u(c.func) in self.DROPPED_CALLS: return go(env)
            if _u(c.func) == 'self._c_cols.append' and len(c.args) == 1 and not c.keywords and 'self._c_cols' in env:
                B = []; t, ty = self.expr(c.args[0], env, B)
                if ty != 'C': raise Untranslatable('_c_cols.append of ' + ty)
                env2, nm = self.assign(env, 'self._c_cols', None, 'listC')
                return self.binds(B, ind) + [f'{ind}let {nm} := {env["self._c_cols"][0]} ++ [{t}]'] + go(env2)
            raise Untranslatable('call statement ' + _u(c)[:60])
        if isinstance(s, ast.Expr) and isinstance(s.value, ast.Yield):
            if '$yields' not in env or s.value.value is None: raise Untranslatable('yield')
            B = []; t, ty = self.expr(s.value.value, env, B)
            if ty != 'dictF': raise Untranslatable('yield of ' + ty)
            env2, nm = self.assign(env, '$yields', None, 'listdictF')
            return self.binds(B, ind) + [f'{ind}let {nm} := {env["$yields"][0]} ++ [{t}]'] + go(env2)
        if isinstance(s, ast.Assign) and len(s.targets) == 1:
            tg = s.targets[0]
            key = self.key_of(tg)
            if key is not None:
                if isinstance(s.value, ast.Dict) and not s.value.keys:
                    if key not in self.dict_types: raise Untranslatable('untyped dict ' + key)
                    env2, nm = self.assign(env, key, None, self.dict_types[key])
                    return [f'{ind}let {nm} : {LEAN_TY[self.dict_types[key]]} := []'] + go(env2)
                B = []; t, ty = self.expr(s.value, env, B)
                if ty == 'liststr' and key == 'self._z_vals': t, ty = f'({t}.map PZ.name)', 'listPZ'
                if ty not in LEAN_TY: raise Untranslatable('assignment of a ' + ty)
                if key.startswith('self.') and key not in env and key not in self.attr_out:
                    raise Untranslatable('assignment to ' + key)
                if key in self.attr_out and ty != self.attr_out[key]: raise Untranslatable(f'{key} assigned a {ty}')
                env2, nm = self.assign(env, key, None, ty)
                return self.binds(B, ind) + [f'{ind}let {nm} : {LEAN_TY[ty]} := {t}'] + go(env2)
            if isinstance(tg, ast.Subscript):
                dk = self.key_of(tg.value)
                if dk in env and env[dk][1] in ('dictA', 'dictF'):
                    B = []; kk, kt = self.expr(tg.slice, env, B); t, ty = self.expr(s.value, env, B)
                    if kt != 'str' or ty != env[dk][1][4:]: raise Untranslatable(f'{dk}[{kt}] = {ty}')
                    env2, nm = self.assign(env, dk, None, env[dk][1])
                    return self.binds(B, ind) + [f'{ind}let {nm} := plSet {env[dk][0]} {kk} {t}'] + go(env2)
            raise Untranslatable('assignment ' + _u(s)[:60])
        if isinstance(s, ast.AugAssign) and isinstance(s.op, ast.BitAnd):
            key = self.key_of(s.target)
            if key in env and env[key][1] == 'M':
                B = []; t, ty = self.expr(s.value, env, B)
                if ty != 'M': raise Untranslatable('&= of ' + ty)
                env2, nm = self.assign(env, key, None, 'M')
                return self.binds(B, ind) + [f'{ind}let {nm} := o.mand {env[key][0]} {t}'] + go(env2)
            raise Untranslatable('augmented assignment ' + _u(s)[:60])
        if isinstance(s, ast.Raise):
            if s.exc is None or s.cause is not None: raise Untranslatable('re-raise')
            exc = s.exc.func if isinstance(s.exc, ast.Call) else s.exc
            if not isinstance(exc, ast.Name): raise Untranslatable('raise ' + _u(exc))
            return [f'{ind}throw {ERRS.get(exc.id, "PErr.other")}']
        if isinstance(s, ast.Continue):
            if loop is None: raise Untranslatable('continue outside the generator loop')
            return loop(env, ind)
        if isinstance(s, ast.If):
            return self.if_(s, rest, env, ind, k, loop)
        if isinstance(s, ast.Try):
            return self.try_(s, rest, env, ind, k, loop)
        if isinstance(s, ast.For):
            return self.for_(s, rest, env, ind, k, loop)
        raise Untranslatable('statement ' + type(s).__name__ + ': ' + _u(s)[:60])

    # ---- joins
    def probe(self, blocks, env):
        """variables (keys) the blocks assign: in some block and known before, or in every block that ends normally"""
        ends = []
        for stmts, envb in blocks:
            got = []
            def rec(e2, ind2, got=got):
                got.append(e2); return []
            saved = self.nodes
            self.seq(stmts, envb, '', rec, None)
            self.nodes = saved
            ends.append(got)
        live = [g for g in ends if g]
        keys = []
        flat = [e2 for g in live for e2 in g]
        for key in {kk for e2 in flat for kk in e2}:
            if key.startswith('$narrow'): continue
            if key in env:
                if any(e2[key][2] != env[key][2] for e2 in flat if key in e2): keys.append(key)
            elif all(key in e2 for e2 in flat):
                keys.append(key)
        keys.sort()
        tys = {}
        for key in keys:
            ts = {e2[key][1] for e2 in flat if key in e2} | ({env[key][1]} if key in env else set())
            if len(ts) != 1: raise Untranslatable(f'{key} has different types after a branch: {sorted(ts)}')
            tys[key] = ts.pop()
        return keys, tys, any(not g for g in ends)

    def tup(self, names):
        return '()' if not names else names[0] if len(names) == 1 else '(' + ', '.join(names) + ')'

    def joined(self, head_lines, branches, env, rest, ind, k, loop):
        """branches: [(intro line, stmts, env_b)]; emit  let vars ← (head … | intro do … pure vars)"""
        keys, tys, _ = self.probe([(st, eb) for _, st, eb in branches], env)
        out_names = [env[key][0] if key in env else lname(key.split('.')[-1]) for key in keys]
        lines = []
        for intro, stmts, envb in branches:
            lines.append(f'{ind}  {intro}')
            def fin(e2, ind2):
                return [f'{ind2}pure ' + self.tup([e2[key][0] for key in keys])]
            body = self.seq(stmts, envb, ind + '    ', fin, None)
            lines += body
        env2 = dict(env)
        for key, nm in zip(keys, out_names):
            env2[key] = (nm, tys[key], self.tick(), False)
        pat = self.tup(out_names) if keys else '_'
        ty = ' × '.join(f'({LEAN_TY[tys[key]]})' for key in keys) if keys else 'Unit'
        return [f'{ind}let {pat} ← (show Except PErr ({ty}) from'] + head_lines + lines + [f'{ind}  )'] + \
            self.seq(rest, env2, ind, k, loop)

    def if_(self, s, rest, env, ind, k, loop):
        src = _u(s.test)
        if src in self.statics:
            return self.seq((list(s.body) if self.statics[src] else list(s.orelse)) + rest, env, ind, k, loop)
        has_exit = any(isinstance(n, ast.Continue) for b in (s.body, s.orelse) for st in b for n in ast.walk(st))
        nar = self.narrowing(s.test, env)
        if nar is not None:
            scrut, alts = nar
            branches = []
            for (pat, key, new), stmts in zip(alts, (s.body, s.orelse)):
                envb = dict(env)
                if new is not None: envb[key] = (new[0], new[1], env[key][2], True)
                branches.append((pat, list(stmts), envb))
            if has_exit:
                out = [f'{ind}match {scrut} with']
                for pat, stmts, envb in branches:
                    out.append(f'{ind}| {pat} => do')
                    def kk(e2, ind2, key=alts[0][1]):
                        e3 = dict(e2); e3[key] = env[key]; return k(e3, ind2)
                    out += self.seq(stmts + rest, envb, ind + '  ', kk, loop)
                return out
            # the narrowed binding must not leak out of its branch: the join only returns assigned variables
            return self.joined([f'{ind}  match {scrut} with'], [(f'| {pat} => do', st, eb) for pat, st, eb in branches],
                               env, rest, ind, k, loop)
        B = []
        c = self.test(s.test, env, B)
        pre = self.binds(B, ind)
        if has_exit:
            a = self.seq(list(s.body) + rest, env, ind + '  ', k, loop)
            b = self.seq(list(s.orelse) + rest, env, ind + '  ', k, loop)
            return pre + [f'{ind}if {c} then'] + a + [f'{ind}else'] + b
        keys, _, raises = self.probe([(list(s.body), env), (list(s.orelse), env)], env)
        if not keys and not raises:
            return pre + self.seq(rest, env, ind, k, loop)          # a statement without an effect on the translated state
        return pre + self.joined([], [(f'if {c} then do', list(s.body), env), ('else do', list(s.orelse), env)],
                                 env, rest, ind, k, loop)

    def try_(self, s, rest, env, ind, k, loop):
        if s.finalbody or s.orelse or not s.handlers or len(s.body) != 1: raise Untranslatable('try shape')
        if any(isinstance(n, (ast.Continue, ast.Yield)) for n in ast.walk(s)): raise Untranslatable('continue / yield in try')
        blocks = [(list(s.body), env)] + [(list(h.body), env) for h in s.handlers]
        keys, tys, _ = self.probe(blocks, env)
        out_names = [env[key][0] if key in env else lname(key.split('.')[-1]) for key in keys]
        def fin(e2, ind2): return [f'{ind2}pure ' + self.tup([e2[key][0] for key in keys])]
        ty = ' × '.join(f'({LEAN_TY[tys[key]]})' for key in keys) if keys else 'Unit'
        lines = [f'{ind}let {self.tup(out_names) if keys else "_"} ← plTry (show Except PErr ({ty}) from do']
        lines += self.seq(list(s.body), env, ind + '    ', fin, None)
        e = self.fresh('e')
        lines.append(f'{ind}  ) (fun {e} =>')
        depth = 0
        for h in s.handlers:
            if not isinstance(h.type, ast.Name) or h.type.id not in ERRS or h.name is not None:
                raise Untranslatable('except ' + (_u(h.type) if h.type is not None else '(bare)'))
            lines.append(f'{ind}    if {e} = {ERRS[h.type.id]} then do')
            lines += self.seq(list(h.body), env, ind + '      ', fin, None)
            lines.append(f'{ind}    else')
        lines.append(f'{ind}      throw {e})')
        env2 = dict(env)
        for key, nm in zip(keys, out_names):
            env2[key] = (nm, tys[key], self.tick(), False)
        return lines + self.seq(rest, env2, ind, k, loop)

    def for_(self, s, rest, env, ind, k, loop):
        if s.orelse: raise Untranslatable('for / else')
        # a loop of validation calls only
        def only_dropped(stmts):
            for st in stmts:
                if isinstance(st, ast.If) and not any(isinstance(n, (ast.Call,)) and _u(n.func) not in self.DROPPED_CALLS
                                                      for n in ast.walk(st.test)):
                    if not (only_dropped(st.body) and only_dropped(st.orelse)): return False
                elif isinstance(st, ast.Expr) and isinstance(st.value, ast.Call) and _u(st.value.func) in self.DROPPED_CALLS: pass
                elif isinstance(st, ast.Pass) or _is_doc(st): pass
                else: return False
            return True
        if only_dropped(s.body): return self.seq(rest, env, ind, k, loop)
        # for k, da in zip(das, <list of arrays>): data[k] = <expression of da>
        it = s.iter
        if isinstance(it, ast.Call) and _u(it.func) == 'zip' and len(it.args) == 2 and not it.keywords \
                and isinstance(s.target, ast.Tuple) and len(s.target.elts) == 2 and all(isinstance(x, ast.Name) for x in s.target.elts) \
                and len(s.body) == 1 and isinstance(s.body[0], ast.Assign) and len(s.body[0].targets) == 1 \
                and isinstance(s.body[0].targets[0], ast.Subscript):
            B = []
            d, dt = self.expr(it.args[0], env, B); l, lt = self.expr(it.args[1], env, B)
            if dt != 'dictA' or lt != 'listA' or B: raise Untranslatable('zip of ' + dt + ', ' + lt)
            kn, vn = (lname(x.id) for x in s.target.elts)
            tg = s.body[0].targets[0]
            dk = self.key_of(tg.value)
            if dk not in env or env[dk][1] != 'dictF': raise Untranslatable('loop target ' + _u(tg)[:40])
            envb = dict(env); envb[s.target.elts[0].id] = (kn, 'str', self.tick(), False); envb[s.target.elts[1].id] = (vn, 'A', self.tick(), False)
            kk, kt = self.expr(tg.slice, envb, B); t, ty = self.expr(s.body[0].value, envb, B)
            if kt != 'str' or ty != 'F' or B: raise Untranslatable('loop body ' + _u(s.body[0])[:60])
            acc = env[dk][0]
            env2, nm = self.assign(env, dk, None, 'dictF')
            line = (f'{ind}let {nm} := (({d}.map Prod.fst).zip {l}).foldl (fun (acc : List (String × F)) (p : String × A) => '
                    f'(fun ({kn} : String) ({vn} : A) => plSet acc {kk} {t}) p.1 p.2) {acc}')
            return [line] + self.seq(rest, env2, ind, k, loop)
        raise Untranslatable('for loop ' + _u(s)[:60])

    attr_out = {}


def V(term, ty): return (term, ty, 0, False)


def _body(f): return [s for s in f.body if not _is_doc(s)]


def _no_extra_params(f, want):
    a = f.args
    names = [x.arg for x in a.args]
    if names[:len(want)] != want or a.vararg or a.kwarg or a.posonlyargs: raise NotFound(f'{f.name} parameters {names}')
    return names


# ============================================================================================ prepare_z_vals / labels
def a_plZVals(T):
    f = find(T['core'], ['Plotter', 'prepare_z_vals'])
    _no_extra_params(f, ['self'])
    tr = PlTr(zvals_mode=True)
    tr.attr_out = {'self._multi_var': 'bool', 'self._z_vals': 'listPZ'}
    env = {'self._ds': V('ds', 'D'), 'self.z_coo': V('zCoo', 'optstr'), 'self.y_coo': V('yCoo', 'namearg'),
           'self.x_coo': V('xCoo', 'namearg'), 'grid': V('grid', 'bool'), 'mode': V('mode', 'str')}
    def fin(e2, ind):
        if 'self._multi_var' not in e2 or 'self._z_vals' not in e2: raise Untranslatable('a path leaves _z_vals / _multi_var unset')
        return [f'{ind}pure ({e2["self._multi_var"][0]}, {e2["self._z_vals"][0]})']
    return 'do\n' + '\n'.join(tr.seq(_body(f), env, '  ', fin))


def a_plZLabels(T):
    f = find(T['core'], ['Plotter', 'prepare_z_labels'])
    _no_extra_params(f, ['self'])
    tr = PlTr()
    tr.attr_out = {'self._zlbls': 'labels'}
    env = {'self.zlabels': V('zlabels', 'optliststr'), 'self.z_coo': V('zCoo', 'optstr'), 'self._multi_var': V('multiVar', 'bool'),
           'self._z_vals': V('zVals', 'listPZ')}
    def fin(e2, ind):
        if 'self._zlbls' not in e2: raise Untranslatable('a path leaves _zlbls unset')
        return [f'{ind}pure {e2["self._zlbls"][0]}']
    return 'do\n' + '\n'.join(tr.seq(_body(f), env, '  ', fin))


# ============================================================================================ the generators
def _gen_loop(T, path, with_index):
    f = find(T['core'], path)
    if f.args.args or f.args.vararg or f.args.kwarg: raise NotFound('generator with parameters')
    body = _body(f)
    if len(body) != 1 or not isinstance(body[0], ast.For) or body[0].orelse: raise Untranslatable('the generator is not one for loop')
    loop = body[0]
    tr = PlTr(statics={'self.xjitter': False, 'self.yjitter': False}, dict_types={'das': 'dictA', 'data': 'dictF'})
    env = {'self._ds': V('ds', 'D'), 'self.z_coo': V('zCoo', 'optstr'), 'self.y_coo': V('yCoo', 'str'), 'self.x_coo': V('xCoo', 'str'),
           'self.c_coo': V('cCoo', 'optstr'), 'self.y_err': V('yErr', 'optstr'), 'self.x_err': V('xErr', 'optstr'),
           'self._multi_var': V('multiVar', 'bool'), 'mode': V('mode', 'str'), 'self._z_vals': V('zVals', 'listPZ')}
    it = loop.iter
    B = []
    if isinstance(it, ast.Call) and _u(it.func) == 'enumerate' and len(it.args) == 1 and not it.keywords:
        if not (isinstance(loop.target, ast.Tuple) and len(loop.target.elts) == 2 and all(isinstance(x, ast.Name) for x in loop.target.elts)):
            raise Untranslatable('loop target')
        src, sty = tr.expr(it.args[0], env, B)
        iname, zname = loop.target.elts[0].id, loop.target.elts[1].id
    else:
        if not isinstance(loop.target, ast.Name): raise Untranslatable('loop target')
        src, sty = tr.expr(it, env, B)
        iname, zname = None, loop.target.id
    if sty != 'listPZ' or B: raise Untranslatable('loop over ' + sty)
    li, lz = (lname(iname) if iname else '_i'), lname(zname)
    envb = dict(env)
    if iname: envb[iname] = V(li, 'nat')
    envb[zname] = V(lz, 'PZ')
    envb['$yields'] = V('yields', 'listdictF')
    envb['self._c_cols'] = V('cCols', 'listC')
    def fin(e2, ind): return [f'{ind}pure ({e2["$yields"][0]}, {e2["self._c_cols"][0]})']
    lines = tr.seq(list(loop.body), envb, '    ', fin, fin)
    head = (f'plLoop (fun ({li} : Nat) ({lz} : PZ Z) => do\n    let yields : List (List (String × F)) := []\n'
            f'    let cCols : List C := []\n')
    return head + '\n'.join(lines) + f') (plEnumerate {src})'


def a_plGenXY(T): return _gen_loop(T, ['Plotter', 'prepare_xy_vals_lineplot', 'gen_xy'], True)
def a_plGenX(T): return _gen_loop(T, ['Plotter', 'prepare_x_vals_histogram', 'gen_x'], False)


# ============================================================================================ calc_use_legend_or_colorbar
def a_plLegend(T):
    """the whole body: straight-line code with `if`s over the state (legend, colorbar : Option Bool; the two results)"""
    f = find(T['core'], ['Plotter', 'calc_use_legend_or_colorbar'])
    _no_extra_params(f, ['self'])
    local = {}
    stmts = []
    for s in _body(f):
        if isinstance(s, ast.FunctionDef):
            b = _body(s)
            if s.args.args or len(b) != 1 or not isinstance(b[0], ast.Return) or b[0].value is None:
                raise Untranslatable('local function ' + s.name)
            local[s.name + '()'] = b[0].value
        else:
            stmts.append(s)
    STATE = {'self.legend': 'legend', 'self.colorbar': 'colorbar', 'self._use_legend': None, 'self._use_colorbar': None}
    cnt = [0]
    lets = []

    def benv(st):
        env = {'self.c_coo is None': ('(!hasC)', 'bool'), 'self.c_coo is not None': ('hasC', 'bool'),
               'self.colors is True': ('colorsTrue', 'bool'), 'self.colors == True': ('colorsTrue', 'bool'),
               'len(self._z_vals)': ('(n : Int)', 'num')}
        for k, t in st.items():
            if t is None: continue
            env[k] = (f'({t} == some true)', 'bool')
            env[k + ' is None'] = (f'{t}.isNone', 'bool')
            env[k + ' is not None'] = (f'{t}.isSome', 'bool')
        return env

    def inline(e):
        class I(ast.NodeTransformer):
            def visit_Call(self, n):
                if _u(n) in local: return local[_u(n)]
                return self.generic_visit(n)
        import copy
        return ast.fix_missing_locations(I().visit(copy.deepcopy(e)))

    def is_bool(e):
        if isinstance(e, ast.Compare): return True
        if isinstance(e, ast.UnaryOp) and isinstance(e.op, ast.Not): return True
        if isinstance(e, ast.BoolOp): return all(is_bool(v) for v in e.values)
        if isinstance(e, ast.Constant) and isinstance(e.value, bool): return True
        return False

    def val(e, st):
        e = inline(e)
        if isinstance(e, ast.Constant) and e.value is None: return 'none'
        k = _u(e)
        if k in st and st[k] is not None: return st[k]
        if isinstance(e, ast.IfExp):
            return f'(if {translate(inline(e.test), benv(st), "bool")} then {val(e.body, st)} else {val(e.orelse, st)})'
        if is_bool(e): return f'(some {translate(e, benv(st), "bool")})'
        raise Untranslatable('value ' + k[:60])

    def block(stmts, st):
        st = dict(st)
        for s in stmts:
            if isinstance(s, ast.Assign) and len(s.targets) == 1 and _u(s.targets[0]) in STATE:
                k = _u(s.targets[0])
                v = val(s.value, st)
                cnt[0] += 1
                nm = f'{k.split(".")[-1].strip("_").replace("_l", "L").replace("_c", "C")}{cnt[0]}'
                lets.append(None)
                st[k] = v
            elif isinstance(s, ast.If):
                c = translate(inline(s.test), benv(st), 'bool')
                a, b = block(s.body, st), block(s.orelse, st)
                for k in STATE:
                    if a[k] != st[k] or b[k] != st[k]:
                        if a[k] is None or b[k] is None: raise Untranslatable(f'{k} set on one path only')
                        cnt[0] += 1
                        nm = f'{lname(k.split(".")[-1])}{cnt[0]}'
                        lets.append(f'  let {nm} : Option Bool := if {c} then {a[k]} else {b[k]}')
                        st[k] = nm
            elif isinstance(s, ast.Pass) or _is_doc(s): pass
            else: raise Untranslatable('statement ' + _u(s)[:60])
        return st
    st = block(stmts, {k: v for k, v in STATE.items()})
    if st['self._use_legend'] is None or st['self._use_colorbar'] is None: raise Untranslatable('results unset')
    return '\n' + '\n'.join(l for l in lets if l) + f'\n  ({st["self._use_legend"]}, {st["self._use_colorbar"]})'


# ============================================================================================ the plotting loops
def a_plLoopNexts(T):
    """for each of plot_lines / plot_scatter / plot_histogram: the loop `for data in self._gen_xy()` and the iterators it
    advances with `next(self.<it>)` per yielded series: (method, unconditional ones in order, conditional ones).  `next` of
    `_zlbls` inside a nested loop / comprehension / a `continue`-guarded tail is not understood -> fallback"""
    out = []
    for cls, meth in (('LinePlot', 'plot_lines'), ('Scatter', 'plot_scatter'), ('Histogram', 'plot_histogram')):
        f = find(T['plotter_mpl'], [cls, meth])
        loops = [n for n in ast.walk(f) if isinstance(n, ast.For) and _u(n.iter) == 'self._gen_xy()']
        if len(loops) != 1: raise NotFound(f'{meth}: {len(loops)} loops over self._gen_xy()')
        loop = loops[0]
        if loop.orelse or any(isinstance(n, (ast.Continue, ast.Break, ast.Return, ast.While, ast.Try)) for n in ast.walk(loop)):
            raise Untranslatable(f'{meth}: control flow in the loop')
        outside = [n for n in ast.walk(f) if isinstance(n, ast.Call) and _u(n.func) == 'next'
                   and not any(n is m for m in ast.walk(loop))]
        if outside: raise Untranslatable(f'{meth}: next() outside the loop')
        unc, cond = [], []

        def it_name(c):
            if len(c.args) != 1 or c.keywords or not _u(c.args[0]).startswith('self.'): raise Untranslatable('next(' + _u(c)[:40])
            return _u(c.args[0])[5:]

        def walk_stmt(st, conditional):
            if isinstance(st, ast.If):
                for n in ast.walk(st.test):
                    if isinstance(n, ast.Call) and _u(n.func) == 'next': raise Untranslatable('next in a test')
                for b in st.body + st.orelse: walk_stmt(b, True)
                return
            if isinstance(st, (ast.For, ast.With, ast.FunctionDef)):
                if any(isinstance(n, ast.Call) and _u(n.func) == 'next' for n in ast.walk(st)): raise Untranslatable('next in a nested block')
                return
            guarded = set()
            for n in ast.walk(st):
                inner = [m for m in ast.walk(n) if isinstance(m, ast.Call) and _u(m.func) == 'next']
                if isinstance(n, (ast.ListComp, ast.GeneratorExp, ast.SetComp, ast.DictComp, ast.Lambda)) and inner:
                    raise Untranslatable('next in a comprehension / lambda')
                if isinstance(n, (ast.IfExp, ast.BoolOp)): guarded |= {id(m) for m in inner}     # evaluated on some paths only
            calls = [n for n in ast.walk(st) if isinstance(n, ast.Call) and _u(n.func) == 'next']
            calls.sort(key=lambda n: (n.lineno, n.col_offset))
            for c in calls: (cond if (conditional or id(c) in guarded) else unc).append(it_name(c))
        for st in loop.body: walk_stmt(st, False)
        out.append(f'({lean_str(meth)}, [' + ', '.join(lean_str(x) for x in unc) + '], [' + ', '.join(lean_str(x) for x in cond) + '])')
    return '[' + ', '.join(out) + ']'


# ============================================================================================ calc_color_norm
def a_plColorNorm(T):
    """the limits handed to the colour normalisation: the statements of `calc_color_norm` after the early return, as straight-line
    code with `if`s over the state (_zmin, _zmax, vmin, vmax : Option LimV).  Values: the caller's vmin / vmax (`LimV.arg 0|1
    isZero`), `zlims[i]` (`LimV.zlim i`), the finite data minimum / maximum (`finite.min()` / `finite.max()` of
    `finite = ds[coo].where(np.isfinite(ds[coo]))`), float constants."""
    import re
    f = find(T['core'], ['Plotter', 'calc_color_norm'])
    _no_extra_params(f, ['self'])
    INPUT = {'self.vmin': 'vminV', 'self.vmax': 'vmaxV'}
    st0 = {'self._zmin': None, 'self._zmax': None, 'self.vmin': 'vminV', 'self.vmax': 'vmaxV'}
    lets, cnt, finite_names, out = [], [0], set(), []

    def value(e, st):
        k = _u(e)
        if k in st:
            if st[k] is None: raise Untranslatable(k + ' read before it is set')
            return st[k]
        if isinstance(e, ast.Constant) and e.value is None: return 'none'
        if isinstance(e, ast.Constant) and isinstance(e.value, (int, float)) and not isinstance(e.value, bool):
            return f'(some (LimV.const {lean_str(repr(float(e.value)))}))'
        m = re.fullmatch(r'self\.zlims\[([01])\]', k)
        if m: return f'(if {"zlimLo" if m.group(1) == "0" else "zlimHi"} then some (LimV.zlim {m.group(1)}) else none)'
        m = re.fullmatch(r'(?:float\()?(\w+)\.(min|max)\(\)(?:\.values)?(?:\.item\(0?\))?\)?', k)
        if m and m.group(1) in finite_names: return f'(some LimV.data{m.group(2).capitalize()})'
        if isinstance(e, ast.IfExp):
            return f'(if {test(e.test, st)} then {value(e.body, st)} else {value(e.orelse, st)})'
        if isinstance(e, ast.BoolOp) and isinstance(e.op, ast.Or) and len(e.values) == 2:
            return f'(if {test(e.values[0], st)} then {value(e.values[0], st)} else {value(e.values[1], st)})'
        raise Untranslatable('limit value ' + k[:60])

    def test(e, st):
        k = _u(e)
        if re.search(r'\.dtype\.kind in ', k) and sorted(re.findall(r"'(\w)'", k)) == ['f', 'i', 'u']: return 'numeric'
        if isinstance(e, ast.UnaryOp) and isinstance(e.op, ast.Not): return f'(!{test(e.operand, st)})'
        if isinstance(e, ast.BoolOp):
            return '(' + (' && ' if isinstance(e.op, ast.And) else ' || ').join(test(v, st) for v in e.values) + ')'
        if isinstance(e, ast.Compare) and len(e.ops) == 1 and isinstance(e.ops[0], (ast.Is, ast.IsNot, ast.Eq, ast.NotEq)) \
                and isinstance(e.comparators[0], ast.Constant) and e.comparators[0].value is None and _u(e.left) in st:
            t = value(e.left, st)
            return f'{t}.isNone' if isinstance(e.ops[0], (ast.Is, ast.Eq)) else f'{t}.isSome'
        if k in INPUT and st[k] == INPUT[k]:
            return f'(LimV.truthy {st[k]})'                     # truth value of the caller's argument: not None and not zero
        raise Untranslatable('limit test ' + k[:60])

    def block(stmts, st):
        st = dict(st)
        for s in stmts:
            if isinstance(s, (ast.Import, ast.ImportFrom, ast.Pass)) or _is_doc(s): continue
            if isinstance(s, ast.Expr) and isinstance(s.value, ast.Call) and _u(s.value.func) == 'self.set_mappable': continue
            if isinstance(s, ast.If) and len(s.body) == 1 and isinstance(s.body[0], ast.Return) and s.body[0].value is None \
                    and not s.orelse and _u(s.test) == 'coo is None':
                continue                                         # nothing to colour by: outside this anchor
            if isinstance(s, ast.Assign) and len(s.targets) == 1:
                tg = s.targets[0]
                if isinstance(tg, ast.Tuple) and isinstance(s.value, ast.Tuple) and len(tg.elts) == len(s.value.elts):
                    vals = [value(v, st) for v in s.value.elts]
                    for t, v in zip(tg.elts, vals):
                        if _u(t) not in st: raise Untranslatable('assignment to ' + _u(t))
                        st[_u(t)] = v
                    continue
                k = _u(tg)
                if k in st:
                    st[k] = value(s.value, st); continue
                if k in ('self.cmap', 'coo'): continue
                if isinstance(tg, ast.Name) and re.fullmatch(r'self\._ds\[coo\]\.where\(np\.isfinite\(self\._ds\[coo\]\)\)', _u(s.value)):
                    finite_names.add(k); continue
                if k == 'self._color_norm' and isinstance(s.value, ast.Call):
                    kw = {x.arg: x.value for x in s.value.keywords}
                    if set(kw) != {'vmin', 'vmax'} or s.value.args: raise Untranslatable('normalisation arguments')
                    out.append((value(kw['vmin'], st), value(kw['vmax'], st))); continue
                raise Untranslatable('assignment ' + _u(s)[:60])
            if isinstance(s, ast.If):
                c = test(s.test, st)
                n_out = len(out)
                a, b = block(s.body, st), block(s.orelse, st)
                if len(out) != n_out: raise Untranslatable('normalisation built inside a branch')
                for k in st0:
                    if a[k] != st[k] or b[k] != st[k]:
                        if a[k] is None or b[k] is None: raise Untranslatable(f'{k} set on one path only')
                        cnt[0] += 1
                        nm = f'{lname(k.split(".")[-1])}{cnt[0]}'
                        lets.append(f'  let {nm} : Option LimV := if {c} then {a[k]} else {b[k]}')
                        st[k] = nm
                continue
            raise Untranslatable('statement ' + _u(s)[:60])
        return st
    block(_body(f), st0)
    if len(out) != 1: raise Untranslatable(f'{len(out)} normalisations')
    return ('\n  let vminV : Option LimV := vmin.map fun a => LimV.arg 0 a\n  let vmaxV : Option LimV := vmax.map fun a => LimV.arg 1 a\n'
            + '\n'.join(lets) + f'\n  ({out[0][0]}, {out[0][1]})')


# ============================================================================================ calc_row_col_datasets
def a_plRowCol(T):
    """the grid of selections: per variant of (row, col) given / None the body is run symbolically (tests on `row is None`
    decided by the variant): `ds[row].values` = the coordinate values, `len`, nested list comprehensions of `ds.loc[{..}]`
    = the selector dicts, in order.  Result: (grid of selectors, number of rows, number of columns)"""
    f = find(T['core'], ['calc_row_col_datasets'])
    names = [a.arg for a in f.args.args]
    if names != ['ds', 'row', 'col'] or f.args.vararg or f.args.kwarg: raise NotFound('calc_row_col_datasets parameters')

    class Unbound(Exception): pass

    def static(e, env):
        if isinstance(e, ast.Compare) and len(e.ops) == 1 and isinstance(e.ops[0], (ast.Is, ast.IsNot)) and isinstance(e.left, ast.Name) \
                and e.left.id in ('row', 'col') and isinstance(e.comparators[0], ast.Constant) and e.comparators[0].value is None:
            r = env[e.left.id] is None
            return r if isinstance(e.ops[0], ast.Is) else not r
        if isinstance(e, ast.UnaryOp) and isinstance(e.op, ast.Not): return not static(e.operand, env)
        if isinstance(e, ast.BoolOp):
            vs = [static(v, env) for v in e.values]
            return all(vs) if isinstance(e.op, ast.And) else any(vs)
        raise Untranslatable('test ' + _u(e)[:60])

    def ex(e, env):
        """(term, type)  types: str, listZ, Z, nat, sel, list(<t>)"""
        if isinstance(e, ast.Name):
            if e.id not in env: raise Unbound(e.id)
            if env[e.id] is None: raise Untranslatable('use of None ' + e.id)
            return env[e.id]
        if isinstance(e, ast.Constant) and isinstance(e.value, int) and not isinstance(e.value, bool): return str(e.value), 'nat'
        if isinstance(e, ast.Attribute) and e.attr == 'values' and isinstance(e.value, ast.Subscript) and _u(e.value.value) == 'ds':
            k, kt = ex(e.value.slice, env)
            if kt == 'str': return f'(o.coordValues ds {k})', 'listZ'
        if isinstance(e, ast.Call) and _u(e.func) == 'len' and len(e.args) == 1 and not e.keywords:
            a, at = ex(e.args[0], env)
            if at == 'listZ' or at.startswith('list('): return f'{a}.length', 'nat'
        if isinstance(e, ast.Subscript) and _u(e.value) == 'ds.loc' and isinstance(e.slice, ast.Dict) and e.slice.keys and None not in e.slice.keys:
            items = []
            for k, v in zip(e.slice.keys, e.slice.values):
                kt, ktt = ex(k, env); vt, vtt = ex(v, env)
                if ktt != 'str' or vtt != 'Z': raise Untranslatable('selector ' + _u(e.slice)[:60])
                items.append(f'({kt}, {vt})')
            return '[' + ', '.join(items) + ']', 'sel'
        if isinstance(e, ast.List):
            parts = [ex(x, env) for x in e.elts]
            if parts and len({t for _, t in parts}) == 1: return '[' + ', '.join(p for p, _ in parts) + ']', f'list({parts[0][1]})'
        if isinstance(e, ast.ListComp) and len(e.generators) == 1 and not e.generators[0].ifs and isinstance(e.generators[0].target, ast.Name):
            it, itt = ex(e.generators[0].iter, env)
            if itt != 'listZ': raise Untranslatable('comprehension over ' + itt)
            v = e.generators[0].target.id
            env2 = dict(env); env2[v] = (lname(v), 'Z')
            b, bt = ex(e.elt, env2)
            return f'({it}.map fun {lname(v)} => {b})', f'list({bt})'
        raise Untranslatable('expression ' + _u(e)[:60])

    def run(stmts, env):
        for s in stmts:
            if _is_doc(s) or isinstance(s, ast.Pass): continue
            if isinstance(s, ast.If):
                r = run(s.body if static(s.test, env) else s.orelse, env)
                if r is not None: return r
                continue
            if isinstance(s, ast.Assign) and len(s.targets) == 1 and isinstance(s.targets[0], ast.Name) and s.targets[0].id not in names:
                env[s.targets[0].id] = ex(s.value, env); continue
            if isinstance(s, ast.Return) and isinstance(s.value, ast.Tuple) and len(s.value.elts) == 3:
                (g, gt), (a, at), (b, bt) = (ex(x, env) for x in s.value.elts)
                if gt != 'list(list(sel))' or at != 'nat' or bt != 'nat': raise Untranslatable(f'returns ({gt}, {at}, {bt})')
                return f'some ({g}, {a}, {b})'
            raise Untranslatable('statement ' + _u(s)[:60])
        return None
    out = ['', '  match row, col with']
    for rv, cv in ((True, True), (True, False), (False, True)):
        env = {'row': ('row', 'str') if rv else None, 'col': ('col', 'str') if cv else None}
        r = run(_body(f), env)
        if r is None: raise Untranslatable('a path returns nothing')
        out.append(f'  | {"some row" if rv else "none"}, {"some col" if cv else "none"} => {r}')
    out.append('  | none, none => none')
    return '\n'.join(out)


_OPS = '{D A F M C Z : Type} (o : PlotOps D A F M C Z)'
ANCHORS = [
    ('plZVals', _OPS + ' (ds : D) (zCoo : Option String) (yCoo xCoo : NameArg) (grid : Bool) (mode : String) : '
     'Except PErr (Bool × List (PZ Z))', a_plZVals),
    ('plZLabels', _OPS + ' (zlabels : Option (List String)) (zCoo : Option String) (multiVar : Bool) (zVals : List (PZ Z)) : '
     'Except PErr PLabels', a_plZLabels),
    ('plLegend', '(n : Nat) (legend colorbar : Option Bool) (hasC colorsTrue : Bool) : Option Bool × Option Bool', a_plLegend),
    ('plGenXY', _OPS + ' (ds : D) (zVals : List (PZ Z)) (multiVar : Bool) (xCoo yCoo : String) (zCoo cCoo yErr xErr : Option String) '
     '(mode : String) : Except PErr (List (List (String × F)) × List C)', a_plGenXY),
    ('plGenX', _OPS + ' (ds : D) (zVals : List (PZ Z)) (multiVar : Bool) (xCoo yCoo : String) (zCoo cCoo yErr xErr : Option String) '
     '(mode : String) : Except PErr (List (List (String × F)) × List C)', a_plGenX),
    ('plLoopNexts', ': List (String × List String × List String)', a_plLoopNexts),
    ('plRowCol', _OPS + ' (ds : D) (row col : Option String) : Option (List (List (List (String × Z))) × Nat × Nat)', a_plRowCol),
    ('plColorNorm', '(numeric : Bool) (vmin vmax : Option Bool) (zlimLo zlimHi : Bool) : Option LimV × Option LimV', a_plColorNorm),
]
