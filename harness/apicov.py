"""Development aid (not part of any check): record which parameters of the library's public entry points the harness
ever passes with a non-default value.  Enabled by XYZV_APICOV=<file>; `tools/api_coverage.py` runs the checks with it
and prints the parameters that were never exercised."""
import os, json, inspect, functools, atexit

SEEN = {}


def _kind(v):
    if v is None: return 'None'
    if isinstance(v, bool): return str(v)
    if isinstance(v, (int, float)): return type(v).__name__
    if isinstance(v, str): return 'str'
    if isinstance(v, dict): return 'dict' if v else 'emptydict'
    if isinstance(v, (list, tuple)): return type(v).__name__ if v else 'empty' + type(v).__name__
    if callable(v): return 'callable'
    return type(v).__name__


def _wrap(owner, name, qual):
    fn = getattr(owner, name)
    try: sig = inspect.signature(fn)
    except (TypeError, ValueError): return
    SEEN.setdefault(qual, {p: {} for p in sig.parameters if p not in ('self', 'fn', 'args', 'kwargs')})

    @functools.wraps(fn)
    def w(*a, **k):
        try:
            b = sig.bind_partial(*a, **k)
            for p, v in b.arguments.items():
                if p in ('self', 'fn'): continue
                prm = sig.parameters.get(p)
                if prm is not None and prm.kind in (prm.VAR_KEYWORD,):
                    for kk, vv in v.items():
                        SEEN[qual].setdefault('**' + kk, {}); SEEN[qual]['**' + kk][_kind(vv)] = SEEN[qual]['**' + kk].get(_kind(vv), 0) + 1
                    continue
                if prm is not None and prm.kind in (prm.VAR_POSITIONAL,): continue
                d = SEEN[qual].setdefault(p, {})
                kd = _kind(v) + ('=default' if prm is not None and prm.default is not inspect._empty and (v is prm.default or v == prm.default) else '')
                d[kd] = d.get(kd, 0) + 1
        except Exception:
            pass
        return fn(*a, **k)
    setattr(owner, name, w)


def install():
    path = os.environ.get('XYZV_APICOV')
    if not path: return
    import xyzpy
    from xyzpy.gen import combo_runner as cr, case_runner as car, farming, cropping
    from xyzpy import manage, utils
    for mod, names in [(cr, ['combo_runner', 'combo_runner_to_ds']), (car, ['case_runner', 'case_runner_to_ds', 'find_missing_cases', 'parse_into_cases']),
                       (manage, ['save_ds', 'load_ds', 'save_merge_ds', 'save_df', 'load_df', 'auto_add_extension']),
                       (utils, ['format_number_with_error', 'estimate_from_repeats']),
                       (cropping, ['gen_cluster_script', 'grow', 'grow_cluster'])]:
        for n in names:
            if hasattr(mod, n): _wrap(mod, n, mod.__name__.split('.')[-1] + '.' + n)
            if hasattr(xyzpy, n) and getattr(xyzpy, n) is not getattr(mod, n, None):
                pass
    for n in ['combo_runner', 'combo_runner_to_ds', 'case_runner', 'case_runner_to_ds', 'find_missing_cases', 'save_ds', 'load_ds',
              'save_merge_ds', 'save_df', 'load_df', 'combo_runner_to_df', 'case_runner_to_df']:
        if hasattr(xyzpy, n): _wrap(xyzpy, n, 'xyzpy.' + n)
    for cls, names in [(farming.Runner, ['__init__', 'run_combos', 'run_cases', 'Crop']), (farming.Harvester, ['__init__', 'harvest_combos', 'harvest_cases', 'add_ds', 'Crop', 'delete_ds', 'expand_dims', 'drop_sel', 'save_full_ds', 'load_full_ds']),
                       (farming.Sampler, ['__init__', 'sample_combos', 'add_df', 'Crop', 'save_full_df', 'load_full_df', 'delete_df']),
                       (cropping.Crop, ['__init__', 'sow_combos', 'sow_cases', 'sow_samples', 'grow', 'grow_missing', 'reap', 'reap_combos', 'reap_combos_to_ds',
                                        'reap_runner', 'reap_harvest', 'reap_samples', 'check_bad', 'delete_all', 'gen_cluster_script', 'grow_cluster',
                                        'gen_qsub_script', 'missing_results', 'is_ready_to_reap'])]:
        for n in names:
            if hasattr(cls, n): _wrap(cls, n, cls.__name__ + '.' + n)
    try:
        from xyzpy.plot import plotter_matplotlib as pm, infiniplot as ip
        for n in ['lineplot', 'auto_lineplot', 'scatter', 'auto_scatter', 'histogram', 'auto_histogram', 'heatmap', 'auto_heatmap']:
            if hasattr(pm, n): _wrap(pm, n, 'plot.' + n)
        _wrap(ip, 'infiniplot', 'plot.infiniplot')
        for n in ['lineplot', 'scatter', 'histogram', 'heatmap', 'infiniplot', 'auto_lineplot', 'auto_scatter', 'auto_histogram', 'auto_heatmap']:
            if hasattr(xyzpy, n): _wrap(xyzpy, n, 'xyzpy.' + n)
    except Exception:
        pass



def dump():
    path = os.environ.get('XYZV_APICOV')
    if not path: return
    try:
        old = json.load(open(path)) if os.path.exists(path) else {}
    except Exception:
        old = {}
    for q, ps in SEEN.items():
        o = old.setdefault(q, {})
        for p, ks in ps.items():
            oo = o.setdefault(p, {})
            for k, n in ks.items(): oo[k] = oo.get(k, 0) + n
    json.dump(old, open(path, 'w'), indent=1, sort_keys=True)
