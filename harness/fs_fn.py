"""the swept function of the file-system level scenarios (importable by every child process)"""


def f(a):
    return a * 1.0 + 0.5
