"""`combo_runner_core`, `_unflatten`, `_run_linear_sequential`, `_run_linear_executor` (xyzpy/gen/combo_runner.py)
translated from the source on every run by `pyloop2lean` (loops -> folds, see that module).

    coreEnum      the disjointness check and the enumeration loop: fn_args, locs, settings
    coreRunSeq    _run_linear_sequential                 coreRunExec   _run_linear_executor
    coreRun       the shuffle bookkeeping around the linear run: which list is run, how the results are put back
    unflatten     _unflatten (the `while` loop popping the last argument, the stateful `store.pop` comprehension)
    coreProcess   the closure process_results: flat / no cases / cases with the placeholder
    coreGlue      structural: between the translated slices nothing rebinds what flows from one to the next, and what
                  is returned is process_results(results_linear)

`XyzProofs/Refine/Core.lean` proves that `Core.Sweep.locs`, `Core.runShuffled` / `runLinear`, `Nest.unflatten` and
`Core.processNested` are these translated definitions.  Values are opaque (`V`, ranks in the model), results are
opaque (`β`), `random.shuffle` is the application of an arbitrary index list `σ`, `itertools.product` is `Core.product`.
"""
import ast
from extract import find, one, NotFound
from pyexpr2lean import Untranslatable
from pyloop2lean import Spec, translate_loop_fn, V, S, B, R, N, A, NEST, FUT, NONE, L, P, D, F, is_dict, is_list

FILES = {'combo_runner': 'xyzpy/gen/combo_runner.py'}
FN = ['combo_runner_core']


def _mentions(node, name):
    return any(isinstance(n, ast.Name) and n.id == name for n in ast.walk(node))


def _calls(node, attr):
    return any(isinstance(n, ast.Call) and isinstance(n.func, ast.Attribute) and n.func.attr == attr for n in ast.walk(node))


def _is_doc(st):
    return isinstance(st, ast.Expr) and isinstance(st.value, ast.Constant)


# ---------------------------------------------------------------- (a) enumeration
def _enum_start(st):
    return isinstance(st, ast.If) and _calls(st.test, 'isdisjoint') and any(isinstance(b, ast.Raise) for b in st.body)


def _enum_stop(st):
    """the (outermost) loop that fills `locs`"""
    if not isinstance(st, ast.For): return False
    from pyloop2lean import LoopTr
    return 'locs' in LoopTr(Spec('combo_runner', FN, {})).mutated([st])


def _coords_loop(st):
    """`for arg, v in zip(case_args, case_params): case_coords[arg].add(v)`: collects the case coordinates only"""
    return isinstance(st, ast.For) and all(
        isinstance(b, ast.Expr) and isinstance(b.value, ast.Call) and ast.unparse(b.value.func).startswith('case_coords[')
        for b in st.body)


def a_coreEnum(T):
    spec = Spec('combo_runner', FN, {
        'case_args': ('caseArgs', L(S)), 'combo_args': ('comboArgs', L(S)),
        'case_values': ('caseValues', L(L(V))), 'combo_values': ('comboValues', L(L(V))),
        'constants': ('constants', D(S, V)),
    }, types={'locs': L(L(V)), 'settings': L(D(S, V))}, result=['fn_args', 'locs', 'settings'],
        start=_enum_start, stop=_enum_stop, skip=_coords_loop)
    return translate_loop_fn(spec, T, find)


# ---------------------------------------------------------------- the linear runs
def a_coreRunSeq(T):
    spec = Spec('combo_runner', ['_run_linear_sequential'], {'fn': ('f', F(A, R)), 'settings': ('settings', L(A))},
                types={'results_linear': L(R)}, returns=L(R), withs=('progbar',), skip=_is_doc)
    return translate_loop_fn(spec, T, find)


def _h_submit(call, tr, env):
    """_submit(executor, fn, **kws): the call for one setting is handed to the pool -> its future"""
    if [ast.unparse(a) for a in call.args] != ['executor', 'fn'] or len(call.keywords) != 1 or call.keywords[0].arg is not None:
        raise Untranslatable('_submit arguments: ' + ast.unparse(call))
    t, ty = tr.expr(call.keywords[0].value, env, A)
    return f'(submit {t})', FUT


def a_coreRunExec(T):
    spec = Spec('combo_runner', ['_run_linear_executor'], {
        'settings': ('settings', L(A)), '_get_result': ('getResult', F(FUT, R))},
        types={'results_linear': L(R), 'futures': L(FUT)}, returns=L(R), withs=('progbar',), skip=_is_doc,
        calls={'_submit': _h_submit})
    return translate_loop_fn(spec, T, find)


# ---------------------------------------------------------------- (b) shuffle bookkeeping
def _is_if_shuffle(st):
    return isinstance(st, ast.If) and _mentions(st.test, 'shuffle') and not _mentions(st.test, 'info')


def _run_start(st):
    return _is_if_shuffle(st) and not _mentions(st, 'results_linear')


def _run_stop(st):
    return _is_if_shuffle(st) and _mentions(st, 'results_linear')


def _run_skip(st):
    if isinstance(st, (ast.Import, ast.ImportFrom)) or _is_doc(st): return True
    if isinstance(st, ast.Expr) and isinstance(st.value, ast.Call) and ast.unparse(st.value.func) == 'random.seed': return True
    # choosing / creating the pool: only `executor` and `num_workers` are (re)bound
    stores = {n.id for n in ast.walk(st) if isinstance(n, ast.Name) and isinstance(n.ctx, ast.Store)}
    if isinstance(st, (ast.Assign, ast.If)) and stores and stores <= {'executor', 'num_workers', 'RayExecutor'} \
            and not _mentions(st, 'settings') and not _mentions(st, 'results_linear') and not _mentions(st, 'enum'):
        return True
    return False


def _h_shuffle(st, tr, env):
    c = st.value
    if len(c.args) != 1 or c.keywords or not isinstance(c.args[0], ast.Name):
        raise Untranslatable('random.shuffle arguments')
    name = c.args[0].id
    t, ty = tr.expr(c.args[0], env)
    if not is_list(ty): raise Untranslatable('random.shuffle of ' + str(ty))
    return [(name, f'(Py.permute σ {t})', ty)]


def _is_shuffle(st):
    return isinstance(st, ast.Expr) and isinstance(st.value, ast.Call) and ast.unparse(st.value.func) == 'random.shuffle'


def _run_call(lean_fn, n_pos):
    """_run_linear_sequential(**run_linear_opts) / _run_linear_executor(executor, **run_linear_opts): the swept
    function and the current list of settings are handed on -> `runSeq settings` / `runExec settings`"""
    def h(call, tr, env):
        if [ast.unparse(a) for a in call.args] != ['executor'][:n_pos]:
            raise Untranslatable('positional arguments of ' + ast.unparse(call)[:60])
        kw = {}
        for k in call.keywords:
            if k.arg is not None:
                kw[k.arg] = (k.value, None)
                continue
            if not isinstance(k.value, ast.Name) or k.value.id not in env or env[k.value.id][1] != 'ast':
                raise Untranslatable('keyword arguments of ' + ast.unparse(call)[:60])
            d, snap = env[k.value.id][0], env['$snap:' + k.value.id][0]
            for key, v in zip(d.keys, d.values):
                kw[key.value] = (v, snap)
        if set(kw) - {'fn', 'settings', 'verbosity'} or 'fn' not in kw or 'settings' not in kw:
            raise Untranslatable('arguments of the linear run: ' + str(sorted(kw)))
        for name in ('fn', 'settings'):
            v, snap = kw[name]
            if not (isinstance(v, ast.Name) and v.id == name):
                raise Untranslatable(f'{name}= is not the runner\'s {name}')
            if snap is not None and snap.get(name, 0) != tr.versions.get(name, 0):
                raise Untranslatable(f'{name} is rebound between building the options and the run')
        t, ty = tr.expr(ast.Name('settings', ast.Load()), env, L(A))
        return f'({lean_fn} {t})', L(R)
    return h


def a_coreRun(T):
    spec = Spec('combo_runner', FN, {
        'shuffle': ('shuffle', B), 'flat': ('flat', B), 'settings': ('settings', L(A)),
        'executor is not None': ('execGiven', B), 'parallel or num_workers': ('poolAsked', B),
    }, types={'results_linear': L(R)}, result=['settings', 'results_linear'], start=_run_start, stop=_run_stop,
        skip=_run_skip, stmts=[(_is_shuffle, _h_shuffle)], consts={'leR': 'leR'},
        calls={'_run_linear_sequential': _run_call('runSeq', 0), '_run_linear_executor': _run_call('runExec', 1)})
    return translate_loop_fn(spec, T, find)


# ---------------------------------------------------------------- (c) _unflatten
def a_unflatten(T):
    f = find(T['combo_runner'], ['_unflatten'])
    params = [a.arg for a in f.args.args]
    if params != ['store', 'all_combo_values', 'all_nan'] or f.args.vararg or f.args.kwarg or f.args.kwonlyargs:
        raise NotFound('_unflatten parameters ' + str(params))
    if len(f.args.defaults) != 1 or not (isinstance(f.args.defaults[0], ast.Constant) and f.args.defaults[0].value is None):
        raise NotFound('_unflatten: default of all_nan')
    spec = Spec('combo_runner', ['_unflatten'], {
        'store': ('store', D(L(V), NEST)), 'all_combo_values': ('allComboValues', L(L(V))), 'all_nan': ('allNan', NEST)},
        returns=NEST, skip=_is_doc)
    return translate_loop_fn(spec, T, find)


# ---------------------------------------------------------------- (d) process_results
def _h_unflatten(call, tr, env):
    """_unflatten(store, values[, all_nan]): the translated `_unflatten`; results enter the store as leaves, a missing
    `all_nan` is Python's None"""
    if call.keywords or not (2 <= len(call.args) <= 3) or any(isinstance(a, ast.Starred) for a in call.args):
        raise Untranslatable('_unflatten arguments')
    store, _ = tr.expr(call.args[0], env, D(L(V), NEST))
    vals, _ = tr.expr(call.args[1], env, L(L(V)))
    if len(call.args) == 3:
        dflt, _ = tr.expr(call.args[2], env, NEST)
    else:
        dflt = '(Core.Nest.leaf pyNone)'
    v = tr.new('u')
    tr.bind('exc', f'unflatten {store} {vals} {dflt}', v)
    return v, NEST


def a_coreProcess(T):
    spec = Spec('combo_runner', FN + ['process_results'], {
        'flat': ('flat', B), 'cases': ('casesGiven', B), 'locs': ('locs', L(L(V))), 'r': ('r', L(R)),
        'combo_values': ('comboValues', L(L(V))), 'all_combo_values': ('allComboValues', L(L(V))),
        'nan_like_result': ('nanLike', F(R, R)),
    }, returns='any', ret_wrap={L(R): 'CoreOut.flat', NEST: 'CoreOut.nested'}, skip=_is_doc,
        calls={'_unflatten': _h_unflatten}, consts={'pyNone': 'pyNone'})
    f = find(T['combo_runner'], FN + ['process_results'])
    if [a.arg for a in f.args.args] != ['r'] or f.args.vararg or f.args.kwarg or f.args.kwonlyargs or f.args.defaults:
        raise NotFound('process_results parameters')
    return translate_loop_fn(spec, T, find)


# ---------------------------------------------------------------- glue between the slices
FLOW = {'locs', 'settings', 'results_linear', 'combo_values', 'fn_args', 'enum', 'flat', 'cases', 'shuffle'}


def a_coreGlue(T):
    """true iff (1) enumeration slice, run slice, `def process_results` and the final returns follow one another in
    this order, (2) no statement outside the slices rebinds or mutates a variable that flows between them
    (`info[...] = …` and the reordering of `settings` *for the info dict* after the run are allowed: the run is over),
    (3) the function returns `process_results(results_linear)` (or, under `split`, process_results of every column)."""
    # the glue is a statement about the slices as they are translated: when one of them is not understood (moved into
    # a helper, rewritten out of the sub-language) nothing is known about what flows between them -> fall back, too
    # (NotFound / Untranslatable of the slice propagates); an interfering statement between UNDERSTOOD slices is `false`
    a_coreEnum(T); a_coreRun(T); a_coreProcess(T)
    f = find(T['combo_runner'], FN)
    body = [s for s in f.body if not _is_doc(s)]
    def idx(pred, what, after=0):
        for i in range(after, len(body)):
            if pred(body[i]): return i
        raise NotFound(what)
    e0 = idx(_enum_start, 'enumeration start'); e1 = idx(_enum_stop, 'enumeration end', e0)
    r0 = idx(_run_start, 'run start', e1 + 1); r1 = idx(_run_stop, 'run end', r0 + 1)
    p = idx(lambda s: isinstance(s, ast.FunctionDef) and s.name == 'process_results', 'process_results', r1 + 1)
    ok = True
    from pyloop2lean import LoopTr
    probe = LoopTr(Spec('combo_runner', FN, {}))
    for i, st in enumerate(body):
        if e0 <= i <= e1 or r0 <= i <= r1 or i == p: continue
        m = {x.lstrip('?') for x in probe.mutated([st])}
        if i < e0:
            continue                      # the head builds the inputs of the enumeration
        if i > p and isinstance(st, ast.If) and ast.unparse(st.test) == 'info is not None':
            m -= {'settings', 'enum_settings', '_'}        # labelling only, after the run
            if any(isinstance(n, ast.Return) for n in ast.walk(st)): ok = False
        if i > p and (isinstance(st, ast.Return) or (isinstance(st, ast.If) and ast.unparse(st.test) == 'split'
                                                     and all(isinstance(b, ast.Return) for b in st.body) and not st.orelse)):
            continue                      # the returns are checked below
        if m & FLOW: ok = False
    tail = body[p + 1:]
    rets = [n for st in tail for n in ast.walk(st) if isinstance(n, ast.Return)]
    last = tail[-1] if tail else None
    if not (isinstance(last, ast.Return) and last.value is not None and ast.unparse(last.value) == 'process_results(results_linear)'):
        ok = False
    for r in rets:
        if r is last: continue
        # the only other return: under `if split:`
        par = [st for st in tail if isinstance(st, ast.If) and ast.unparse(st.test) == 'split' and r in st.body]
        if not par or ast.unparse(r.value) != 'tuple((process_results(r) for r in zip(*results_linear)))':
            ok = False
    return 'true' if ok else 'false'


_VB = '{V : Type} [BEq V]'
PYERR = 'Except PyErr'
ANCHORS = [
    ('coreEnum', _VB + ' (caseArgs comboArgs : List String) (caseValues comboValues : List (List V)) '
     '(constants : List (String × V)) : ' f'{PYERR} (List String × List (List V) × List (List (String × V)))', a_coreEnum),
    ('coreRunSeq', '{α β : Type} (f : α → β) (settings : List α) : ' f'{PYERR} (List β)', a_coreRunSeq),
    ('coreRunExec', '{α β φ : Type} (submit : α → φ) (getResult : φ → β) (settings : List α) : ' f'{PYERR} (List β)', a_coreRunExec),
    ('coreRun', '{α β : Type} (leR : β → β → Bool) (σ : List Nat) (shuffle flat execGiven poolAsked : Bool) '
     '(runSeq runExec : List α → List β) (settings : List α) : ' f'{PYERR} (List α × List β)', a_coreRun),
    ('unflatten', '{V β : Type} [BEq V] (store : List (List V × Core.Nest β)) (allComboValues : List (List V)) '
     '(allNan : Core.Nest β) : ' f'{PYERR} (Core.Nest β)', a_unflatten),
    ('coreProcess', '{V β : Type} [BEq V] (pyNone : β) (nanLike : β → β) (flat casesGiven : Bool) (locs comboValues '
     'allComboValues : List (List V)) (r : List β) : ' f'{PYERR} (CoreOut β)', a_coreProcess),
    ('coreGlue', ': Bool', a_coreGlue),
]
