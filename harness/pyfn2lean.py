"""Translate whole Python function bodies (a statement sub-language) to Lean 4 terms (DESIGN.md §3, "function-level
extraction").

`pyexpr2lean` translates single expressions; this module translates *bodies*: straight-line code, `if/elif/else`,
assignments to locals and to declared attributes (`self.x`), augmented assignment, tuple assignment (incl. `divmod`),
`raise`, `return`, `list.append`, calls of sibling methods (inlined) and declared effect calls.  The result is a
pure Lean term of type `Except Gen.PyErr R` in continuation style:

    x = e ; rest          ↦   let x := ⟦e⟧; ⟦rest⟧
    if c: A else: B ; rest ↦   if ⟦c⟧ then ⟦A ; rest⟧ else ⟦B ; rest⟧
    raise ValueError(..)   ↦   .error .valueError
    return e / fall off    ↦   .ok (⟦e⟧ / the declared result tuple read from the current environment)

Python variables that may hold `None` or an integer are typed `onum` (Lean `Option Int`).  Where such a variable is
used as a number, the statement is wrapped in `match v with | none => .error .typeError | some v' => …` — Python
raises `TypeError` for arithmetic or ordering on `None`, and so does the translation.  An expression that both tests
a variable for `None` and uses it numerically (a short-circuit guard) is refused (Untranslatable → the anchor falls
back to its committed default and the correspondence judges).

Anything outside the sub-language raises `Untranslatable`.
"""
import ast
from pyexpr2lean import Tr, Untranslatable, lean_str

ERRS = {'ValueError': '.valueError', 'TypeError': '.typeError', 'XYZError': '.xyzError', 'StopIteration': '.stopIteration',
        'KeyError': '.keyError', 'IndexError': '.indexError', 'FileNotFoundError': '.fileNotFound'}


# calls without effects that may appear in an expression bound to a local and looked through
PURE_CALLS = {'os.path.join', 'BTCH_NM.format', 'RSLT_NM.format', 'str', 'len', 'int', 'min', 'max', 'abs', 'tuple', 'list'}


def is_none(e):
    return isinstance(e, ast.Constant) and e.value is None


class Tr2(Tr):
    """expression translator that also knows `onum` / `obool` / `list` typed names"""

    def resolve(self, e):
        """the syntax a local name stands for, when it was bound to an expression outside the sub-language"""
        hit = self.lookup(e)
        while hit is not None and hit[1] == 'ast':
            e = hit[0]
            hit = self.lookup(e)
        return e

    def expr(self, e):
        hit = self.lookup(e)
        if hit is not None and hit[1] == 'ast':
            return self.expr(hit[0])            # inline the defining expression (it is pure: no calls with effects are bound)
        if hit is not None:
            return hit
        if is_none(e):
            return 'none', 'none'
        if isinstance(e, ast.Compare) and len(e.ops) == 1 and isinstance(e.ops[0], (ast.Is, ast.IsNot, ast.Eq, ast.NotEq)) \
                and (is_none(e.left) or is_none(e.comparators[0])):
            other = e.comparators[0] if is_none(e.left) else e.left
            t, ty = self.expr(other)
            if ty not in ('onum', 'obool', 'olist', 'otok'):
                raise Untranslatable('None test on a non-optional: ' + ast.unparse(e))
            pos = isinstance(e.ops[0], (ast.Is, ast.Eq))
            return (f'{t}.isNone' if pos else f'{t}.isSome'), 'bool'
        if isinstance(e, ast.Compare) and len(e.ops) == 1 and isinstance(e.ops[0], (ast.Is, ast.IsNot)) \
                and isinstance(e.comparators[0], ast.Constant) and isinstance(e.comparators[0].value, bool):
            # `x is True` / `x is not False` on an optional bool
            t, ty = self.expr(e.left)
            lit = 'true' if e.comparators[0].value else 'false'
            if ty == 'obool':
                r = f'({t} == some {lit})'
            elif ty == 'bool':
                r = f'({t} == {lit})'
            else:
                raise Untranslatable('is True/False on ' + ty)
            return (r if isinstance(e.ops[0], ast.Is) else f'(!{r})'), 'bool'
        if isinstance(e, ast.Call) and isinstance(e.func, ast.Name) and e.func.id == 'len' and len(e.args) == 1 and not e.keywords:
            t, ty = self.expr(e.args[0])
            if ty == 'list':
                return f'({t}.length : Int)', 'num'
            raise Untranslatable('len of ' + ty)
        if isinstance(e, ast.Call) and isinstance(e.func, ast.Name) and e.func.id == 'bool' and len(e.args) == 1:
            return self.truthy(e.args[0]), 'bool'
        if isinstance(e, ast.UnaryOp) and isinstance(e.op, ast.Not):
            return f'(!{self.truthy(e.operand)})', 'bool'
        if isinstance(e, ast.BoolOp):
            parts = [self.truthy(v) for v in e.values]
            op = ' && ' if isinstance(e.op, ast.And) else ' || '
            return '(' + op.join(parts) + ')', 'bool'
        if isinstance(e, ast.Call) and isinstance(e.func, ast.Name) and e.func.id == 'isinstance' and len(e.args) == 2 \
                and isinstance(e.args[1], ast.Name) and e.args[1].id == 'int':
            # the modelled domain: a declared number is a Python int, an optional number is an int or None
            t, ty = self.expr(e.args[0])
            if ty == 'num': return 'true', 'bool'
            if ty == 'onum': return f'{t}.isSome', 'bool'
            raise Untranslatable('isinstance(_, int) of ' + str(ty))
        if isinstance(e, ast.IfExp):
            c = self.truthy(e.test)
            a, at = self.expr(e.body); b, bt = self.expr(e.orelse)
            opt = {'num': 'onum', 'bool': 'obool', 'onum': 'onum', 'obool': 'obool'}
            lean_ty = {'onum': 'Option Int', 'obool': 'Option Bool'}

            def lift(t, ty, to):
                if ty == to: return t
                if ty == 'none': return f'(none : {lean_ty[to]})'
                return f'(some {t} : {lean_ty[to]})'
            if at == bt and at != 'none':
                return f'(if {c} then {a} else {b})', at
            to = opt.get(at if at != 'none' else bt)
            if to and opt.get(bt if bt != 'none' else at) == to:
                return f'(if {c} then {lift(a, at, to)} else {lift(b, bt, to)})', to
            raise Untranslatable('conditional expression of types ' + str((at, bt)))
        if isinstance(e, ast.List) and not e.elts:
            return '[]', 'list'
        if isinstance(e, ast.Tuple):
            parts = [self.expr(x) for x in e.elts]
            return '(' + ', '.join(p for p, _ in parts) + ')', ('tuple',) + tuple(t for _, t in parts)
        return super().expr(e)

    def truthy(self, e):
        """Python truth value of an expression"""
        t, ty = self.expr(e)
        if ty == 'bool':
            return t
        if ty == 'list':
            return f'(!{t}.isEmpty)'
        if ty == 'num':
            return f'(decide ({t} ≠ 0))'
        if ty == 'str':
            return f'(!({t}).isEmpty)'
        if ty == 'obool':
            return f'({t} == some true)'          # None and False are both falsy
        if ty == 'onum':
            return f'({t}.isSome && {t} != some 0)'
        raise Untranslatable(f'truth value of {ty}: ' + ast.unparse(e))


class Spec:
    """what to translate and how names are typed

    file, path     where the function is (key of extract.FILES, [Class, method])
    env            python text -> (lean name, type) for parameters and attributes that are read or written
    result         list of python texts whose final values are the result tuple (after an optional returned value)
    returns        type of the returned value or None when the function returns nothing
    inline         {call text: (file, path)}: calls of parameterless sibling methods that are inlined
    effects        {function text: handler(call, tr, env) -> [(python text, lean term, type)]}: calls that update
                   declared state (e.g. write_to_disk(...) appending to a modelled list of files)
    skip           predicate on a statement: statements to be ignored (logging, prints)
    """

    def __init__(self, file, path, env, result=(), returns=None, inline=None, effects=None, skip=None, num='Int',
                 consts=None, until=None):
        self.file, self.path, self.env = file, path, dict(env)
        self.result, self.returns = list(result), returns
        self.inline, self.effects, self.skip = inline or {}, effects or {}, skip
        self.num = num
        self.consts = consts or {}
        self.until = until          # predicate on a statement: the translated part of the body ends before it


class FnTr:
    MAX_NODES = 4000

    def __init__(self, spec, trees, find):
        self.spec, self.trees, self.find = spec, trees, find
        self.nodes = 0
        self.fresh = 0

    # ------------------------------------------------------------------ helpers
    def tr(self, env):
        return Tr2(env, self.spec.num)

    def option_uses(self, e, env, passthrough=False):
        """optional-typed names used as plain values in e (outside a None test), and those that are None-tested"""
        used, tested = [], []

        def walk(n, ctx):
            # ctx: 'pass' = the value is handed on unchanged (returned, stored, put in a tuple), 'test' = compared
            # with None / True / False, 'use' = anything else (arithmetic, ordering, truth value)
            key = ast.unparse(n) if isinstance(n, (ast.Name, ast.Attribute, ast.Subscript, ast.Call)) else None
            if key is not None and key in env:
                if env[key][1] in ('onum', 'obool'):
                    if ctx == 'test': tested.append(key)
                    elif ctx == 'use': used.append(key)
                    # ctx == 'truth': the truth value of None is False, no error; ctx == 'pass': handed on
                return
            if ctx == 'truth' and isinstance(n, ast.BoolOp):
                for c in n.values: walk(c, 'truth')
                return
            if ctx == 'truth' and isinstance(n, ast.UnaryOp) and isinstance(n.op, ast.Not):
                walk(n.operand, 'truth')
                return
            if ctx == 'pass' and isinstance(n, ast.Tuple):
                for c in n.elts: walk(c, 'pass')
                return
            if ctx == 'pass' and isinstance(n, ast.IfExp):
                walk(n.test, 'use'); walk(n.body, 'pass'); walk(n.orelse, 'pass')
                return
            if isinstance(n, ast.Compare) and len(n.ops) == 1 and isinstance(n.ops[0], (ast.Is, ast.IsNot, ast.Eq, ast.NotEq)) \
                    and (is_none(n.left) or is_none(n.comparators[0])):
                walk(n.comparators[0] if is_none(n.left) else n.left, 'test')
                return
            if isinstance(n, ast.Compare) and len(n.ops) == 1 and isinstance(n.ops[0], (ast.Is, ast.IsNot)) \
                    and isinstance(n.comparators[0], ast.Constant) and isinstance(n.comparators[0].value, bool):
                walk(n.left, 'test')
                return
            for c in ast.iter_child_nodes(n):
                walk(c, 'use')
        walk(e, 'truth' if passthrough == 'truth' else 'pass' if passthrough else 'use')
        used = list(dict.fromkeys(used))
        if set(used) & set(tested):
            raise Untranslatable('optional both tested and used in one expression: ' + ast.unparse(e))
        return used

    def unwrapping(self, exprs, env, ind, k, passthrough=False):
        """emit matches that unwrap every optional used as a value in `exprs`, then k(env')"""
        used = []
        for e in exprs:
            for u in self.option_uses(e, env, passthrough):
                if u not in used: used.append(u)
        if not used:
            return k(env, ind)
        env2 = dict(env)
        out, closing = [], 0
        cur = ind
        for u in used:
            t, ty = env[u]
            self.fresh += 1
            v = f'{t.strip("()").replace(".", "_")}_v{self.fresh}'
            out.append(f'{cur}(match {t} with')
            out.append(f'{cur}| none => ' + self.err(env, '.typeError'))
            out.append(f'{cur}| some {v} =>')
            env2[u] = (v, 'num' if ty == 'onum' else 'bool')
            cur += '  '
            closing += 1
        body = k(env2, cur)
        return '\n'.join(out) + '\n' + body + ')' * closing

    def assign(self, env, key, term, ty):
        """new environment and the `let` line for python lvalue `key` := term"""
        env2 = dict(env)
        if key in env:
            name, dty = env[key]
            if dty == 'onum' and ty == 'num':
                term, ty = f'(some {term} : Option Int)', 'onum'
            elif dty == 'obool' and ty == 'bool':
                term, ty = f'(some {term} : Option Bool)', 'obool'
            elif dty in ('onum', 'obool') and ty == 'none':
                term, ty = f'(none : Option {"Int" if dty == "onum" else "Bool"})', dty
            elif dty == 'otok' and ty == 'tok':          # an opaque value that may be None
                term, ty = f'(some {term})', 'otok'
            elif dty == 'otok' and ty == 'none':
                term, ty = 'none', 'otok'
            elif dty != ty:
                raise Untranslatable(f'assignment changes the type of {key}: {dty} := {ty}')
        else:
            if not key.isidentifier():
                raise Untranslatable('assignment to undeclared ' + key)
            if ty == 'none':
                raise Untranslatable('None assigned to an undeclared local ' + key)
            name = key.strip('_') or 'v'
            name = ''.join(w if i == 0 else w.capitalize() for i, w in enumerate(name.split('_')))
            if name in ('end', 'from', 'at', 'do', 'then', 'else', 'fun', 'let', 'in', 'open', 'def', 'Type', 'res'):
                name += "'"
        env2[key] = (name, ty)
        lty = {'num': self.spec.num, 'bool': 'Bool', 'onum': 'Option Int', 'obool': 'Option Bool', 'str': 'String'}.get(ty)
        ann = f' : {lty}' if lty and not term.startswith('(some') and not term.startswith('(none') else ''
        return env2, f'let {name}{ann} := {term}'

    # ------------------------------------------------------------------ statements
    def block(self, stmts, env, ind):
        self.nodes += 1
        if self.nodes > self.MAX_NODES:
            raise Untranslatable('function too large after branch duplication')
        if not stmts:
            return ind + self.fall_off(env)
        s, rest = stmts[0], stmts[1:]
        if self.spec.skip and self.spec.skip(s):
            return self.block(rest, env, ind)
        if isinstance(s, ast.Pass) or (isinstance(s, ast.Expr) and isinstance(s.value, ast.Constant)):
            return self.block(rest, env, ind)
        if isinstance(s, (ast.Import, ast.ImportFrom)):
            return self.block(rest, env, ind)
        if isinstance(s, ast.Raise):
            exc = s.exc.func if isinstance(s.exc, ast.Call) else s.exc
            name = ast.unparse(exc) if exc is not None else '?'
            return ind + self.err(env, ERRS.get(name, '.other'))
        if isinstance(s, ast.Return):
            if s.value is None or is_none(s.value):
                return ind + self.fall_off(env)
            if self.spec.returns is None:
                raise Untranslatable('unexpected return value')

            def k(env2, ind2):
                t, ty = self.tr(env2).expr(s.value)
                if ty != self.spec.returns:
                    if self.spec.returns == 'bool':
                        t = self.tr(env2).truthy(s.value)
                    else:
                        raise Untranslatable(f'returned {ty}, declared {self.spec.returns}')
                return ind2 + self.ok(env2, t)
            return self.unwrapping([s.value], env, ind, k, passthrough=True)
        if isinstance(s, ast.If):
            j = self.simple_if(s, rest, env, ind)
            if j is not None:
                return j

            def k(env2, ind2):
                c = self.tr(env2).truthy(s.test)
                # the unwrapped names are only valid for the test; the branches see the original environment
                a = self.block(list(s.body) + rest, env, ind2 + '  ')
                b = self.block(list(s.orelse) + rest, env, ind2 + '  ')
                return f'{ind2}if {c} then\n{a}\n{ind2}else\n{b}'
            return self.unwrapping([s.test], env, ind, k, passthrough='truth')
        if isinstance(s, ast.Assign) and len(s.targets) > 1 and not any(isinstance(t, ast.Tuple) for t in s.targets):
            # a = b = e  ≡  tmp = e; a = tmp; b = tmp   (e is evaluated once; our expressions have no effects)
            split = [ast.Assign(targets=[t], value=s.value) for t in s.targets]
            return self.block(split + rest, env, ind)
        if isinstance(s, ast.Assign) and len(s.targets) == 1:
            tgt = s.targets[0]
            if isinstance(tgt, ast.Tuple):
                v = s.value
                if isinstance(v, ast.Call) and ast.unparse(v.func) == 'divmod' and len(v.args) == 2 and len(tgt.elts) == 2:
                    vals = [ast.BinOp(v.args[0], ast.FloorDiv(), v.args[1]), ast.BinOp(v.args[0], ast.Mod(), v.args[1])]
                elif isinstance(v, ast.Tuple) and len(v.elts) == len(tgt.elts):
                    vals = list(v.elts)
                else:
                    raise Untranslatable('tuple assignment from ' + ast.unparse(v))
                keys = [ast.unparse(t) for t in tgt.elts]

                def k(env2, ind2):
                    terms = [self.tr(env2).expr(x) for x in vals]      # all right-hand sides see the old values
                    lines, tmp = [], []
                    for i, (t, ty) in enumerate(terms):
                        self.fresh += 1
                        nm = f'tmp{self.fresh}'
                        tmp.append((nm, ty))
                        lines.append(f'{ind2}let {nm} := {t}')
                    e3 = dict(env)
                    for key, (nm, ty) in zip(keys, tmp):
                        e3, ln = self.assign(e3, key, nm, ty)
                        lines.append(ind2 + ln)
                    return '\n'.join(lines) + '\n' + self.block(rest, e3, ind2)
                return self.unwrapping(vals, env, ind, k)
            key = ast.unparse(tgt)
            def k(env2, ind2):
                t, ty = self.tr(env2).expr(s.value)
                e3, ln = self.assign(env, key, t, ty)
                return f'{ind2}{ln}\n' + self.block(rest, e3, ind2)
            if isinstance(tgt, ast.Name) and key not in self.spec.env:
                # a local bound to something outside the sub-language (a path, a formatted name): remember the syntax;
                # it is inlined where the name is used, and handlers can look through it
                try:
                    probe = FnTr(self.spec, self.trees, self.find)
                    probe.unwrapping([s.value], env, ind, lambda e2, i2: probe.tr(e2).expr(s.value)[0], passthrough=True)
                except Untranslatable:
                    reads = {n.id for n in ast.walk(s.value) if isinstance(n, ast.Name)}
                    writes = {ast.unparse(t) for st in rest for n in ast.walk(st) if isinstance(n, (ast.Assign, ast.AugAssign))
                              for t in (n.targets if isinstance(n, ast.Assign) else [n.target])}
                    if not any(isinstance(n, ast.Call) and ast.unparse(n.func) not in PURE_CALLS for n in ast.walk(s.value)) \
                            and not (reads & writes):
                        e3 = dict(env); e3[key] = (s.value, 'ast')
                        return self.block(rest, e3, ind)
            return self.unwrapping([s.value], env, ind, k, passthrough=True)
        if isinstance(s, ast.AugAssign):
            key = ast.unparse(s.target)
            binop = ast.BinOp(s.target, s.op, s.value)

            def k(env2, ind2):
                t, ty = self.tr(env2).expr(binop)
                e3, ln = self.assign(env, key, t, ty)
                return f'{ind2}{ln}\n' + self.block(rest, e3, ind2)
            return self.unwrapping([binop], env, ind, k)
        if isinstance(s, ast.Expr) and isinstance(s.value, ast.Call):
            c = s.value
            fn = ast.unparse(c.func)
            if fn in self.spec.inline and not c.args and not c.keywords:
                file, path = self.spec.inline[fn]
                f = self.find(self.trees[file], path)
                body = list(f.body)
                if any(isinstance(n, ast.Return) and n.value is not None for n in ast.walk(f)):
                    raise Untranslatable('inlined method returns a value: ' + fn)
                if any(isinstance(n, ast.Return) for n in ast.walk(f)):
                    raise Untranslatable('inlined method has an early return: ' + fn)
                return self.block(body + rest, env, ind)
            if fn in self.spec.effects:
                def k(env2, ind2):
                    ups = self.spec.effects[fn](c, self.tr(env2), env2)
                    e3, lines = env, []
                    for key, term, ty in ups:
                        e3, ln = self.assign(e3, key, term, ty)
                        lines.append(ind2 + ln)
                    return '\n'.join(lines) + ('\n' if lines else '') + self.block(rest, e3, ind2)
                return self.unwrapping(list(c.args) + [kw.value for kw in c.keywords], env, ind, k)
            if isinstance(c.func, ast.Attribute) and c.func.attr == 'append' and len(c.args) == 1 and not c.keywords:
                key = ast.unparse(c.func.value)
                if key in env and env[key][1] == 'list':
                    def k(env2, ind2):
                        t, ty = self.tr(env2).expr(c.args[0])
                        e3, ln = self.assign(env, key, f'({env[key][0]} ++ [{t}])', 'list')
                        return f'{ind2}{ln}\n' + self.block(rest, e3, ind2)
                    return self.unwrapping([c.args[0]], env, ind, k)
            raise Untranslatable('call statement ' + ast.unparse(c)[:80])
        raise Untranslatable('statement ' + type(s).__name__ + ': ' + ast.unparse(s)[:80])

    def simple_if(self, s, rest, env, ind):
        """an `if` whose branches only assign (no raise / return / optional used as a value) is a join, not a fork:
            let (x, y) := if c then (… new x, new y …) else (x, y)
        so the rest of the body is not duplicated"""
        def plain(block):
            for st in block:
                if isinstance(st, ast.Pass) or (isinstance(st, ast.Expr) and isinstance(st.value, ast.Constant)):
                    continue
                if not (isinstance(st, ast.Assign) and len(st.targets) == 1 and not isinstance(st.targets[0], ast.Tuple)) \
                        and not isinstance(st, ast.AugAssign):
                    return False
            return True
        if not (plain(s.body) and plain(s.orelse)):
            return None
        try:
            if self.option_uses(s.test, env, 'truth'):
                return None

            def run(block):
                e, lines = dict(env), []
                for st in block:
                    if isinstance(st, ast.Assign):
                        key, val, pas = ast.unparse(st.targets[0]), st.value, True
                    elif isinstance(st, ast.AugAssign):
                        key, val, pas = ast.unparse(st.target), ast.BinOp(st.target, st.op, st.value), False
                    else:
                        continue
                    if self.option_uses(val, e, pas):
                        return None
                    t, ty = self.tr(e).expr(val)
                    e, ln = self.assign(e, key, t, ty)
                    lines.append(ln)
                return e, lines
            ra, rb = run(s.body), run(s.orelse)
            if ra is None or rb is None:
                return None
            (ea, la), (eb, lb) = ra, rb
            keys = [k for k in dict.fromkeys(list(ea) + list(eb)) if ea.get(k) != env.get(k) or eb.get(k) != env.get(k)
                    or any(ast.unparse(getattr(st, 'targets', [getattr(st, 'target', None)])[0]) == k
                           for st in list(s.body) + list(s.orelse) if isinstance(st, (ast.Assign, ast.AugAssign)))]
            keys = list(dict.fromkeys(keys))
            if not keys:
                return self.block(rest, env, ind)
            for k in keys:
                if k not in ea or k not in eb or ea[k][1] != eb[k][1] or ea[k][0] != eb[k][0]:
                    return None         # defined on one path only, or with another type
            c = self.tr(env).truthy(s.test)
        except Untranslatable:
            return None
        names = [ea[k][0] for k in keys]
        tup = names[0] if len(names) == 1 else '(' + ', '.join(names) + ')'
        pat = tup
        i2 = ind + '    '
        a = ''.join(f'{i2}{ln}\n' for ln in la) + f'{i2}{tup}'
        b = ''.join(f'{i2}{ln}\n' for ln in lb) + f'{i2}{tup}'
        e3 = dict(env)
        for k in keys:
            e3[k] = ea[k]
        return (f'{ind}let {pat} := if {c} then\n{a}\n{ind}  else\n{b}\n' + self.block(rest, e3, ind))

    def err(self, env, code):
        return f'.error {code}'

    def ok(self, env, ret=None):
        parts = ([ret] if ret is not None else []) + [env[k][0] for k in self.spec.result]
        if not parts:
            return '.ok ()'
        return '.ok (' + ', '.join(parts) + ')'

    def fall_off(self, env):
        if self.spec.returns is not None:
            raise Untranslatable('a path returns nothing although a value is declared')
        return self.ok(env)


def translate_fn(spec, trees, find):
    f = find(trees[spec.file], spec.path)
    tr = FnTr(spec, trees, find)
    env = dict(spec.env)
    body = list(f.body)
    if spec.until is not None:
        for i, st in enumerate(body):
            if spec.until(st):
                body = body[:i]
                break
        else:
            raise Untranslatable('end of the translated part not found')
    return '\n' + tr.block(body, env, '  ')
